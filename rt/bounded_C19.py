"""
Bounded stand-in (G4) for C19 -- "Special-function and gamma-fitting helpers are accurate".

The contract is evaluated on the REAL helpers tsdate.hypergeo._digamma / _trigamma / _betaln and
tsdate.approx.approximate_gamma_mom / approximate_gamma_kl / approximate_gamma_iqr.  The oracle is mpmath at 40
significant digits (psi, loggamma, regularised incomplete gamma and a safeguarded Newton inversion of it written
here); it shares no code with tsdate.  The returned natural parameters (alpha, beta) = (shape - 1, rate) are
converted to (shape, rate) in mpmath and the fitted gamma's own mean / variance / mean-log / quantiles are compared
with the REQUESTED ones (the inputs), not with some other fit.

Contract clauses (one obligation each)
  digamma-matches-reference           |_digamma(x)  - psi(0,x)| <= 1e-9 max(1, |psi(0,x)|)
  trigamma-matches-reference          |_trigamma(x) - psi(1,x)| <= 1e-9 max(1, |psi(1,x)|)
  betaln-matches-reference            |_betaln(p,q) - ln B(p,q)| <= 1e-9 max(1, |ln B(p,q)|)
  mom-fit-has-requested-mean-and-variance   valid (mean, variance): fitted gamma has that mean and variance (rtol 1e-9)
  kl-fit-has-requested-mean-and-mean-log    valid (mean, mean log): fitted gamma has that mean (rtol 1e-9) and that
                                            E[log t] (|err| <= 1e-9 max(1, |mean log|)), or KLMinimizationFailedError
  fit-failure-is-reported             invalid input (non-positive / NaN moments, Jensen violated, infinite mean log,
                                      unsorted quantiles) raises KLMinimizationFailedError, and no call on any input
                                      raises anything else
  iqr-fit-matches-quantile-ratio      when the matching shape is below the cap: upper/lower quantile ratio of the
                                      fitted gamma equals x2/x1 and its lower quantile equals x1 (rtol 1e-9)
  iqr-fit-capped-matches-lower-quantile   when the matching shape would exceed the cap (or x2 == x1): returned shape
                                      is exactly max_shape and the q1-quantile of the fitted gamma equals x1 (rtol 1e-9)
  known-trigamma-small-argument-cutoff     same test as trigamma-matches-reference, on 2e-5 < x <= 1e-4 only
  known-betaln-large-argument-cancellation same test as betaln-matches-reference, on max(p,q) > 1e5 only
  known-iqr-newton-skipped-when-squared-lower-quantile-underflows   same test as iqr-fit-matches-quantile-ratio, on
                                      inputs whose exact standardised lower quantile is < 2.3e-162 (shape <~ 0.01 with
                                      q1 = 0.025): y1**2 underflows in the Newton step, the refinement is silently
                                      skipped and the initial bound log(q2/q1)/log(x2/x1) is returned (shape off by ~1e-4)

Tolerances.  "Near machine precision" / "the requested mean" are read as the brief's strict tolerance, relative
1e-9 (with an absolute floor of 1e-9 where the reference crosses zero: digamma at x = 1.4616..., ln B on the
curve B = 1, E[log t] near 0).  The Newton fits stop at a relative step of sqrt(eps) = 1.5e-8 and converge
quadratically, and the large-shape short cut of the KL fit has an analytic mean-log error 1/(12 alpha^2) <= 8.4e-10
for alpha >= 1e4, so 1e-9 is attainable by a correct implementation; nothing here is looser than 1e-9.
The maximal observed error of every quantity is written to the notes.

Input space (seeded; deterministic for a given seed)
  special functions: x log-spaced on [1e-8, 1e8] (quick 48 / thorough 1000 points per decade, multiplied by a seeded
     jitter), plus both floating-point neighbours of every series cut-off in the code (1e-5, 8.5 for digamma; 1e-4, 5
     for trigamma), small integers and half-integers;  (p, q) on a log-spaced grid over [1e-8, 1e8]^2
     (quick 49 x 49, thorough 193 x 193, jittered).
  mom: mean 10^[-8,8] x shape 10^[-5,7] (variance = mean^2 / shape);   quick 33 x 25, thorough 129 x 97.
  kl : (shape 10^[-6,8] x rate 10^[-6,6]) turned into exact (mean, mean log) by mpmath, plus free pairs with
       Jensen gap log(mean) - meanlog in 10^[-9,6]; both sides of the short-cut threshold alpha = 1e4.
  iqr: quantile pairs {(.25,.75),(.05,.95),(.025,.975),(.4,.6),(.1,.5),(.3,.9)} x true shape 10^[-2.3, 4.2] x scale
       10^{-6,0,6} x max_shape {1000,100,10,2}, inputs are exact quantiles of that gamma (so capped and uncapped
       answers are both known) plus free ratios x2/x1 - 1 in 10^[-6, 6]; x2 == x1.  Inputs whose lower quantile is not a
       positive double (it underflows for shape <~ 0.005) are not generated.
  Not exhaustive (a lattice over a continuum).

NOT covered: arguments <= 0 of the special functions (reflection branches; tsdate only passes positive shapes),
non-finite inputs to the fits (observed behaviour is recorded in the notes), _gammainc_der on its own (exercised
only through the iqr Newton iteration), approximate_log_moments / average_gammas (the latter is approximate_gamma_kl
of averaged statistics), behaviour under JIT (this module calls whatever the imported tsdate exposes).
"""
import math
import warnings

import mpmath
import numpy as np
from mpmath import mp, mpf

from rt import bounded_api

TOL = 1e-9
mp.dps = 40


# =========================================================================================== oracle helpers
def _P(a, x):
    """regularised lower incomplete gamma P(a, x).  mpmath.gammainc for moderate shapes; for large shapes (where mpmath's
    hypergeometric summation gives up) the all-positive series  x^a e^-x / Gamma(a+1) * sum_n x^n / ((a+1)...(a+n))."""
    a, x = mpf(a), mpf(x)
    if a < 500:
        return mpmath.gammainc(a, 0, x, regularized=True)
    term = mpf(1)
    tot = mpf(1)
    n = 0
    eps = mpf(10) ** (-(mp.dps + 5))
    while True:
        n += 1
        term *= x / (a + n)
        tot += term
        if term < eps * tot and x < a + n:
            break
        if n > 5_000_000:
            raise RuntimeError("oracle: incomplete gamma series did not converge")
    return tot * mp.exp(a * mp.log(x) - x - mpmath.loggamma(a + 1))


def gamma_quantile(a, q):
    """x with P(a, x) = q, by safeguarded Newton on l = log x of  log P(a, e^l) - log q  (monotone increasing)."""
    a, q = mpf(a), mpf(q)
    lq = mp.log(q)
    # bracket in log-space
    lo = mp.log(a) - 1 if a > 1 else (mp.log(q) + mpmath.loggamma(a + 1)) / a - 1
    hi = lo + 2
    while mp.log(_P(a, mp.exp(lo))) > lq:
        lo -= max(1, abs(lo))
    while mp.log(_P(a, mp.exp(hi))) < lq:
        hi += max(1, abs(hi) / 4)
    l = (lo + hi) / 2
    for _ in range(200):
        x = mp.exp(l)
        p = _P(a, x)
        f = mp.log(p) - lq
        if f > 0:
            hi = l
        else:
            lo = l
        d = mp.exp(a * l - x - mpmath.loggamma(a)) / p  # d log P / d l
        step = f / d if d != 0 else None
        new = l - step if step is not None else None
        if new is None or not (lo < new < hi):
            new = (lo + hi) / 2
        if abs(new - l) <= mpf(10) ** (-34) * max(1, abs(l)):
            l = new
            break
        l = new
    x = mp.exp(l)
    if abs(_P(a, x) / q - 1) > mpf(10) ** (-28):
        raise RuntimeError(f"oracle: quantile inversion did not converge for a={a}, q={q}")
    return x


def _mixed(o, r):
    """|o - r| / max(1, |r|) as a float (inf if o is not finite)"""
    o = float(o)
    if not math.isfinite(o):
        return math.inf
    return float(abs(mpf(o) - r) / max(mpf(1), abs(r)))


def _relerr(o, r):
    return float(abs(o / r - 1)) if r != 0 else float(abs(o))


class Worst:
    def __init__(self):
        self.w = {}

    def add(self, name, err, inp):
        if err > self.w.get(name, (-1.0, None))[0]:
            self.w[name] = (err, inp)

    def notes(self):
        return "largest observed error per quantity: " + "; ".join(
            f"{k}={v[0]:.3g} at {v[1]}" for k, v in sorted(self.w.items()))


# =========================================================================================== special functions
def _lattice_1d(rng, per_decade, lo=-8, hi=8):
    n = (hi - lo) * per_decade + 1
    x = 10.0 ** np.linspace(lo, hi, n)
    x = x * np.exp(rng.uniform(-0.5, 0.5, n) * math.log(10) / per_decade)  # jitter inside the cell
    return np.clip(x, 10.0 ** lo, 10.0 ** hi)


def special_functions(rep, hyp, rng, thorough, worst, deferred):
    per = 1000 if thorough else 48
    xs = list(_lattice_1d(rng, per))
    for c in (1e-5, 8.5, 1e-4, 5.0):
        xs += [c, float(np.nextafter(c, 0)), float(np.nextafter(c, np.inf)), c * (1 - 1e-9), c * (1 + 1e-9)]
    xs += [0.5 * k for k in range(1, 41)] + [1.4616321449683623, 1e-8, 1e8]
    for x in xs:
        x = float(x)
        X = mpf(x)
        inp = {"x": x}
        r0 = mpmath.psi(0, X)
        o = hyp._digamma(x)
        e = _mixed(o, r0)
        worst.add("_digamma", e, x)
        rep.case("digamma-matches-reference", e <= TOL, key=("psi0", x), input=inp, observed=float(o),
                 expected={"psi0": float(r0), "tol": TOL})
        r1 = mpmath.psi(1, X)
        o = hyp._trigamma(x)
        e = _mixed(o, r1)
        worst.add("_trigamma", e, x)
        kw = dict(key=("psi1", x), input=inp, observed=float(o), expected={"psi1": float(r1), "tol": TOL})
        if 2e-5 < x <= 1e-4:
            deferred.append(("known-trigamma-small-argument-cutoff", e <= TOL, kw))
        else:
            rep.case("trigamma-matches-reference", e <= TOL, **kw)
    n = 193 if thorough else 49
    ps = 10.0 ** np.linspace(-8, 8, n) * np.exp(rng.uniform(-0.4, 0.4, n) * math.log(10) * 16 / (n - 1))
    qs = 10.0 ** np.linspace(-8, 8, n) * np.exp(rng.uniform(-0.4, 0.4, n) * math.log(10) * 16 / (n - 1))
    ps, qs = np.clip(ps, 1e-8, 1e8), np.clip(qs, 1e-8, 1e8)
    for p in ps:
        for q in qs:
            p, q = float(p), float(q)
            Pm, Qm = mpf(p), mpf(q)
            r = mpmath.loggamma(Pm) + mpmath.loggamma(Qm) - mpmath.loggamma(Pm + Qm)
            o = hyp._betaln(p, q)
            e = _mixed(o, r)
            big = max(p, q) > 1e5
            worst.add("_betaln(max arg > 1e5)" if big else "_betaln(max arg <= 1e5)", e, (p, q))
            kw = dict(key=("betaln", p, q), input={"p": p, "q": q}, observed=float(o), expected={"lnB": float(r), "tol": TOL})
            if big:
                deferred.append(("known-betaln-large-argument-cancellation", e <= TOL, kw))
            else:
                rep.case("betaln-matches-reference", e <= TOL, **kw)


# =========================================================================================== gamma fits
def _fit(f, err_type, *args):
    """('ok', (alpha, beta)) | ('failed', msg) | ('crash', 'Type: msg')"""
    try:
        a, b = f(*args)
        return "ok", (float(a), float(b))
    except err_type as e:
        return "failed", str(e)
    except Exception as e:
        return "crash", f"{type(e).__name__}: {e}"


def fit_mom(rep, approx, rng, thorough, worst):
    E = approx.KLMinimizationFailedError
    nm, ns = (129, 97) if thorough else (33, 25)
    fails = 0
    for lm in np.linspace(-8, 8, nm):
        for ls in np.linspace(-5, 7, ns):
            mean = float(10.0 ** (lm + rng.uniform(-0.1, 0.1)))
            shape = 10.0 ** (ls + rng.uniform(-0.1, 0.1))
            var = float(mean * mean / shape)
            inp = {"fit": "mom", "mean": mean, "variance": var}
            key = ("mom", mean, var)
            st, out = _fit(approx.approximate_gamma_mom, E, mean, var)
            if st == "crash":
                rep.case("fit-failure-is-reported", False, key=key, input=inp, observed=out, expected="value or KLMinimizationFailedError")
                continue
            if st == "failed":
                fails += 1
                rep.case("mom-fit-has-requested-mean-and-variance", True, key=key, input=inp, observed="reported failure: " + out,
                         nontrivial=False)
                continue
            sh, ra = mpf(out[0]) + 1, mpf(out[1])
            ok = sh > 0 and ra > 0
            e1 = _relerr(sh / ra, mpf(mean)) if ok else math.inf
            e2 = _relerr(sh / ra ** 2, mpf(var)) if ok else math.inf
            worst.add("mom mean", e1, (mean, var))
            worst.add("mom variance", e2, (mean, var))
            rep.case("mom-fit-has-requested-mean-and-variance", ok and e1 <= TOL and e2 <= TOL, key=key, input=inp,
                     observed={"alpha": out[0], "beta": out[1], "mean_relerr": e1, "var_relerr": e2},
                     expected={"mean": mean, "variance": var, "rtol": TOL})
    bad = [(0.0, 1.0), (-1.0, 1.0), (1.0, 0.0), (1.0, -2.0), (math.nan, 1.0), (1.0, math.nan), (0.0, 0.0), (-0.0, 3.0),
           (1e-300, -1e-300), (-math.inf, 1.0), (1.0, -math.inf)]
    for mean, var in bad:
        st, out = _fit(approx.approximate_gamma_mom, E, mean, var)
        rep.case("fit-failure-is-reported", st == "failed", key=("mom-bad", repr(mean), repr(var)),
                 input={"fit": "mom", "mean": repr(mean), "variance": repr(var)}, observed=(st, out),
                 expected="KLMinimizationFailedError")
    return fails


def _kl_check(rep, approx, worst, x, logx, tag, counters):
    E = approx.KLMinimizationFailedError
    inp = {"fit": "kl", "mean": x, "mean_log": logx, "src": tag}
    key = ("kl", x, logx)
    st, out = _fit(approx.approximate_gamma_kl, E, x, logx)
    if st == "crash":
        rep.case("fit-failure-is-reported", False, key=key, input=inp, observed=out, expected="value or KLMinimizationFailedError")
        return
    if st == "failed":
        counters["failed"] += 1
        rep.case("kl-fit-has-requested-mean-and-mean-log", True, key=key, input=inp, observed="reported failure: " + out,
                 nontrivial=False)
        return
    sh, ra = mpf(out[0]) + 1, mpf(out[1])
    ok = sh > 0 and ra > 0
    e1 = _relerr(sh / ra, mpf(x)) if ok else math.inf
    e2 = float(abs(mpmath.psi(0, sh) - mp.log(ra) - mpf(logx)) / max(mpf(1), abs(mpf(logx)))) if ok else math.inf
    worst.add("kl mean", e1, (x, logx))
    worst.add("kl mean-log", e2, (x, logx))
    rep.case("kl-fit-has-requested-mean-and-mean-log", ok and e1 <= TOL and e2 <= TOL, key=key, input=inp,
             observed={"alpha": out[0], "beta": out[1], "mean_relerr": e1, "meanlog_err": e2},
             expected={"mean": x, "mean_log": logx, "tol": TOL})


def fit_kl(rep, approx, rng, thorough, worst):
    E = approx.KLMinimizationFailedError
    counters = {"failed": 0}
    na, nb = (225, 13) if thorough else (43, 7)
    shapes = list(10.0 ** np.linspace(-6, 8, na) * np.exp(rng.uniform(-0.2, 0.2, na)))
    shapes += [9.9e3, 9.99e3, 1e4, 1.0001e4, 1.001e4, 1.1e4, 1.0, 1e-5, 8.5, 5.0]  # short-cut threshold, series cut-offs
    for al in shapes:
        for lb in np.linspace(-6, 6, nb):
            al = float(al)
            be = float(10.0 ** (lb + rng.uniform(-0.3, 0.3)))
            x = float(mpf(al) / mpf(be))
            logx = float(mpmath.psi(0, mpf(al)) - mp.log(mpf(be)))
            if not math.log(x) > logx:  # the Jensen gap is below double resolution: not a valid pair any more
                continue
            _kl_check(rep, approx, worst, x, logx, "gamma(%.6g,%.6g)" % (al, be), counters)
    ng = 121 if thorough else 31
    for lg in np.linspace(-9, 6, ng):
        for lx in (-5.0, 0.0, 4.0):
            x = float(10.0 ** (lx + rng.uniform(-0.5, 0.5)))
            gap = 10.0 ** (lg + rng.uniform(-0.2, 0.2))
            logx = math.log(x) - gap
            if not math.log(x) > logx:
                continue
            _kl_check(rep, approx, worst, x, float(logx), "free", counters)
    bad = [(0.0, -1.0), (-1.0, -3.0), (1.0, 0.0), (1.0, 1e-12), (2.0, 5.0), (1.0, -math.inf), (1.0, math.inf),
           (math.nan, 0.0), (1.0, math.nan), (math.e, 1.0)]
    for x, logx in bad:
        st, out = _fit(approx.approximate_gamma_kl, E, x, logx)
        rep.case("fit-failure-is-reported", st == "failed", key=("kl-bad", repr(x), repr(logx)),
                 input={"fit": "kl", "mean": repr(x), "mean_log": repr(logx)}, observed=(st, out),
                 expected="KLMinimizationFailedError")
    return counters["failed"]


def _iqr_check(rep, approx, worst, q1, q2, x1, x2, cap, tag, qcache, deferred, y1_exact=None):
    """Classify by the exact ratio function R(a) = Q(a,q2)/Q(a,q1) (decreasing in a): the matching shape exceeds
    the cap iff x2/x1 < R(cap)."""
    E = approx.KLMinimizationFailedError
    inp = {"fit": "iqr", "q1": q1, "q2": q2, "x1": x1, "x2": x2, "max_shape": cap, "src": tag}
    key = ("iqr", q1, q2, x1, x2, cap)
    st, out = _fit(approx.approximate_gamma_iqr, E, q1, q2, x1, x2, cap)
    if st == "crash":
        rep.case("fit-failure-is-reported", False, key=key, input=inp, observed=out, expected="value or KLMinimizationFailedError")
        return
    ck = (cap, q1, q2)
    if ck not in qcache:
        qcache[ck] = (gamma_quantile(cap, q1), gamma_quantile(cap, q2))
    c1, c2 = qcache[ck]
    rho = mpf(x2) / mpf(x1)
    rcap = c2 / c1
    must_cap = rho < rcap * (1 - mpf(10) ** -9)
    must_fit = rho > rcap * (1 + mpf(10) ** -9)
    if st == "failed":
        # the statement has no failure outcome for valid quantile pairs
        rep.case("iqr-fit-capped-matches-lower-quantile" if must_cap else "iqr-fit-matches-quantile-ratio", False, key=key,
                 input=inp, observed="raised KLMinimizationFailedError: " + out, expected="a fitted gamma")
        return
    sh, ra = mpf(out[0]) + 1, mpf(out[1])
    capped = out[0] == cap - 1
    if not (sh > 0 and ra > 0 and math.isfinite(out[0]) and math.isfinite(out[1])):
        rep.case("iqr-fit-capped-matches-lower-quantile" if must_cap else "iqr-fit-matches-quantile-ratio", False, key=key,
                 input=inp, observed={"alpha": out[0], "beta": out[1]}, expected="finite positive shape and rate")
        return
    if must_cap or (capped and not must_fit):
        e = _relerr(c1 / ra, mpf(x1))
        worst.add("iqr capped lower quantile", e, (q1, q2, x1, x2, cap))
        rep.case("iqr-fit-capped-matches-lower-quantile", capped and e <= TOL, key=key, input=inp,
                 observed={"alpha": out[0], "beta": out[1], "lower_quantile_relerr": e},
                 expected={"shape": cap, "q1_quantile": x1, "rtol": TOL})
        return
    z1, z2 = gamma_quantile(sh, q1), gamma_quantile(sh, q2)
    e_ratio = _relerr(z2 / z1, rho)
    e_low = _relerr(z1 / ra, mpf(x1))
    # isolated condition (on the input): the exact standardised lower quantile is so small that its square
    # underflows double precision (< sqrt(4.9e-324) = 2.2e-162)
    tiny = y1_exact is not None and y1_exact < mpf("2.3e-162")
    worst.add("iqr quantile ratio" + (" (lower quantile^2 underflows)" if tiny else ""), e_ratio, (q1, q2, x1, x2, cap))
    worst.add("iqr lower quantile", e_low, (q1, q2, x1, x2, cap))
    ok = (not capped or not must_fit) and sh <= cap and e_ratio <= TOL and e_low <= TOL
    kw = dict(key=key, input=inp,
              observed={"alpha": out[0], "beta": out[1], "ratio_relerr": e_ratio, "lower_quantile_relerr": e_low},
              expected={"ratio": float(rho), "q1_quantile": x1, "shape_at_most": cap, "rtol": TOL})
    if tiny:
        deferred.append(("known-iqr-newton-skipped-when-squared-lower-quantile-underflows", ok, kw))
    else:
        rep.case("iqr-fit-matches-quantile-ratio", ok, **kw)


def fit_iqr(rep, approx, rng, thorough, worst, deferred):
    E = approx.KLMinimizationFailedError
    qpairs = [(0.25, 0.75), (0.05, 0.95), (0.025, 0.975), (0.4, 0.6), (0.1, 0.5), (0.3, 0.9)]
    caps = [1000.0, 100.0, 10.0, 2.0]
    nsh = 105 if thorough else 20
    qcache = {}
    if not thorough:
        qpairs = qpairs[:4]
    for qi, (q1, q2) in enumerate(qpairs):
        for k, ls in enumerate(np.linspace(-2.3, 4.2 if thorough else 3.7, nsh)):
            al = float(10.0 ** (ls + rng.uniform(-0.05, 0.05)))
            y1, y2 = gamma_quantile(al, q1), gamma_quantile(al, q2)
            scale = [1e-6, 1.0, 1e6][(k + qi) % 3]
            x1, x2 = float(y1 / scale), float(y2 / scale)
            if not (x1 > 0 and x2 > x1):
                continue
            for cap in (caps if thorough else [caps[(k + qi) % 4], 1000.0]):
                _iqr_check(rep, approx, worst, q1, q2, x1, x2, cap, "quantiles of gamma(%.6g, %g)" % (al, scale), qcache,
                           deferred, y1_exact=y1)
        # free ratios
        for lr in np.linspace(-6, 6, 61 if thorough else 7):
            x1 = float(10.0 ** rng.uniform(-6, 6))
            x2 = float(x1 * (1 + 10.0 ** (lr + rng.uniform(-0.3, 0.3))))
            if x2 > x1:
                _iqr_check(rep, approx, worst, q1, q2, x1, x2, caps[int(rng.integers(4))], "free ratio", qcache, deferred)
        # degenerate interval: x2 == x1 -> capped
        x1 = float(10.0 ** rng.uniform(-6, 6))
        _iqr_check(rep, approx, worst, q1, q2, x1, x1, 1000.0, "x2 == x1", qcache, deferred)
    bad = [(0.75, 0.25, 1.0, 2.0, 1000.0), (0.25, 0.75, 2.0, 1.0, 1000.0), (0.5, 0.5, 1.0, 2.0, 1000.0)]
    for args in bad:
        st, out = _fit(approx.approximate_gamma_iqr, E, *args)
        rep.case("fit-failure-is-reported", st == "failed", key=("iqr-bad",) + args,
                 input={"fit": "iqr", "args": list(args)}, observed=(st, out), expected="KLMinimizationFailedError")


# =========================================================================================== run
def run(req, rep):
    tier, seed = req["tier"], int(req["seed"])
    thorough = tier == "thorough"
    rng = np.random.default_rng(seed)
    from tsdate import approx, hypergeo
    rep.space = ("_digamma/_trigamma on a jittered log lattice over [1e-8,1e8] incl. both neighbours of every series cut-off; "
                 "_betaln on a log grid over [1e-8,1e8]^2; approximate_gamma_mom on mean 10^[-8,8] x shape 10^[-5,7]; "
                 "approximate_gamma_kl on exact (mean, mean log) of gamma(shape 10^[-6,8], rate 10^[-6,6]) and free Jensen gaps "
                 "10^[-9,6]; approximate_gamma_iqr on exact quantiles of gamma(shape 10^[-2.3,4.2]) x 6 quantile pairs x 4 caps x 3 "
                 "scales, free ratios and x2 == x1; invalid inputs; oracle mpmath at 40 digits")
    rep.bound = ("thorough: 16001 + 61 points (psi), 193x193 (betaln), 129x97 (mom), 235x13 + 363 (kl), 6x(105x4+62) (iqr)" if thorough
                 else "quick: 769 + 61 points (psi), 49x49 (betaln), 33x25 (mom), 53x7 + 93 (kl), 4x(20x2+8) (iqr)")
    rep.exhaustive = False
    worst = Worst()
    warnings.simplefilter("ignore", RuntimeWarning)  # numpy warnings of the plain-Python kernels on the invalid inputs
    parts = (req.get("params") or {}).get("parts") or ["special", "mom", "kl", "iqr"]
    deferred = []  # known-* cases are reported last so that their failures never crowd a new failure out of the list
    f1 = f2 = 0
    if "special" in parts:
        special_functions(rep, hypergeo, rng, thorough, worst, deferred)
    if "mom" in parts:
        f1 = fit_mom(rep, approx, rng, thorough, worst)
    if "kl" in parts:
        f2 = fit_kl(rep, approx, rng, thorough, worst)
    if "iqr" in parts:
        fit_iqr(rep, approx, rng, thorough, worst, deferred)
    # a few failing examples of every known-* clause first (the failure list of the report is capped), then the rest
    lead, seen = [], {}
    for item in deferred:
        if not item[1] and seen.get(item[0], 0) < 5:
            seen[item[0]] = seen.get(item[0], 0) + 1
            lead.append(item)
    lead_ids = {id(item) for item in lead}
    for clause, ok, kw in lead + [item for item in deferred if id(item) not in lead_ids]:
        rep.case(clause, ok, **kw)
    rep.notes.append(f"valid inputs on which a fit reported failure (allowed by the statement): mom={f1}, kl={f2}")
    rep.notes.append(worst.notes())
    # observed behaviour outside the quantifier (not a clause): non-finite moments
    obs = []
    for f, args in ((approx.approximate_gamma_mom, (math.inf, 1.0)), (approx.approximate_gamma_mom, (1.0, math.inf)),
                    (approx.approximate_gamma_kl, (math.inf, 0.0))):
        obs.append(f"{f.__name__}{args} -> {_fit(f, approx.KLMinimizationFailedError, *args)}")
    rep.notes.append("non-finite inputs (outside the quantifier, informational): " + "; ".join(obs))


if __name__ == "__main__":
    bounded_api.main(run)
