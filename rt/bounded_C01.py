"""
Bounded stand-in for C01 -- "Dated output is always a valid tree sequence with enforced branch lengths".

Contract clauses evaluated on the tree sequence RETURNED by the real tsdate.date (one obligation each):
  valid-tree-sequence                      the result is a tskit.TreeSequence with the same numbers of nodes, edges,
                                           sites and mutations, all node times finite, all mutation times finite;
                                           its dumped tables load again (tskit's own integrity checks incl. trees),
                                           every local tree can be built, and a from-scratch recomputation of the
                                           mutation parents equals the stored ones.
  parent-strictly-older-than-child         for every edge  time[parent] >  time[child]
  parent-at-least-child-plus-min-branch-length
                                           for every edge  time[parent] >= fl(time[child] + min_branch_length)
                                           (fl = IEEE double addition, the "floating-point sum" of the statement;
                                           min_branch_length None means the documented default 1e-8)
  mutation-time-between-node-and-node-above
                                           for every mutation  time[node] <= mutation time <= time[node above it in
                                           the local tree at the site]; a mutation above a root has no node above it
                                           and must only be finite and >= time[node].
  dated-tables-form-a-tree-sequence        the call does not fail while ASSEMBLING its output: an exception raised
                                           under get_modified_ts (typically tskit.LibraryError from
                                           tables.tree_sequence()) means the inference finished but the dated tables
                                           were not a valid tree sequence.  This is how the strictness defect F1
                                           showed itself end to end, so it is a failure, not a "did not return".
  known-mutation-on-one-ulp-branch-gets-parent-time
                                           KNOWN defect of the unchanged code, kept apart from the clause above: when
                                           min_branch_length is below the spacing of doubles at the node times
                                           (default 1e-8 at times >= ~1e8) the forced pass makes a parent the next
                                           double above its child; tskit's compute_mutation_times then places a
                                           mutation on that branch at the midpoint, which rounds (half-to-even) to
                                           the PARENT's time, and tables.tree_sequence() raises
                                           TSK_ERR_MUTATION_TIME_OLDER_THAN_PARENT_NODE.  See output_failure_clause
                                           for the exact recognition rule; every failure of this clause is that defect.
  constrain_ages:parent-strictly-older-than-child / constrain_ages:parent-at-least-child-plus-epsilon
                                           the two branch-length clauses evaluated directly on the real
                                           util.constrain_ages with adversarial unconstrained ages (random order
                                           violations, exact ties, reversed, already valid) at every time scale.
All comparisons are exact double comparisons: the statement is an order statement, there is no tolerance.
"Whenever date() returns": a call that raises BEFORE output assembly (input rejection, the known "Use fewer rescaling
intervals" assertion, multiple-root rejection by the discrete priors) is not a case of this property (C35); the
number of such calls is reported in rep.notes and kept small by construction.

Input space (explicit bound; deterministic given the seed):
  * exhaustive: every rooted leaf-labelled tree shape (polytomies included) with 3 and 4 leaves (4 + 26 shapes;
    thorough adds the 236 shapes with 5 leaves), random 0..2 mutations on every non-root node;
  * generated: msprime simulations (3..8 haploid samples, 1..~25 trees, discrete genome with multiple hits per site),
    diploid individuals (for singletons_phased=False), ancient leaf samples, internal (ancestral) and root sample nodes,
    a collapsed-edge polytomy, several roots (decapitated + simplified), unary nodes with allow_unary=True,
    one (quick) / four (thorough) tsinfer-inferred tree sequences run through tsdate.preprocess_ts;
  * time scales c in {1e-6, 1e-3, 1, 1e3, 1e6, 1e9, 1e12} obtained by dating with mutation_rate/c (and
    population_size*c, input node times * c), so output node times run from ~1e-6 to ~1e15;
  * configurations: the three methods x min_branch_length in {None, 1e-8, 1e-3*c, 50*c (larger than most branches,
    so nearly every edge is forced)} x constr_iterations in {None, 0, 3, 100} x method options
    (variational_gamma: rescaling_intervals {None, 0, 3}, rescaling_iterations {None, 0, 2}, match_segregating_sites,
    singletons_phased, max_iterations {1, 5, None}, regularise_roots; inside_outside: probability_space,
    outside_standardize, ignore_oldest_root; maximization: probability_space).
  quick  : every input x every accepting method x 2 of the 7 time scales (rotating over inputs) x 2 option draws
           (1 for the tree shapes; ~460 date() calls), plus ~450 direct constrain_ages calls; ~30 s CPU.
  thorough: 5-leaf shapes and 4x the simulations; every input x method x all 7 scales (2 for 5-leaf shapes) x 4
           option draws (~14 000 date() calls) plus ~13 000 direct constrain_ages calls; ~6-10 min.
  Inputs with ancestral/root samples are additionally dated with the mutation rate understated 10x and 50x at scales
  1e6, 1e9, 1e12 (descendants dated older than the fixed sample, parents stacked one double apart).
Not exhaustive beyond the tree shapes; option combinations are sampled (seeded), not crossed.

NOT covered: tskit's C validation is trusted as the meaning of "valid"; inputs above a few tens of nodes; calls that
raise; num_threads > 1; user-supplied prior grids; the CLI.

This module also hosts the small input/config helpers shared by bounded_C02/C03/C04/C32 (suite, method_configs,
call_date): they only BUILD inputs and call the public tsdate API, they contain no oracle code.
"""
import logging
import warnings

import msprime
import numpy as np
import tskit

from rt import bounded_api, inputs

DEFAULT_MBL = 1e-8  # documented default of min_branch_length
METHODS = ("variational_gamma", "inside_outside", "maximization")
SCALES = (1e-6, 1e-3, 1.0, 1e3, 1e6, 1e9, 1e12)


# ------------------------------------------------------------------------------------------- shared input helpers
class Case:
    """One dating input: a tree sequence plus rates that are sensible for it and a few descriptive tags."""

    def __init__(self, name, ts, mu, ne, **tags):
        self.name, self.ts, self.mu, self.ne = name, ts, mu, ne
        t = ts.nodes_time[ts.samples()]
        self.contemporary = bool(np.all(t == 0))
        per_ind = np.bincount(ts.nodes_individual[ts.nodes_individual >= 0], minlength=ts.num_individuals)
        self.diploid = bool(ts.num_individuals > 0 and np.all(per_ind == 2))
        self.unary = tags.get("unary", False)
        self.migrations = ts.num_migrations > 0
        self.tags = tags

    def methods(self):
        """Methods that accept this input (discrete methods need contemporaneous, simplified inputs)."""
        if self.contemporary and not self.unary and not self.migrations and not self.tags.get("vg_only"):
            return METHODS
        return ("variational_gamma",)


def _sim(seed, n, L, rec, mu, ne=100, ploidy=1):
    return inputs.sim(seed, n=n, L=L, rec=rec, mu=mu, ne=ne, ploidy=ploidy)


def _ancient_sim(seed, n0=3, n1=2, t1=20.0, L=200, rec=2e-4, mu=5e-4, ne=100):
    samples = [msprime.SampleSet(n0, time=0, ploidy=1), msprime.SampleSet(n1, time=t1, ploidy=1)]
    ts = msprime.sim_ancestry(samples, sequence_length=L, recombination_rate=rec, population_size=ne,
                              random_seed=seed + 3)
    return msprime.sim_mutations(ts, rate=mu, random_seed=seed + 11)


def _mark_internal_samples(ts, rng, k=1):
    """Flag k non-root internal nodes as samples (ancestral samples with descendants, at their simulated time)."""
    has_parent = np.zeros(ts.num_nodes, bool)
    has_parent[ts.edges_child] = True
    has_child = np.zeros(ts.num_nodes, bool)
    has_child[ts.edges_parent] = True
    cand = np.flatnonzero(has_child & has_parent & (ts.nodes_flags & tskit.NODE_IS_SAMPLE == 0))
    if cand.size == 0:
        cand = np.flatnonzero(has_child & (ts.nodes_flags & tskit.NODE_IS_SAMPLE == 0))
    pick = rng.choice(cand, size=min(k, cand.size), replace=False)
    tables = ts.dump_tables()
    flags = tables.nodes.flags
    flags[pick] |= tskit.NODE_IS_SAMPLE
    tables.nodes.flags = flags
    return tables.tree_sequence()


def _collapse_edge(ts):
    """Remove the youngest internal non-root node of the first tree everywhere (creates a polytomy)."""
    t = ts.first()
    cand = [u for u in t.nodes(order="timeasc") if not t.is_sample(u) and t.parent(u) != tskit.NULL]
    if not cand or ts.num_trees != 1:
        return ts
    u = cand[0]
    p = t.parent(u)
    tables = ts.dump_tables()
    edges = tables.edges.copy()
    tables.edges.clear()
    for e in edges:
        if e.child == u:
            continue
        tables.edges.add_row(e.left, e.right, p if e.parent == u else e.parent, e.child)
    muts = tables.mutations.copy()
    tables.mutations.clear()
    for m in muts:
        if m.node != u:
            tables.mutations.append(m.replace(parent=tskit.NULL))
    tables.sort()
    tables.build_index()
    tables.compute_mutation_parents()
    return tables.tree_sequence().simplify()


def _multiroot(ts):
    return ts.decapitate(float(np.quantile(ts.nodes_time[ts.nodes_time > 0], 0.75))).simplify()


def _inferred(seed):
    import tsinfer
    import tsdate
    src = _sim(seed, n=6, L=400, rec=2e-4, mu=5e-4)
    its = tsinfer.infer(tsinfer.SampleData.from_tree_sequence(src))
    return tsdate.preprocess_ts(its, record_provenance=False)


def shape_cases(n_leaves, rng):
    out = []
    for k, shape in enumerate(inputs.all_tree_shapes(n_leaves)):
        ts0 = inputs.tree_to_ts(shape)
        root = ts0.first().root
        muts = {u: int(rng.integers(0, 3)) for u in range(ts0.num_nodes) if u != root}
        if sum(muts.values()) == 0:
            muts[0] = 1
        out.append(Case(f"shape{n_leaves}.{k}", inputs.tree_to_ts(shape, mutations=muts), mu=0.1, ne=1.0,
                        shape=repr(shape), mutations=muts))
    return out


def suite(seed, tier, want_inferred=True):
    """The shared bounded input space: list of Case."""
    rng = np.random.default_rng([seed, 101])
    cases = []
    for n in ((3, 4, 5) if tier == "thorough" else (3, 4)):
        cases += shape_cases(n, rng)
    reps = 4 if tier == "thorough" else 1
    for r in range(reps):
        s = seed * 1000 + 17 * r
        for i in range(6):  # plain simulations, single and several trees, multiple hits (L small, discrete genome)
            cases.append(Case(f"sim{r}.{i}", _sim(s + i, n=3 + i % 6, L=(60 if i % 2 else 200),
                                                  rec=(0 if i % 3 == 0 else 3e-4), mu=(2e-3 if i % 2 else 5e-4)),
                              mu=(2e-3 if i % 2 else 5e-4), ne=100.0))
        for i in range(3):
            cases.append(Case(f"diploid{r}.{i}", _sim(s + 40 + i, n=2 + i, L=150, rec=(0 if i == 0 else 2e-4),
                                                      mu=8e-4, ploidy=2), mu=8e-4, ne=100.0))
        for i in range(3):
            cases.append(Case(f"ancient{r}.{i}", _ancient_sim(s + 50 + i, n0=3, n1=1 + i, t1=10.0 * (i + 1),
                                                              rec=(0 if i == 0 else 2e-4)), mu=5e-4, ne=100.0))
        for i in range(4):
            base = _sim(s + 60 + i, n=4 + i, L=150, rec=(0 if i % 2 == 0 else 2e-4), mu=6e-4)
            cases.append(Case(f"internal-sample{r}.{i}", _mark_internal_samples(base, rng, k=1 + i % 2),
                              mu=6e-4, ne=100.0))
        for i in range(2):  # the root itself is a (non-contemporary) sample
            base = _sim(s + 30 + i, n=4 + i, L=150, rec=0, mu=8e-4)
            tables = base.dump_tables()
            flags = tables.nodes.flags
            flags[base.first().root] |= tskit.NODE_IS_SAMPLE
            tables.nodes.flags = flags
            cases.append(Case(f"root-sample{r}.{i}", tables.tree_sequence(), mu=8e-4, ne=100.0))
        for i in range(2):
            cases.append(Case(f"polytomy{r}.{i}", _collapse_edge(_sim(s + 70 + i, n=5 + i, L=200, rec=0, mu=5e-4)),
                              mu=5e-4, ne=100.0))
        for i in range(2):
            cases.append(Case(f"multiroot{r}.{i}", _multiroot(_sim(s + 80 + i, n=5, L=200, rec=3e-4, mu=6e-4)),
                              mu=6e-4, ne=100.0))
        dec = _sim(s + 90, n=5, L=200, rec=0, mu=6e-4)
        dec = dec.decapitate(float(np.quantile(dec.nodes_time[dec.nodes_time > 0], 0.6))).simplify(keep_unary=True)
        cases.append(Case(f"unary{r}", dec, mu=6e-4, ne=100.0, unary=True))
    if want_inferred:
        for r in range(4 if tier == "thorough" else 1):
            cases.append(Case(f"inferred{r}", _inferred(seed * 1000 + 7 * r + 3), mu=5e-4, ne=100.0))
    cases = [c for c in cases if c.ts.num_mutations > 0 and c.ts.num_edges > 0]
    return cases


def method_configs(case, method, rng, k):
    """k seeded option draws for `method` (dicts of keyword arguments, without rates)."""
    out = []
    for j in range(k):
        kw = {}
        if method == "variational_gamma":
            kw["rescaling_intervals"] = [None, 0, 3][int(rng.integers(3))]
            kw["rescaling_iterations"] = [None, 0, 2][int(rng.integers(3))]
            kw["match_segregating_sites"] = [None, True][int(rng.integers(2))]
            kw["max_iterations"] = [None, 1, 5][int(rng.integers(3))]
            kw["regularise_roots"] = [None, False][int(rng.integers(2))]
            if case.diploid:
                kw["singletons_phased"] = bool(j % 2)  # alternate so both settings are always exercised
            if case.unary:
                kw["allow_unary"] = True
        elif method == "inside_outside":
            kw["probability_space"] = [None, "linear", "logarithmic"][int(rng.integers(3))]
            kw["outside_standardize"] = [None, False][int(rng.integers(2))]
            kw["ignore_oldest_root"] = [None, True][int(rng.integers(2))]
        else:
            kw["probability_space"] = [None, "linear", "logarithmic"][int(rng.integers(3))]
        out.append({a: b for a, b in kw.items() if b is not None})
    return out


def call_date(ts, method, mu, ne, **kw):
    """Call the real tsdate.date.  Returns (result, None) or (None, 'ExcType: message')."""
    import tsdate
    if method != "variational_gamma":
        kw = dict(kw, population_size=ne)
    try:
        with warnings.catch_warnings():
            warnings.simplefilter("ignore")
            with np.errstate(all="ignore"):
                return tsdate.date(ts, mutation_rate=mu, method=method, **kw), None
    except Exception as e:  # noqa: BLE001  (a raising call is outside "whenever date() returns")
        import traceback
        frames = [f.name for f in traceback.extract_tb(e.__traceback__)]
        # "OUTPUT:" marks an error raised while the dated tables were being assembled/validated (after inference)
        where = "OUTPUT:" if "get_modified_ts" in frames else ""
        return None, f"{where}{type(e).__name__}: {str(e)[:240]}"


def describe(case, method, mu, ne, kw, scale=1.0):
    return {"case": case.name, "tags": bounded_api.jsonable(case.tags), "method": method, "mutation_rate": mu,
            "population_size": (ne if method != "variational_gamma" else None), "time_scale": scale,
            "kwargs": bounded_api.jsonable(kw), "ts": bounded_api.ts_to_json(case.ts)}


# ------------------------------------------------------------------------------------------- C01 oracle
def node_above(ts):
    """For every mutation: the parent of its node in the local tree covering its site (NULL above a root).
    Direct edge scan written from the definition of a tree sequence (no tskit.Tree, no tsdate)."""
    pos = ts.sites_position[ts.mutations_site]
    above = np.full(ts.num_mutations, tskit.NULL, dtype=np.int64)
    L, R, P, C = ts.edges_left, ts.edges_right, ts.edges_parent, ts.edges_child
    for m in range(ts.num_mutations):
        hit = np.flatnonzero((C == ts.mutations_node[m]) & (L <= pos[m]) & (pos[m] < R))
        assert hit.size <= 1
        if hit.size:
            above[m] = P[hit[0]]
    return above


def check_output(rep, out, ts_in, mbl, key, desc):
    t = out.nodes_time
    # --- valid tree sequence
    problems = []
    if not isinstance(out, tskit.TreeSequence):
        problems.append("not a TreeSequence")
    else:
        if (out.num_nodes, out.num_edges, out.num_sites, out.num_mutations) != \
                (ts_in.num_nodes, ts_in.num_edges, ts_in.num_sites, ts_in.num_mutations):
            problems.append("row counts changed")
        if not np.all(np.isfinite(t)):
            problems.append("non-finite node time")
        if not np.all(np.isfinite(out.mutations_time)):
            problems.append("non-finite/unknown mutation time")
        try:
            tables = out.dump_tables()
            again = tables.tree_sequence()  # full tskit integrity check
            for _ in again.trees():
                pass
            tables.compute_mutation_parents()
            if not np.array_equal(tables.mutations.parent, out.mutations_parent):
                problems.append("stored mutation parents differ from recomputed ones")
        except Exception as e:  # noqa: BLE001
            problems.append(f"reload failed: {type(e).__name__}: {e}")
    rep.case("valid-tree-sequence", not problems, key=key, input=desc, observed=problems, expected=[])
    if problems and not isinstance(out, tskit.TreeSequence):
        return
    # --- branch lengths
    p, c = out.edges_parent, out.edges_child
    strict = t[p] > t[c]
    rep.case("parent-strictly-older-than-child", bool(np.all(strict)), key=key, input=desc,
             observed=[(int(p[e]), int(c[e]), float(t[p[e]]), float(t[c[e]])) for e in np.flatnonzero(~strict)[:5]],
             expected="time[parent] > time[child] on every edge")
    floor = t[c] + np.float64(mbl)  # IEEE double sum
    atleast = t[p] >= floor
    rep.case("parent-at-least-child-plus-min-branch-length", bool(np.all(atleast)), key=key, input=desc,
             observed=[(int(p[e]), int(c[e]), float(t[p[e]]), float(floor[e])) for e in np.flatnonzero(~atleast)[:5]],
             expected=f"time[parent] >= fl(time[child] + {mbl}) on every edge")
    # --- mutation times
    above = node_above(out)
    mt, mn = out.mutations_time, out.mutations_node
    ok = np.isfinite(mt) & (mt >= t[mn])
    has = above != tskit.NULL
    ok[has] &= mt[has] <= t[above[has]]
    rep.case("mutation-time-between-node-and-node-above", bool(np.all(ok)), key=key, input=desc,
             observed=[(int(m), float(mt[m]), float(t[mn[m]]), (float(t[above[m]]) if has[m] else None))
                       for m in np.flatnonzero(~ok)[:5]],
             expected="time[node] <= mutation time <= time[node above] (only the lower bound above a root)")


KNOWN_ONE_ULP = "known-mutation-on-one-ulp-branch-gets-parent-time"


def output_failure_clause(err, ts, mbl):
    """Clause under which a failure to assemble the output is filed.  One specific condition is a recorded defect of
    the unchanged code and is kept apart so that the generic clause stays strict on everything else:
    min_branch_length is below the spacing of doubles at the times involved, the forced constraint therefore makes a
    parent the very next double above its child, and tskit's compute_mutation_times puts a mutation on that branch
    at the midpoint, which rounds to the parent's time; tskit then rejects the tables
    (TSK_ERR_MUTATION_TIME_OLDER_THAN_PARENT_NODE).  Recognised by that error code together with
    min_branch_length < 1.5 * spacing(100 * largest input node time): the output times are not available when
    date() raises, so the input times (x100: the rate mis-specification used here inflates ages up to 50x) stand
    in for them; fl(c + mbl) is the next double above c exactly when mbl < 1.5 spacing(c).  At time scales <= 1
    (mbl >> spacing) the same error is NOT excused and fails the generic clause."""
    if "TSK_ERR_MUTATION_TIME_OLDER_THAN_PARENT_NODE" in err or "A mutation's time must be < the parent node" in err:
        if mbl < 1.5 * np.spacing(100.0 * float(ts.nodes_time.max())):
            return KNOWN_ONE_ULP
    return "dated-tables-form-a-tree-sequence"


def constraint_active(out, mbl):
    """True if some edge's unconstrained posterior means (node metadata 'mn') violate the branch-length rule,
    i.e. the forced constraint had work to do.  Used only for the 'how non-trivial' note."""
    try:
        mn = np.array([nd.metadata["mn"] for nd in out.nodes()], dtype=float)
    except Exception:  # noqa: BLE001
        return None
    return bool(np.any(mn[out.edges_parent] < mn[out.edges_child] + mbl))


def direct_constrain_ages(rep, cases, rng, thorough):
    """The same two branch-length clauses evaluated directly on the real util.constrain_ages (the function that
    enforces them inside date()), fed with adversarial unconstrained ages the pipeline rarely produces: random
    order violations, exact parent==child ties and already-valid ages, at every time scale.  Sample nodes keep
    their tree-sequence times (the calling convention of get_modified_ts)."""
    import tsdate.util
    for ci, case in enumerate(cases):
        if ci % (2 if thorough and not case.name.startswith("shape5") else 4):
            continue
        ts0 = case.ts
        is_sample = (ts0.nodes_flags & tskit.NODE_IS_SAMPLE) != 0
        for scale in (SCALES if thorough else (1e-6, 1.0, 1e9, 1e12)):
            ts = ts0 if scale == 1.0 else inputs.scale_times(ts0, scale)
            base = ts.nodes_time
            top = max(float(base.max()), scale)
            variants = {
                "random": np.where(is_sample, base, rng.uniform(0, top, size=base.size)),
                "ties": np.where(is_sample, base, top),
                "valid": base.copy(),
                "reversed": np.where(is_sample, base, top - base),
            }
            for vname, times in variants.items():
                for eps in (1e-8, 1e-3 * scale):
                    for iters in ((0, 3) if thorough else (0,)):
                        key = f"direct|{case.name}|x{scale:g}|{vname}|eps={eps:g}|it={iters}"
                        desc = {"function": "tsdate.util.constrain_ages", "case": case.name, "time_scale": scale,
                                "nodes_time": times.tolist(), "epsilon": eps, "max_iterations": iters,
                                "ts": bounded_api.ts_to_json(ts)}
                        out = tsdate.util.constrain_ages(ts, times.astype(np.float64), eps, iters)
                        p, c = ts.edges_parent, ts.edges_child
                        strict = out[p] > out[c]
                        atleast = out[p] >= out[c] + np.float64(eps)
                        rep.case("constrain_ages:parent-strictly-older-than-child", bool(np.all(strict)), key=key,
                                 input=desc, observed=[(int(p[e]), int(c[e]), float(out[p[e]]), float(out[c[e]]))
                                                       for e in np.flatnonzero(~strict)[:5]],
                                 expected="out[parent] > out[child] on every edge")
                        rep.case("constrain_ages:parent-at-least-child-plus-epsilon", bool(np.all(atleast)), key=key,
                                 input=desc, observed=[(int(p[e]), int(c[e]), float(out[p[e]]), float(out[c[e]]))
                                                       for e in np.flatnonzero(~atleast)[:5]],
                                 expected="out[parent] >= fl(out[child] + epsilon) on every edge")


def run(req, rep):
    tier, seed = req["tier"], int(req["seed"])
    thorough = tier == "thorough"
    rng = np.random.default_rng([seed, 1])
    logging.getLogger("tsdate").setLevel(logging.ERROR)
    cases = suite(seed, tier)
    ndraw = 4 if thorough else 2
    rep.space = ("real tsdate.date() on: all rooted leaf-labelled tree shapes (polytomies incl.) with random mutations; "
                 "seeded msprime sims (haploid, diploid, ancient and internal samples, polytomy, multiroot, unary, "
                 "tsinfer-inferred) x 3 methods x time scales 1e-6..1e12 x sampled min_branch_length/"
                 "constr_iterations/rescaling/phasing/probability-space options")
    rep.exhaustive = False
    raised, active, calls = {}, 0, 0

    def evaluate(case, method, scale, mu, ne, kw, ts):
        nonlocal active, calls
        calls += 1
        mbl = kw.get("min_branch_length", DEFAULT_MBL)
        out, err = call_date(ts, method, mu, ne, **kw)
        key = f"{case.name}|{method}|x{scale:g}|mu={mu:g}|{sorted(kw.items())}"
        desc = describe(case, method, mu, ne, kw, scale)
        if err is not None:
            raised[err[:70]] = raised.get(err[:70], 0) + 1
            if err.startswith("OUTPUT:"):
                # inference finished, but the dated tables were rejected by tskit (or assembling them crashed):
                # the computed output was not a valid tree sequence
                rep.case(output_failure_clause(err, ts, mbl), False, key=key, input=desc, observed=err,
                         expected="tables.tree_sequence() accepts the dated tables and date() returns")
            return
        rep.case("dated-tables-form-a-tree-sequence", True, key=key, input=desc)
        check_output(rep, out, ts, mbl, key, desc)
        if constraint_active(out, mbl):
            active += 1

    for ci, case in enumerate(cases):
        if thorough and not case.name.startswith("shape5"):
            scales = SCALES
        else:  # two scales per input, rotating so that every scale is used by many inputs
            scales = (SCALES[ci % len(SCALES)], SCALES[(ci + 4) % len(SCALES)])
        for method in case.methods():
            for si, scale in enumerate(scales):
                ts = case.ts if scale == 1.0 else inputs.scale_times(case.ts, scale)
                k = 1 if (not thorough and case.name.startswith("shape")) else ndraw
                for j, kw in enumerate(method_configs(case, method, rng, k)):
                    mbl = [None, 1e-8, 1e-3 * scale, 50.0 * scale][(j + si + ci) % 4]
                    ci_opt = [None, 0, 3, 100][int(rng.integers(4))]
                    if mbl is not None:
                        kw["min_branch_length"] = mbl
                    if ci_opt is not None:
                        kw["constr_iterations"] = ci_opt
                    evaluate(case, method, scale, case.mu / scale, case.ne * scale, kw, ts)
    # Ancestral samples whose descendants are dated OLDER than the fixed sample time (mutation rate understated
    # 10x..50x): the forced pass then stacks parents directly above the sample, at large time scales one double apart.
    for case in cases:
        if not case.name.startswith(("internal-sample", "root-sample")):
            continue
        for scale in (1e6, 1e9, 1e12):
            ts = inputs.scale_times(case.ts, scale)
            for factor in (0.1, 0.02):
                for it in (0, None):
                    kw = {} if it is None else {"constr_iterations": it}
                    evaluate(case, "variational_gamma", scale, case.mu * factor / scale, case.ne * scale, kw, ts)
    direct_constrain_ages(rep, cases, np.random.default_rng([seed, 2]), thorough)
    rep.bound = (f"{len(cases)} inputs (<= {max(c.ts.num_nodes for c in cases)} nodes, <= "
                 f"{max(c.ts.num_mutations for c in cases)} mutations), {calls} date() calls: "
                 f"{'7 time scales (2 for 5-leaf shapes)' if thorough else '2 of 7 time scales (rotating)'} per input, "
                 f"{ndraw} option draws per (input, method, scale){'' if thorough else ' (1 for tree shapes)'}; plus direct constrain_ages calls on every "
                 f"{'2nd (4th for 5-leaf shapes)' if thorough else '4th'} input x {'7' if thorough else '4'} scales x "
                 f"4 adversarial age vectors x 2 epsilons x {'2' if thorough else '1'} iteration settings")
    rep.notes.append(f"date() calls that raised (not cases of this property): {raised}")
    rep.notes.append(f"returned calls whose unconstrained posterior means violated the branch-length rule on some edge "
                     f"(constraint had to act): {active}")


if __name__ == "__main__":
    bounded_api.main(run)
