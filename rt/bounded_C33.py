"""
Bounded stand-in for C33 -- provenance records each call exactly once.

Statement: "Each call of date(), a named method or preprocess_ts() with provenance recording on appends exactly one
valid provenance record.  The record names the method or preprocess_ts and the parameters used, and all earlier
records are kept.  With recording off, the provenance table is unchanged."

Contract clauses evaluated (REAL tsdate.date / variational_gamma / inside_outside / maximization / preprocess_ts;
the observation point is the provenance table of the returned tree sequence):
  exactly-one-record-appended        recording on (record_provenance True / None / omitted):
                                     out.num_provenances == in.num_provenances + 1  (nested helpers such as
                                     split_disjoint_nodes inside preprocess_ts must not add their own row)
  earlier-records-kept               recording on: rows 0..k-1 of the output (record text AND timestamp) are the
                                     input's rows, in order (inputs with 0, 2, 3 earlier rows incl. a row whose
                                     record is not JSON, and rows produced by earlier tsdate calls in a chain)
  new-record-valid                   recording on: the new row's record is JSON, passes tskit.validate_provenance
                                     (the tskit provenance schema), software.name == "tsdate", and the row has a
                                     parseable ISO-8601 timestamp
  record-names-command               parameters.command is the method actually run ("variational_gamma" for
                                     date(method=None)) or "preprocess_ts"
  record-has-parameters-used         every option VALUE that the call was given (and that the record format
                                     carries) is in parameters under the API keyword with the value given:
                                     mutation_rate, time_units, progress, population_size (float or the
                                     PopulationSizeHistory dict), eps, probability_space, num_threads,
                                     outside_standardize, ignore_oldest_root, max_iterations, max_shape,
                                     rescaling_intervals, rescaling_iterations, match_segregating_sites,
                                     regularise_roots, singletons_phased; minimum_gap, erase_flanks (also when given
                                     through the deprecated alias remove_telomeres), split_disjoint,
                                     delete_intervals, filter_*.  Values given as numpy scalars / arrays
                                     (np.int32, np.float32, np.array) must appear as the equal JSON number / list.
                                     Deprecated Ne= must be recorded as population_size.
  recording-off-provenance-unchanged record_provenance=False: the output provenance table equals the input's
                                     (tskit ProvenanceTable.equals: records and timestamps)
  chain-*                            the same clauses on every step of a chain of 3 calls
                                     (preprocess_ts -> date -> another method) with recording switched on/off
                                     per step: the count grows by exactly the number of recording steps
  known-record-omits-output-affecting-options
                                     KNOWN DEFECT (found while writing this check, unrepaired): options that change
                                     the returned tree sequence but are never written to the record --
                                     min_branch_length, constr_iterations, allow_unary, set_metadata, a
                                     user-supplied priors grid (no trace at all, population_size is recorded as
                                     null) and extra simplify keywords of preprocess_ts (e.g. keep_unary).  The
                                     clause (one case per option name, aggregated over all calls) holds iff the
                                     option is present in parameters with its value in every call that was given
                                     it; it is kept apart so that record-has-parameters-used stays strict for
                                     everything the record format carries.

Input space (own generator on top of rt.inputs.sim / tree_to_ts; deterministic in the seed)
  quick   : 4 inputs (3 msprime simulations with 3..5 samples, 1..~15 trees, <= ~25 nodes; one hand-built
            4-leaf tree with mutations)  x provenance history variant (as simulated = 2 rows / cleared = 0 rows /
            3 rows incl. a non-JSON row; rotated over inputs)  x 43 call specifications  x recording
            {on (True, None and omitted rotate), off}, plus 6 chains of 3 calls.
  thorough: 24 inputs (up to 7 samples), every call specification x all four recording settings, 48 chains.
  exhaustive = False (the option VALUES are sampled; the set of option NAMES per entry point is complete for the
  documented options of the four entry points).
Tolerances: none -- all comparisons are exact (integers, strings, JSON values; a float given as a Python/numpy
  float must be recorded as the identical double since JSON round-trips doubles exactly).
NOT covered: the CLI (C34), split_disjoint_nodes / other helpers called directly (not in the statement),
  contents of environment/resources, calls that raise (no output to observe), progress=True output.
"""
import datetime
import json
import traceback
import warnings

import numpy as np
import tskit

from rt import bounded_api, inputs

MU = 5e-4
NE = 100

# options that change the output but are not carried by the record format (known defect, own clause)
KNOWN_UNRECORDED = ("min_branch_length", "constr_iterations", "allow_unary", "set_metadata", "priors", "keep_unary",
                    "keep_input_roots")
# options that do not describe how the returned tree sequence was produced
NOT_PARAMETERS = ("record_provenance", "return_fit", "return_likelihood")


# ------------------------------------------------------------------ inputs
def _small_sim(i, seed, big=False):
    n = 3 + i % (5 if big else 3)
    rec = 0 if i % 3 == 0 else 2e-4
    return inputs.sim(seed * 1000 + i, n=n, L=200, rec=rec, mu=MU, ne=NE)


def _hand_tree():
    # ((0,1),(2,3)) with mutations on several nodes, 10 bp
    return inputs.tree_to_ts(((0, 1), (2, 3)), sequence_length=200.0, mutations={0: 2, 1: 1, 4: 3, 5: 2, 2: 1})


def _with_history(ts, variant):
    """variant 0: as is; 1: no earlier rows; 2: three rows, one of them not JSON."""
    if variant == 0:
        return ts
    tables = ts.dump_tables()
    tables.provenances.clear()
    if variant == 2:
        tables.provenances.add_row(record=json.dumps({"schema_version": "1.0.0", "software": {"name": "x", "version": "0"},
                                                      "parameters": {"command": "made-up"}, "environment": {}}),
                                   timestamp="2001-02-03T04:05:06")
        tables.provenances.add_row(record="this is not json {", timestamp="")
        tables.provenances.add_row(record=json.dumps({"a": [1, 2, {"b": None}]}), timestamp="1999-12-31T23:59:59.999999")
    return tables.tree_sequence()


def make_inputs(seed, tier):
    k = 3 if tier == "quick" else 23
    out = []
    for i in range(k):
        ts = _small_sim(i, seed, big=(tier != "quick"))
        if ts.num_mutations == 0:
            continue
        out.append((f"sim(seed={seed * 1000 + i},n={ts.num_samples},L=200)", ts))
    out.append(("tree(((0,1),(2,3)))", _hand_tree()))
    return [(f"{name}/hist{j % 3}", _with_history(ts, j % 3)) for j, (name, ts) in enumerate(out)]


# ------------------------------------------------------------------ call specifications
def call_specs(ts, tsdate):
    """(label, function name, kwargs).  Built per input because some values depend on it."""
    L = ts.sequence_length
    popdict = {"population_size": [100.0, 250.0], "time_breaks": [40.0]}
    S = []
    vg = [
        {},
        {"max_iterations": 3},
        {"max_iterations": np.int32(2)},
        {"rescaling_intervals": 3, "rescaling_iterations": 2},
        {"rescaling_intervals": 0},
        {"match_segregating_sites": True},
        {"time_units": "years", "progress": False},
        {"max_shape": 50.0, "regularise_roots": False},
        {"singletons_phased": True, "max_iterations": 1},
        {"min_branch_length": 0.25, "constr_iterations": 2},
        {"allow_unary": True, "set_metadata": False},
    ]
    for j, kw in enumerate(vg):
        if j % 2 == 0:
            S.append((f"date/vg{j}", "date", dict(kw)))
            S.append((f"date-method/vg{j}", "date", dict(kw, method="variational_gamma")))
        else:
            S.append((f"variational_gamma/vg{j}", "variational_gamma", dict(kw)))
    S.append(("variational_gamma/f32", "variational_gamma", {"mutation_rate": np.float32(MU)}))
    S.append(("date/return-fit-lik", "date", {"return_fit": True, "return_likelihood": True}))
    io = [
        {"population_size": NE},
        {"population_size": float(NE), "eps": 1e-6, "probability_space": "linear"},
        {"population_size": NE, "outside_standardize": False},
        {"population_size": NE, "ignore_oldest_root": True, "probability_space": "logarithmic"},
        {"population_size": popdict},
        {"population_size": np.float64(NE), "num_threads": 1},
        {"Ne": NE},
        {"priors": "GRID"},
        {"population_size": NE, "min_branch_length": 0.5, "time_units": "generations"},
        {"population_size": NE, "return_likelihood": True},
    ]
    for j, kw in enumerate(io):
        if j % 2 == 0:
            S.append((f"inside_outside/io{j}", "inside_outside", dict(kw)))
        else:
            S.append((f"date-method/io{j}", "date", dict(kw, method="inside_outside")))
    mx = [
        {"population_size": NE},
        {"population_size": NE, "eps": 1e-5, "probability_space": "linear"},
        {"population_size": popdict, "num_threads": 1},
        {"priors": "GRID", "set_metadata": True},
        {"Ne": float(NE), "return_fit": True},
    ]
    for j, kw in enumerate(mx):
        if j % 2 == 0:
            S.append((f"maximization/mx{j}", "maximization", dict(kw)))
        else:
            S.append((f"date-method/mx{j}", "date", dict(kw, method="maximization")))
    pp = [
        {},
        {"minimum_gap": 10},
        {"minimum_gap": 25.0, "erase_flanks": False},
        {"erase_flanks": True, "split_disjoint": False},
        {"remove_telomeres": False, "minimum_gap": np.int64(15)},
        {"delete_intervals": [[0.0, L / 10]]},
        {"delete_intervals": np.array([[L / 4, L / 2], [0.75 * L, L]])},
        {"filter_sites": True, "filter_populations": True, "filter_individuals": True},
        {"split_disjoint": True, "keep_unary": True},
    ]
    for j, kw in enumerate(pp):
        S.append((f"preprocess_ts/pp{j}", "preprocess_ts", dict(kw)))
    return S


def expected_command(fname, kw):
    if fname == "preprocess_ts":
        return "preprocess_ts"
    if fname == "date":
        return kw.get("method") or "variational_gamma"
    return fname


def norm(v):
    """JSON value that an option value must be recorded as (written from the JSON data model, not from tsdate)."""
    if isinstance(v, np.generic):
        return v.item()
    if isinstance(v, np.ndarray):
        return [norm(x) for x in v.tolist()]
    if isinstance(v, (list, tuple)):
        return [norm(x) for x in v]
    if isinstance(v, dict):
        return {str(k): norm(x) for k, x in v.items()}
    return v


def expected_parameters(fname, kw):
    """Option name -> JSON value the record has to carry, split into (strict, known-unrecorded)."""
    strict, known = {}, {}
    for k, v in kw.items():
        if k in NOT_PARAMETERS or k == "method":
            continue
        if k in KNOWN_UNRECORDED:
            known[k] = "user-supplied prior grid" if k == "priors" else norm(v)
            continue
        if k == "Ne":
            k = "population_size"
        if k == "remove_telomeres":
            k = "erase_flanks"
        strict[k] = norm(v)
    if fname != "preprocess_ts":
        strict.setdefault("mutation_rate", MU)
    return strict, known


def run_call(tsdate, fname, ts, kw, rp, grid_cache):
    kw = dict(kw)
    if kw.get("priors") == "GRID":
        key = id(ts)
        if key not in grid_cache:
            grid_cache[key] = tsdate.build_prior_grid(ts, population_size=NE)
        kw["priors"] = grid_cache[key]
    if fname != "preprocess_ts":
        kw.setdefault("mutation_rate", MU)
    if rp != "omitted":
        kw["record_provenance"] = rp
    with warnings.catch_warnings():
        warnings.simplefilter("ignore")
        res = getattr(tsdate, fname)(ts, **kw)
    return res[0] if isinstance(res, tuple) else res


def guarded_call(rep, prefix, key, desc, tsdate, fname, ts, kw, rp, grid_cache, skipped):
    """Run the call.  A call that raises has no output to observe and belongs to C35 -- it is skipped and counted
    in the notes -- UNLESS the exception comes out of writing the provenance record (the record could not be
    encoded after all the work was done): that is a failure of new-record-valid."""
    try:
        return run_call(tsdate, fname, ts, kw, rp, grid_cache)
    except Exception as e:
        files = [f.filename for f in traceback.extract_tb(e.__traceback__)]
        in_prov = any(f.endswith("provenance.py") or "/json/" in f for f in files)
        if in_prov and rp is not False:
            rep.case(prefix + "new-record-valid", False, key=key, input=desc,
                     observed=f"{type(e).__name__}: {e}", expected="one valid record appended")
        else:
            skipped.append(f"{key}: {type(e).__name__}: {e}")
        return None


def prov_rows(ts):
    return [(p.record, p.timestamp) for p in ts.provenances()]


def check_call(rep, prefix, key, desc, fname, kw, rp, ts_in, ts_out):
    """Evaluate the clauses for one call.  prefix: "" or "chain-"."""
    before, after = prov_rows(ts_in), prov_rows(ts_out)
    inp = dict(desc)
    if rp is False:
        ok = ts_out.tables.provenances.equals(ts_in.tables.provenances) and before == after
        rep.case(prefix + "recording-off-provenance-unchanged", ok, key=key, input=inp,
                 observed={"rows_before": len(before), "rows_after": len(after)}, expected="identical provenance table")
        return
    rep.case(prefix + "exactly-one-record-appended", len(after) == len(before) + 1, key=key, input=inp,
             observed=len(after), expected=len(before) + 1)
    kept = after[:len(before)] == before
    rep.case(prefix + "earlier-records-kept", kept, key=key, input=inp, nontrivial=len(before) > 0,
             observed=[r[0][:60] for r in after[:len(before)]], expected=[r[0][:60] for r in before])
    if len(after) <= len(before):
        return
    record_text, stamp = after[-1]
    valid, why, doc = True, "", None
    try:
        doc = json.loads(record_text)
        tskit.validate_provenance(doc)
        if doc["software"]["name"] != "tsdate":
            valid, why = False, f"software.name={doc['software']['name']!r}"
        datetime.datetime.fromisoformat(stamp)
    except Exception as e:  # any failure to parse / validate is the observation
        valid, why = False, f"{type(e).__name__}: {e}"
    rep.case(prefix + "new-record-valid", valid, key=key, input=inp, observed=why or "valid", expected="valid")
    if not isinstance(doc, dict) or not isinstance(doc.get("parameters"), dict):
        return
    params = doc["parameters"]
    cmd = expected_command(fname, kw)
    rep.case(prefix + "record-names-command", params.get("command") == cmd, key=key, input=inp,
             observed=params.get("command"), expected=cmd)
    strict, known = expected_parameters(fname, kw)
    missing = {k: v for k, v in strict.items() if k not in params or params[k] != v or
               type(params[k]) is bool and type(v) is not bool or type(v) is bool and type(params[k]) is not bool}
    rep.case(prefix + "record-has-parameters-used", not missing, key=key, input=inp,
             observed={k: params.get(k, "<absent>") for k in missing}, expected=missing)
    for k, v in known.items():
        t = known_tally.setdefault(k, {"given": 0, "recorded": 0, "example": None})
        t["given"] += 1
        if k in params and (k == "priors" or params[k] == v):
            t["recorded"] += 1
        elif t["example"] is None:
            t["example"] = {"call": inp, "value_given": v, "in_record": params.get(k, "<absent>")}


known_tally = {}


def run(req, rep):
    tier, seed = req["tier"], req["seed"]
    import tsdate

    known_tally.clear()
    rng = np.random.default_rng(seed)
    ins = make_inputs(seed, tier)
    rep.space = ("small msprime simulations + one hand-built tree, each with a provenance-history variant (2 / 0 / 3 "
                 "earlier rows) x call specifications of date / variational_gamma / inside_outside / maximization / "
                 "preprocess_ts x record_provenance in {True, None, omitted, False}; chains of 3 calls")
    rep.exhaustive = False
    grid_cache = {}
    n_calls = 0
    skipped = []
    rp_on = [True, None, "omitted"]
    for ii, (iname, ts) in enumerate(ins):
        specs = call_specs(ts, tsdate)
        for si, (label, fname, kw) in enumerate(specs):
            if tier == "quick":
                rps = [rp_on[(ii + si) % 3], False]
            else:
                rps = rp_on + [False]
            for rp in rps:
                desc = {"input": iname, "call": label, "function": fname,
                        "kwargs": {k: (v if isinstance(v, (int, float, str, bool, type(None))) else repr(v))
                                   for k, v in kw.items()}, "record_provenance": repr(rp), "mutation_rate": MU,
                        "seed": seed}
                key = f"{iname}|{label}|rp={rp}"
                out = guarded_call(rep, "", key, desc, tsdate, fname, ts, kw, rp, grid_cache, skipped)
                n_calls += 1
                if out is not None:
                    check_call(rep, "", key, desc, fname, kw, rp, ts, out)
    # ---- chains: preprocess_ts -> date(method A) -> method B, recording on/off per step
    n_chain = 6 if tier == "quick" else 48
    chain_methods = [("date", {}), ("date", {"method": "inside_outside", "population_size": NE}),
                     ("maximization", {"population_size": NE}), ("variational_gamma", {"max_iterations": 2}),
                     ("inside_outside", {"population_size": NE, "probability_space": "linear"})]
    for c in range(n_chain):
        iname, ts = ins[int(rng.integers(len(ins)))]
        flags = [bool(b) for b in rng.integers(0, 2, size=3)]
        if c == 0:
            flags = [True, True, True]
        a, b = rng.choice(len(chain_methods), size=2, replace=False)
        steps = [("preprocess_ts", {"erase_flanks": False, "minimum_gap": 1e6})] + [chain_methods[a], chain_methods[b]]
        cur = ts
        expected_rows = cur.num_provenances
        for s, ((fname, kw), on) in enumerate(zip(steps, flags)):
            rp = (True if (c + s) % 2 else None) if on else False
            desc = {"input": iname, "chain": [f"{f}{k}" for f, k in steps], "recording": flags, "step": s, "seed": seed,
                    "mutation_rate": MU}
            key = f"chain{c}|{iname}|{flags}|step{s}"
            out = guarded_call(rep, "chain-", key, desc, tsdate, fname, cur, kw, rp, grid_cache, skipped)
            n_calls += 1
            if out is None:
                continue  # step raised (C35 territory): the chain goes on from the previous tree sequence
            check_call(rep, "chain-", key, desc, fname, kw, rp, cur, out)
            expected_rows += 1 if on else 0
            cur = out
        rep.case("chain-total-count", cur.num_provenances == expected_rows, key=f"chain{c}|total",
                 input={"input": iname, "chain": [f"{f}{k}" for f, k in steps], "recording": flags, "seed": seed},
                 observed=cur.num_provenances, expected=expected_rows)
    rep.bound = (f"{len(ins)} inputs (<= {max(t.num_nodes for _, t in ins)} nodes, <= "
                 f"{max(t.num_samples for _, t in ins)} samples), {len(call_specs(ins[0][1], tsdate))} call "
                 f"specifications, {n_chain} chains, {n_calls} calls of the real entry points")
    # one case per known-unrecorded option (aggregated so that these known failures cannot crowd out the report)
    for k, t in sorted(known_tally.items()):
        rep.case("known-record-omits-output-affecting-options", t["recorded"] == t["given"], key=f"option:{k}",
                 input=t["example"], observed=f"recorded in {t['recorded']} of {t['given']} calls that were given {k}",
                 expected="recorded in every call that was given it")
    rep.notes.append(f"{len(skipped)} of {n_calls} calls raised before returning (no output to observe; C35 "
                     f"territory) and were skipped: {skipped[:4]}")
    rep.notes.append("known-record-omits-output-affecting-options fails on the unchanged code by design of the "
                     "clause: min_branch_length, constr_iterations, allow_unary, set_metadata, priors and extra "
                     "simplify keywords are not written to the provenance record")


if __name__ == "__main__":
    bounded_api.main(run)
