"""
Bounded stand-in for C30 -- unary-node detection is exact.

Contract clauses evaluated on the REAL tsdate code
  detector level (any valid tskit tree sequence, samples may be internal):
    contains-unary-nodes-iff-nonsample-unary   util.contains_unary_nodes(ts)  <=>  some NON-SAMPLE node has exactly
                                               one child in some local tree  (the variational_gamma detector)
    has-locally-unary-nodes-iff-any-unary      prior.has_locally_unary_nodes(ts)  <=>  some node (sample or not) has
                                               exactly one child in some local tree  (the discrete-time detector)
  date() level (inputs inside the documented domain of the method, allow_unary left at its default False):
    variational-gamma-rejects-unary-inputs     spec says "non-sample unary" -> tsdate.date(method="variational_gamma")
                                               raises ValueError naming unary nodes
    variational-gamma-accepts-other-inputs     spec says no non-sample unary node -> date(...) with DEFAULT options
                                               returns a tree sequence (inputs on which the default run dies with the
                                               known rescaling assertion F7 are NOT counted here but in the known-
                                               clause below; every other exception is a failure of this clause)
    variational-gamma-unary-check-accepts-with-rescaling-off
                                               the same acceptance obligation for EVERY spec-negative input (F7
                                               inputs included) with rescaling_iterations=0, i.e. with the step that
                                               carries the known defect switched off: must return a tree sequence
    known-variational-gamma-f7-rescaling-assertion
                                               spec-negative inputs on which the default-option run raises
                                               AssertionError("Use fewer rescaling intervals") (DESIGN.md 6-F7, not
                                               repaired in /repo): recorded as failing "Other inputs are accepted"
    discrete-rejects-unary-inputs              spec says "some unary node" -> date(method="inside_outside") and
                                               date(method="maximization") raise ValueError naming unary nodes
    discrete-accepts-other-inputs              otherwise both return a tree sequence
    discrete-multi-root-input-not-rejected-as-unary
                                               inputs without unary nodes in which some local tree has two or more
                                               roots with children are outside the discrete methods' domain (they
                                               raise ValueError "Tree k has multiple roots"); for them only the
                                               "exactly" direction is checked: the outcome is not a unary rejection

Specification oracles (written from the statement; no tsdate code, no tskit tree traversal):
  * enumerated inputs: children are counted directly on the enumerated parent vector of every interval;
  * every input (enumerated and simulated): direct tally on the edge table -- for every interval between consecutive
    edge breakpoints, num_children(u) = #{edges e: parent_e = u, left_e <= x < right_e}.
  Both oracles are computed for enumerated inputs and must agree (a disagreement aborts the run: checker bug).

Input space
  Enumerated edge tables E(S, I, k): S samples at time 0, I further nodes at times 1..I, k genome intervals of equal
  length; in every interval every node independently has no parent or any strictly older node as parent (this
  is EVERY valid edge table on those nodes whose breakpoints lie on the k-grid; includes forests, isolated samples,
  empty intervals, dangling nodes, unary chains, nodes unary in only part of their span).  Adjacent identical
  edges are squashed; for k >= 2 every 4th input is additionally evaluated unsquashed (edge removed and re-inserted at
  the same position).  Each table is evaluated with no internal sample and with one seeded-random non-empty set of
  the I older nodes flagged as samples (thorough: all 2^I flag sets when k = 1).
    quick   : exhaustive E(1,2,1) E(2,2,1) E(2,3,1) E(3,2,1) E(3,3,1) E(4,2,1) E(4,3,1) E(2,2,2) E(3,2,2) E(2,3,2) E(2,2,3);
              seeded random samples of 3000 from E(3,3,2) and 1000 each from E(3,2,3), E(2,3,3), E(3,3,3).
    thorough: additionally exhaustive E(3,3,2) (147456 tables) and E(4,2,2); random samples of 30000 each from
              E(3,2,3), E(2,3,3), E(3,3,3), E(4,3,2).
  date() level: every enumerated input that lies in the method's domain -- every node has an edge somewhere, every
  leaf of every local tree is a sample (nothing dangling; tsdate requires simplified input), and for the discrete
  methods no internal sample (they need all samples at time 0) and at most one root with children per local tree
  (isolated samples and empty intervals are allowed) -- capped per family (quick 150, thorough 3000;
  seeded choice, half to-be-accepted and half to-be-rejected inputs where both exist).  One mutation is placed
  on every edge in every interval.
  Single trees: every rooted leaf-labelled tree shape (polytomies incl.) with 3..4 leaves (thorough: 3..5; 30 / 266
  shapes), seeded 1..3 mutations above every node, (a) as is (no unary node: accepted by all three methods), (b) one
  seeded-random edge subdivided by a new non-sample node (rejected by all), (c) subdivided by a new sample node
  (accepted by variational_gamma; outside the discrete methods' domain).  Detector and date() level.
  Simulations (msprime, 3..6 samples, <= ~40 nodes): full ARGs (record_full_arg), coalescing_segments_only=False,
  sample subsets simplified with keep_unary=True and keep_unary=False, the same with every unary node flagged as a
  sample (sample-only unary), and fully simplified inputs with random internal nodes flagged as samples.
    quick 40 simulated inputs, thorough 400; detector level on all, date() level on those in the method's domain.
  exhaustive = True for the listed E(S,I,k) families at detector level, False for the sampled families/simulations.

Tolerances: none (boolean / exception outcomes only).

NOT covered: allow_unary=True; discrete methods on inputs with non-contemporaneous samples (outside their domain:
they raise "Samples must all be at time 0" or "not simplified" there); breakpoints off the k-grid other than in the
simulations; more than 3 intervals / 7 nodes in the enumeration; the JIT-compiled build of _contains_unary_nodes
(the stand-in runs the same source as plain Python under NUMBA_DISABLE_JIT=1).
"""
import itertools
import warnings

import msprime
import numpy as np
import tskit

from rt import bounded_api, inputs

W = 100.0  # length of one genome interval
MU_ENUM = 1e-2
NE_ENUM = 10
MU_SIM = 2e-4
NE_SIM = 100
DEFERRED_KNOWN = []


# ------------------------------------------------------------------ enumeration
def parent_vectors(S, I):
    """All per-interval parent assignments: node u (time 0 for u < S, time u-S+1 otherwise) -> -1 or an older node."""
    N = S + I
    choices = []
    for u in range(N - 1):
        lo = S if u < S else u + 1
        choices.append([-1] + list(range(lo, N)))
    return [pv + (-1,) for pv in itertools.product(*choices)]


def build_ts(S, I, pvs, flagged=(), squash=True, mutations=False):
    N, k = S + I, len(pvs)
    tables = tskit.TableCollection(W * k)
    flags = np.zeros(N, dtype=np.uint32)
    flags[:S] = tskit.NODE_IS_SAMPLE
    for u in flagged:
        flags[u] = tskit.NODE_IS_SAMPLE
    time = np.concatenate([np.zeros(S), np.arange(1, I + 1, dtype=float)])
    tables.nodes.set_columns(flags=flags, time=time)
    edges = []
    for j, pv in enumerate(pvs):
        for c, p in enumerate(pv):
            if p >= 0:
                edges.append([j * W, (j + 1) * W, p, c])
    if squash:
        edges.sort(key=lambda e: (e[2], e[3], e[0]))
        out = []
        for e in edges:
            if out and out[-1][2] == e[2] and out[-1][3] == e[3] and out[-1][1] == e[0]:
                out[-1][1] = e[1]
            else:
                out.append(e)
        edges = out
    if edges:
        a = np.array(edges, dtype=float)
        tables.edges.set_columns(left=a[:, 0], right=a[:, 1], parent=a[:, 2].astype(np.int32),
                                 child=a[:, 3].astype(np.int32))
    if mutations:
        for j, pv in enumerate(pvs):
            pos = j * W + 1.0
            for c, p in enumerate(pv):
                if p >= 0:
                    s = tables.sites.add_row(pos, "0")
                    tables.mutations.add_row(s, c, derived_state="1")
                    pos += 1.0
    tables.sort()
    tables.build_index()
    if mutations:
        tables.compute_mutation_parents()
    return tables.tree_sequence()


# ------------------------------------------------------------------ specification oracles
def spec_from_parent_vectors(S, I, pvs, flagged):
    samples = set(range(S)) | set(flagged)
    any_unary = nonsample_unary = False
    used = set()
    dangling = False
    multi_root = False
    for pv in pvs:
        nchild = {}
        for p in pv:
            if p >= 0:
                nchild[p] = nchild.get(p, 0) + 1
        for u, n in nchild.items():
            if n == 1:
                any_unary = True
                if u not in samples:
                    nonsample_unary = True
        present = {u for u, p in enumerate(pv) if p >= 0} | set(nchild)
        used |= present
        if any(u not in samples and u not in nchild for u in present):
            dangling = True
        if sum(1 for u in nchild if pv[u] < 0) > 1:
            multi_root = True
    in_domain = (not dangling) and len(used) == S + I
    return any_unary, nonsample_unary, in_domain, multi_root


def spec_from_edge_table(ts):
    """Direct per-interval tally on the edge table (no tree traversal)."""
    left, right, parent = ts.edges_left, ts.edges_right, ts.edges_parent
    is_sample = (ts.nodes_flags & tskit.NODE_IS_SAMPLE) != 0
    breaks = np.unique(np.concatenate([[0.0, ts.sequence_length], left, right]))
    any_unary = nonsample_unary = False
    for x in breaks[:-1]:
        covering = (left <= x) & (right > x)
        counts = np.bincount(parent[covering], minlength=ts.num_nodes)
        one = counts == 1
        if one.any():
            any_unary = True
            if (one & ~is_sample).any():
                nonsample_unary = True
                break
    return any_unary, nonsample_unary


def sim_in_domain(ts):
    """(in_domain, multi_root): every node has an edge and every leaf of every local tree is a sample; some local
    tree has more than one root with children (direct tallies on the edge table)."""
    left, right, parent, child = ts.edges_left, ts.edges_right, ts.edges_parent, ts.edges_child
    is_sample = (ts.nodes_flags & tskit.NODE_IS_SAMPLE) != 0
    if len(set(parent) | set(child)) != ts.num_nodes:
        return False, False
    multi_root = False
    breaks = np.unique(np.concatenate([[0.0, ts.sequence_length], left, right]))
    for x in breaks[:-1]:
        covering = (left <= x) & (right > x)
        has_child = np.bincount(parent[covering], minlength=ts.num_nodes) > 0
        is_child = np.bincount(child[covering], minlength=ts.num_nodes) > 0
        if (is_child & ~has_child & ~is_sample).any():
            return False, False
        if np.sum(has_child & ~is_child) > 1:
            multi_root = True
    return True, multi_root


# ------------------------------------------------------------------ calling the real code
def outcome(f):
    """'accepted' | 'rejected-unary' | 'f7' | 'other:<type>:<msg>'"""
    try:
        with warnings.catch_warnings():
            warnings.simplefilter("ignore")
            out = f()
        return "accepted" if isinstance(out, tskit.TreeSequence) else f"other:returned {type(out).__name__}"
    except ValueError as e:
        if "unary" in str(e).lower():
            return "rejected-unary"
        return f"other:ValueError:{str(e)[:80]}"
    except AssertionError as e:
        if "Use fewer rescaling intervals" in str(e):
            return "f7"
        return f"other:AssertionError:{str(e)[:80]}"
    except Exception as e:  # noqa: BLE001 -- reported as a failure, never hidden
        return f"other:{type(e).__name__}:{str(e)[:80]}"


def detector_clauses(rep, tsdate, ts, key, desc, any_unary, nonsample_unary):
    got1 = bool(tsdate.util.contains_unary_nodes(ts))
    rep.case("contains-unary-nodes-iff-nonsample-unary", got1 == nonsample_unary, key=key, input=desc,
             observed=got1, expected=nonsample_unary)
    got2 = bool(tsdate.prior.has_locally_unary_nodes(ts))
    rep.case("has-locally-unary-nodes-iff-any-unary", got2 == any_unary, key=key, input=desc,
             observed=got2, expected=any_unary)


def date_clauses(rep, tsdate, ts, key, desc, any_unary, nonsample_unary, mu, ne, discrete_ok, multi_root=False):
    o = outcome(lambda: tsdate.date(ts, mutation_rate=mu, method="variational_gamma"))
    d = dict(desc, call=f"tsdate.date(ts, mutation_rate={mu}, method='variational_gamma')")
    if nonsample_unary:
        rep.case("variational-gamma-rejects-unary-inputs", o == "rejected-unary", key=key, input=d,
                 observed=o, expected="rejected-unary")
    else:
        if o == "f7":
            # emitted at the end of the run so that these known failures do not use up the report's 20 failure slots
            DEFERRED_KNOWN.append(dict(key=key, input=d, observed="AssertionError: Use fewer rescaling intervals",
                                       expected="accepted"))
        else:
            rep.case("variational-gamma-accepts-other-inputs", o == "accepted", key=key, input=d,
                     observed=o, expected="accepted")
        o0 = outcome(lambda: tsdate.date(ts, mutation_rate=mu, method="variational_gamma", rescaling_iterations=0))
        rep.case("variational-gamma-unary-check-accepts-with-rescaling-off", o0 == "accepted", key=key,
                 input=dict(d, call=d["call"][:-1] + ", rescaling_iterations=0)"), observed=o0, expected="accepted")
    if discrete_ok:
        for method in ("inside_outside", "maximization"):
            o = outcome(lambda: tsdate.date(ts, mutation_rate=mu, population_size=ne, method=method))  # noqa: B023
            d = dict(desc, call=f"tsdate.date(ts, mutation_rate={mu}, population_size={ne}, method='{method}')")
            if any_unary:
                rep.case("discrete-rejects-unary-inputs", o == "rejected-unary", key=f"{key}|{method}", input=d,
                         observed=o, expected="rejected-unary")
            elif multi_root:
                # outside the discrete methods' domain (they raise "Tree k has multiple roots"); the unary check
                # must still not fire
                rep.case("discrete-multi-root-input-not-rejected-as-unary", o != "rejected-unary",
                         key=f"{key}|{method}", input=d, observed=o, expected="anything but a unary rejection")
            else:
                rep.case("discrete-accepts-other-inputs", o == "accepted", key=f"{key}|{method}", input=d,
                         observed=o, expected="accepted")


# ------------------------------------------------------------------ single-tree shapes, with and without a unary node
def subdivide_edge(ts, edge_id, flag_sample):
    """Insert a new node in the middle of one edge (it is unary over the whole edge)."""
    tables = ts.dump_tables()
    e = ts.edge(edge_id)
    t_new = 0.5 * (ts.nodes_time[e.parent] + ts.nodes_time[e.child])
    new = tables.nodes.add_row(flags=tskit.NODE_IS_SAMPLE if flag_sample else 0, time=t_new)
    tables.edges.clear()
    for f in ts.edges():
        if f.id == edge_id:
            tables.edges.add_row(f.left, f.right, f.parent, new)
            tables.edges.add_row(f.left, f.right, new, f.child)
        else:
            tables.edges.add_row(f.left, f.right, f.parent, f.child)
    tables.sort()
    tables.build_index()
    tables.compute_mutation_parents()
    return tables.tree_sequence()


def shape_inputs(max_leaves, rng):
    out = []
    for n in range(3, max_leaves + 1):
        for j, shape in enumerate(inputs.all_tree_shapes(n)):
            n_internal = _count_internal(shape)
            muts = {u: int(rng.integers(1, 4)) for u in range(n + n_internal - 1)}  # every edge carries mutations
            ts = inputs.tree_to_ts(shape, sequence_length=W, mutations=muts)
            e = int(rng.integers(0, ts.num_edges))
            d = {"shape": repr(shape), "mutations_per_node": muts}
            out.append((f"shape{n}-{j}", ts, dict(d, variant="as is")))
            out.append((f"shape{n}-{j}+unary(e{e})", subdivide_edge(ts, e, False),
                        dict(d, variant=f"edge {e} (parent {ts.edges_parent[e]}, child {ts.edges_child[e]}) "
                                        "subdivided by a new non-sample node")))
            out.append((f"shape{n}-{j}+sample-unary(e{e})", subdivide_edge(ts, e, True),
                        dict(d, variant=f"edge {e} (parent {ts.edges_parent[e]}, child {ts.edges_child[e]}) "
                                        "subdivided by a new SAMPLE node")))
    return out


def _count_internal(t):
    return 0 if isinstance(t, int) else 1 + sum(_count_internal(c) for c in t)


# ------------------------------------------------------------------ simulations
def flag_nodes(ts, nodes):
    tables = ts.dump_tables()
    flags = tables.nodes.flags
    flags[list(nodes)] |= tskit.NODE_IS_SAMPLE
    tables.nodes.flags = flags
    return tables.tree_sequence()


def unary_nodes_of(ts):
    """All nodes that are unary somewhere (direct tally on the edge table)."""
    left, right, parent = ts.edges_left, ts.edges_right, ts.edges_parent
    breaks = np.unique(np.concatenate([[0.0, ts.sequence_length], left, right]))
    out = set()
    for x in breaks[:-1]:
        counts = np.bincount(parent[(left <= x) & (right > x)], minlength=ts.num_nodes)
        out |= set(np.flatnonzero(counts == 1).tolist())
    return out


def simulated_inputs(seed, count, rng):
    out = []
    i = 0
    while len(out) < count and i < 50 * count:
        s = seed * 100003 + i
        kind = i % 6
        n = 3 + i % 4
        rec = (0.0, 1e-5, 2e-5, 4e-5)[(i // 6) % 4]
        i += 1
        kw = dict(ploidy=1, sequence_length=1e3, recombination_rate=rec, population_size=NE_SIM, random_seed=s + 1)
        if kind == 0:
            ts, label = msprime.sim_ancestry(n, record_full_arg=True, **kw), "full-arg"
        elif kind == 1:
            ts, label = msprime.sim_ancestry(n, coalescing_segments_only=False, **kw), "all-segments"
        elif kind == 2:
            full = msprime.sim_ancestry(n + 3, **kw)
            ts, label = full.simplify(list(range(n)), keep_unary=True), "subset-keep-unary"
        elif kind == 3:
            full = msprime.sim_ancestry(n + 3, **kw)
            ts, label = full.simplify(list(range(n)), keep_unary=False), "subset-simplified"
        elif kind == 4:
            full = msprime.sim_ancestry(n + 3, **kw)
            ts = full.simplify(list(range(n)), keep_unary=True)
            un = unary_nodes_of(ts)
            ts, label = (flag_nodes(ts, un) if un else ts), "unary-nodes-are-samples"
        else:
            ts = msprime.sim_ancestry(n, **kw)
            internal = [u for u in range(ts.num_nodes) if not ts.node(u).is_sample()]
            pick = [u for u in internal if rng.random() < 0.4]
            ts, label = (flag_nodes(ts, pick) if pick else ts), "internal-samples"
        if ts.num_nodes > 45:
            continue
        ts = msprime.sim_mutations(ts, rate=MU_SIM, random_seed=s + 7)
        if ts.num_mutations == 0:
            continue
        out.append((f"sim{i - 1}-{label}-n{n}-r{rec}", ts))
    return out


# ------------------------------------------------------------------ main
def run(req, rep):
    import tsdate
    import tsdate.prior  # noqa: F401
    import tsdate.util  # noqa: F401

    tier, seed = req["tier"], int(req["seed"])
    thorough = tier == "thorough"
    rng = np.random.default_rng(seed)
    DEFERRED_KNOWN.clear()

    exhaustive_fams = [(1, 2, 1), (2, 2, 1), (2, 3, 1), (3, 2, 1), (3, 3, 1), (4, 2, 1), (4, 3, 1),
                       (2, 2, 2), (3, 2, 2), (2, 3, 2), (2, 2, 3)]
    sampled_fams = [((3, 3, 2), 3000), ((3, 2, 3), 1000), ((2, 3, 3), 1000), ((3, 3, 3), 1000)]
    if thorough:
        exhaustive_fams += [(3, 3, 2), (4, 2, 2)]
        sampled_fams = [((3, 2, 3), 30000), ((2, 3, 3), 30000), ((3, 3, 3), 30000), ((4, 3, 2), 30000)]
    date_cap = 3000 if thorough else 150
    n_sims = 400 if thorough else 40

    rep.space = ("all edge tables E(S,I,k) on S time-0 samples + I older nodes over k genome intervals (every node: no "
                 "parent or any older parent, per interval), with and without internal sample flags, squashed and "
                 "unsquashed; all single-tree shapes (polytomies incl.) as is / with one edge subdivided by a non-sample "
                 "or sample node; msprime full ARGs / keep_unary subsets / internal-sample variants; detectors "
                 "util.contains_unary_nodes, prior.has_locally_unary_nodes and tsdate.date() for variational_gamma, "
                 "inside_outside, maximization")
    rep.bound = (f"tier={tier}: exhaustive (S,I,k) in {exhaustive_fams}; seeded samples {sampled_fams}; "
                 f"date() level on <= {date_cap} in-domain inputs per family; tree shapes with <= {5 if thorough else 4} "
                 f"leaves; {n_sims} simulated inputs (<= 45 nodes)")
    rep.exhaustive = True  # for the families listed as exhaustive at detector level; sampled families are extra

    n_tables = 0
    for fam_kind, fams in (("exh", [(f, None) for f in exhaustive_fams]), ("rnd", sampled_fams)):
        for (S, I, k), nsample in fams:
            pvs_all = parent_vectors(S, I)
            if nsample is None:
                configs = itertools.product(range(len(pvs_all)), repeat=k)
            else:
                configs = (tuple(int(x) for x in rng.integers(0, len(pvs_all), k)) for _ in range(nsample))
            internal = list(range(S, S + I))
            all_flagsets = [tuple(c) for r in range(1, I + 1) for c in itertools.combinations(internal, r)]
            date_candidates = []
            for ci, conf in enumerate(configs):
                pvs = [pvs_all[j] for j in conf]
                if thorough and k == 1:
                    flagsets = [()] + all_flagsets
                else:
                    flagsets = [(), all_flagsets[int(rng.integers(0, len(all_flagsets)))]]
                for flagged in flagsets:
                    any_u, ns_u, in_dom, multi = spec_from_parent_vectors(S, I, pvs, flagged)
                    variants = [True] + ([False] if (k >= 2 and ci % 4 == 0) else [])
                    for squash in variants:
                        ts = build_ts(S, I, pvs, flagged, squash=squash)
                        n_tables += 1
                        if spec_from_edge_table(ts) != (any_u, ns_u):
                            raise RuntimeError(f"checker bug: the two oracles disagree on E({S},{I},{k}) {pvs} {flagged}")
                        key = f"E({S},{I},{k})|{pvs}|{flagged}|{'sq' if squash else 'unsq'}"
                        desc = {"S": S, "I": I, "k": k, "parents_per_interval": [list(p) for p in pvs],
                                "internal_samples": list(flagged), "squashed": squash, "interval_length": W}
                        detector_clauses(rep, tsdate, ts, key, desc, any_u, ns_u)
                    if in_dom:
                        date_candidates.append((pvs, flagged, any_u, ns_u, multi))
            # date() level: a seeded choice, half spec-negative (to be accepted) and half spec-positive (to be
            # rejected) candidates where both kinds exist, so that both verdicts are exercised in every family
            neg = [c for c in date_candidates if not c[3]]
            pos = [c for c in date_candidates if c[3]]
            n_neg = min(len(neg), max(date_cap // 2, date_cap - len(pos)))
            n_pos = min(len(pos), date_cap - n_neg)
            chosen = [neg[j] for j in sorted(rng.permutation(len(neg))[:n_neg])]
            chosen += [pos[j] for j in sorted(rng.permutation(len(pos))[:n_pos])]
            for pvs, flagged, any_u, ns_u, multi in chosen:
                ts = build_ts(S, I, pvs, flagged, squash=True, mutations=True)
                key = f"E({S},{I},{k})|{pvs}|{flagged}|date"
                desc = {"S": S, "I": I, "k": k, "parents_per_interval": [list(p) for p in pvs],
                        "internal_samples": list(flagged), "interval_length": W,
                        "mutations": "one per edge per interval, sites at j*W+1, j*W+2, ..."}
                date_clauses(rep, tsdate, ts, key, desc, any_u, ns_u, MU_ENUM, NE_ENUM, discrete_ok=not flagged,
                             multi_root=multi)

    n_shapes = 0
    for name, ts, d in shape_inputs(5 if thorough else 4, rng):
        any_u, ns_u = spec_from_edge_table(ts)
        detector_clauses(rep, tsdate, ts, name, d, any_u, ns_u)
        contemporaneous = bool(np.all(ts.nodes_time[ts.samples()] == 0))
        date_clauses(rep, tsdate, ts, name + "|date", d, any_u, ns_u, MU_ENUM, NE_ENUM, discrete_ok=contemporaneous)
        n_shapes += 1
        # the same input with an application flag bit (tsinfer-style, not NODE_IS_SAMPLE) on every non-sample node:
        # "sample" means the sample flag bit, so the verdicts must not change (second C30 seed)
        tb = ts.dump_tables()
        fl = tb.nodes.flags
        fl[(fl & tskit.NODE_IS_SAMPLE) == 0] |= np.uint32(1 << 17)
        tb.nodes.flags = fl
        ts_f = tb.tree_sequence()
        detector_clauses(rep, tsdate, ts_f, name + "|extra-flag-bits", dict(d, extra_flag_bit_on_non_samples=1 << 17), any_u, ns_u)

    n_sim_date = 0
    for name, ts in simulated_inputs(seed, n_sims, rng):
        any_u, ns_u = spec_from_edge_table(ts)
        desc = {"name": name, "ts": bounded_api.ts_to_json(ts)}
        detector_clauses(rep, tsdate, ts, name, desc, any_u, ns_u)
        in_dom, multi = sim_in_domain(ts)
        if in_dom:
            contemporaneous = bool(np.all(ts.nodes_time[ts.samples()] == 0))
            date_clauses(rep, tsdate, ts, name + "|date", {"name": name, "ts": bounded_api.ts_to_json(ts)},
                         any_u, ns_u, MU_SIM, NE_SIM, discrete_ok=contemporaneous, multi_root=multi)
            n_sim_date += 1
    rep.notes.append(f"{n_tables} enumerated edge tables evaluated at detector level; {n_shapes} single-tree shape "
                     f"inputs; {n_sim_date} simulated inputs in the date() domain")
    for kw in DEFERRED_KNOWN:
        rep.case("known-variational-gamma-f7-rescaling-assertion", False, **kw)
    k = rep.clauses.get("known-variational-gamma-f7-rescaling-assertion")
    if k:
        rep.notes.append(f"F7 (AssertionError 'Use fewer rescaling intervals') hit on {k['fail']} spec-negative inputs "
                         "with default options; all of them are re-checked with rescaling_iterations=0")


if __name__ == "__main__":
    bounded_api.main(run)
