"""
Bounded stand-in (G4) for C29 -- "Splitting disjoint nodes preserves every local tree".

The REAL tsdate.util.split_disjoint_nodes is called on every generated input; everything it is
compared against is computed in this module directly from the *tables* of the input and of the
output (edge intervals, node rows, mutation rows) and from tskit's variant decoder.  No tsdate code
is used on the oracle side.

How "the node it came from" is observed without trusting the function under test
-------------------------------------------------------------------------------
Every input node carries a unique *tag* in an attribute that the statement says copies keep, and the
origin of an output node is read back from that attribute; all *other* attributes are then checked.
Four tagging variants rotate over the inputs:
  bytes  : schema-less metadata b"n<id>"            (unsplit_node_id cannot be set: "where possible")
  json   : permissive JSON metadata {"tag": id}     (unsplit_node_id must be set on split nodes)
  struct : struct-codec metadata {"tag": id}, no additional properties (cannot be set; copied)
  none   : no metadata at all; the tag is the node *time* (non-sample times are made distinct), so
           here time is the observer and the (empty) metadata is the attribute checked.

Contract clauses (one obligation each)
--------------------------------------
returns-a-tree-sequence                 the call returns (no internal AssertionError/IndexError/LibraryError)
known-no-edge-input-returns-a-tree-sequence
                                        the same obligation for inputs WITHOUT ANY EDGE (valid tree
                                        sequences: all samples isolated).  Fails on the unchanged code
                                        (remove_position[-1] on an empty array) -- kept apart so that the
                                        generic clause stays strict.
local-tree-equals-input-after-mapping   on every elementary interval between consecutive breakpoints of
                                        input and output, {origin(c): origin(p)} of the output's edges
                                        equals the input's child->parent map, with no two pieces of one
                                        node alive together
nonsample-ancestry-contiguous           the union of the edge intervals touching any non-sample output
                                        node is one interval
pieces-are-the-maximal-contiguous-regions
                                        for each input node the output nodes descending from it cover
                                        exactly its maximal contiguous regions (no over- or under-split;
                                        sample nodes and edge-less nodes are never split)
original-ids-kept-leftmost-piece        origin(v) = v for v < num_input_nodes, and among the pieces of a
                                        node the one with the original id is the leftmost
copies-keep-node-attributes             time, population, individual, flags (ignoring the split bit) of
                                        every output node equal those of its origin; the split bit is
                                        set on every piece of a node that was split and on no other node
metadata-copied-and-unsplit-node-id     metadata of unsplit nodes unchanged; split nodes: JSON variant =
                                        input metadata + {"unsplit_node_id": origin}; bytes/struct/none
                                        variants = input metadata unchanged ("where possible")
mutations-keep-site-and-follow-their-node
                                        site table unchanged; per site the multiset of
                                        (origin(node), derived_state, time, metadata) is unchanged; a
                                        mutation whose input node has an edge at the site's position
                                        sits on an output node that has an edge at that position
genotypes-unchanged                     allele-resolved genotypes (missing data included) of every sample
                                        at every site are equal
second-application-is-identity          split(split(ts)) has tables equal to split(ts) (provenance ignored)

Input space and bounds
----------------------
quick (about 30-40 s with NUMBA_DISABLE_JIT=1; ~6000 inputs, ~2000 of them with a node actually split):
  A  EXHAUSTIVE: 2 leaf samples {0,1}, non-sample internals {2,3} (times 1,2), genome [0,3) in 3 unit
     intervals, each interval carrying any of the 14 forests with parent id > child id (non-sample node
     with a parent has a child) or no edges: 14^3 = 2744 edge tables (adjacent equal edges squashed);
     a site in the middle of every interval with one mutation above EVERY node (so mutations on isolated
     samples, on absent nodes, before the first and beyond the last edge all occur).  Every node owns an
     individual and a population, so those columns are observable on copies.
  B  EXHAUSTIVE: 2 samples, 1 internal, 5 unit intervals, 4 forests each: 4^5 = 1024 tables (nodes with
     three pieces).
  F  EXHAUSTIVE: 1 sample, internals {1,2}, 4 intervals, all 6 forests incl. dangling non-sample leaves:
     6^4 = 1296 tables (a piece that is only ever a child).
  A' 600 seeded draws from the 18^3 tables where internal node 2 is itself a sample (never split).
  E  300 seeded draws from the 46^3 tables on 3 samples + internals {3,4}.
  C  32 msprime simulations (3..6 samples, haploid/diploid, historical samples, full ARG) with 1..4 random
     intervals deleted (simplify=False) and extra sites/mutations placed inside the holes, on isolated
     samples and at the sequence ends; every third one also un-punched.
  D  9 hand-built x 4 tag variants: F4 inputs (mutation on an isolated sample before its first edge; sites at
     and beyond the last edge), no edge at the left end, a node with 4 pieces, abutting edges, unreferenced
     node + nested disjoint parent/child, disjoint unary node, two no-edge inputs (known- clause).
thorough (about 6-10 min, ~61000 inputs): A with 4 intervals (14^4 = 38416), B with 6 (4096), F with 5 (7776),
  A' exhaustive (5832), E 5000 draws, C 200 simulations, D.

Tolerances: none -- all comparisons are exact (ids, intervals, times and states are copied, not computed).

NOT covered: inputs larger than the above; metadata schemas other than the four variants (a schema
failure midway through the split nodes); migrations/populations tables beyond the node column;
record_provenance=True (C33); the JIT-compiled kernels when NUMBA_DISABLE_JIT=1 is set (same source).
"""
import itertools
import json
import logging

import numpy as np
import tskit

import tsdate
from tsdate.util import split_disjoint_nodes

from rt import bounded_api, inputs

SPLIT = int(tsdate.NODE_SPLIT_BY_PREPROCESS)
VARIANTS = ("bytes", "json", "none", "struct")
STRUCT_SCHEMA = {"codec": "struct", "type": "object",
                 "properties": {"tag": {"type": "integer", "binaryFormat": "i"}},
                 "additionalProperties": False}


# ------------------------------------------------------------------------------ tagging / origins
def tag_nodes(ts, variant):
    """Return a copy of ts whose nodes carry a unique tag (see module docstring)."""
    tables = ts.dump_tables()
    n = tables.nodes.num_rows
    if variant == "bytes":
        tables.nodes.metadata_schema = tskit.MetadataSchema(None)
        tables.nodes.packset_metadata([b"n%d" % u for u in range(n)])
    elif variant == "json":
        tables.nodes.metadata_schema = tskit.MetadataSchema.permissive_json()
        tables.nodes.packset_metadata([json.dumps({"tag": u}).encode() for u in range(n)])
    elif variant == "struct":
        schema = tskit.MetadataSchema(STRUCT_SCHEMA)
        tables.nodes.metadata_schema = schema
        tables.nodes.packset_metadata([schema.validate_and_encode_row({"tag": u}) for u in range(n)])
    elif variant == "none":
        tables.nodes.metadata_schema = tskit.MetadataSchema(None)
        tables.nodes.packset_metadata([b""] * n)
    else:
        raise ValueError(variant)
    return tables.tree_sequence()


def times_distinct(ts):
    t = ts.nodes_time[(ts.nodes_flags & tskit.NODE_IS_SAMPLE) == 0]
    return len(set(t.tolist())) == len(t)


def origins(ts_in, ts_out, variant):
    """origin[v] for every output node, read from the tag attribute; None when unreadable."""
    res = []
    if variant == "none":
        by_time = {}
        for u in range(ts_in.num_nodes):
            if not (ts_in.nodes_flags[u] & tskit.NODE_IS_SAMPLE):
                by_time[float(ts_in.nodes_time[u])] = u
        for v in range(ts_out.num_nodes):
            if ts_out.nodes_flags[v] & tskit.NODE_IS_SAMPLE:
                res.append(v if v < ts_in.num_nodes else None)   # samples are never copied
            else:
                res.append(by_time.get(float(ts_out.nodes_time[v])))
        return res
    for v in range(ts_out.num_nodes):
        md = ts_out.node(v).metadata
        try:
            if variant == "bytes":
                res.append(int(bytes(md)[1:].decode()))
            else:
                res.append(int(md["tag"]))
        except Exception:
            res.append(None)
    return res


# ------------------------------------------------------------------------------ table-level oracles
def edge_rows(ts):
    return list(zip(ts.edges_left.tolist(), ts.edges_right.tolist(),
                    ts.edges_parent.tolist(), ts.edges_child.tolist()))


def node_intervals(ts):
    """node -> list of (left, right) of every edge in which it is parent or child."""
    d = {}
    for l, r, p, c in edge_rows(ts):
        d.setdefault(p, []).append((l, r))
        d.setdefault(c, []).append((l, r))
    return d


def components(intervals):
    """Maximal contiguous regions of a union of half-open intervals (abutting intervals are contiguous)."""
    out = []
    for l, r in sorted(intervals):
        if out and l <= out[-1][1]:
            out[-1][1] = max(out[-1][1], r)
        else:
            out.append([l, r])
    return [tuple(x) for x in out]


def parent_map_at(rows, x):
    pm = {}
    for l, r, p, c in rows:
        if l <= x < r:
            if c in pm:
                return None   # two parents at one position: not a tree
            pm[c] = p
    return pm


def present_at(rows, u, x):
    return any(l <= x < r and (p == u or c == u) for l, r, p, c in rows)


def genotypes(ts):
    res = []
    for var in ts.variants(isolated_as_missing=True):
        res.append((var.site.position,
                    tuple(None if g < 0 else var.alleles[g] for g in var.genotypes.tolist())))
    return res


def mut_key(ts, m, node):
    t = ts.mutations_time[m]
    return (node, ts.mutation(m).derived_state, None if tskit.is_unknown_time(t) else float(t),
            bytes(ts.tables.mutations[m].metadata) if False else repr(ts.mutation(m).metadata))


# ------------------------------------------------------------------------------ the contract
def check_one(rep, key, desc, ts, variant):
    """Evaluate every clause of the C29 contract for one tagged input."""
    def case(clause, ok, observed=None, expected=None):
        d = desc if ok else dict(desc, variant=variant, ts=bounded_api.ts_to_json(ts))
        rep.case(clause, bool(ok), key=key, input=d, observed=observed, expected=expected)

    runs_clause = "returns-a-tree-sequence" if ts.num_edges > 0 else "known-no-edge-input-returns-a-tree-sequence"
    try:
        out = split_disjoint_nodes(ts, record_provenance=False)
    except BaseException as e:  # noqa: BLE001  (AssertionError, IndexError, LibraryError, ...)
        case(runs_clause, False, observed=f"{type(e).__name__}: {e}", expected="a tree sequence")
        return None
    case(runs_clause, True)

    N = ts.num_nodes
    is_sample_in = (ts.nodes_flags & tskit.NODE_IS_SAMPLE) != 0
    org = origins(ts, out, variant)
    rows_in, rows_out = edge_rows(ts), edge_rows(out)

    # ---- origin readable, original ids kept
    bad = [v for v, o in enumerate(org) if o is None or not (0 <= o < N)]
    if bad:
        case("original-ids-kept-leftmost-piece", False, observed={"unreadable_origin": bad[:5]},
             expected="every output node descends from an input node")
        return out
    ids_kept = all(org[v] == v for v in range(min(N, out.num_nodes))) and out.num_nodes >= N

    # ---- local trees
    bps = sorted({0.0, float(ts.sequence_length)} | {x for r in rows_in + rows_out for x in r[:2]})
    tree_ok, tree_obs = out.sequence_length == ts.sequence_length, None
    for a in bps[:-1]:
        pin, pout = parent_map_at(rows_in, a), parent_map_at(rows_out, a)
        if pout is None:
            tree_ok, tree_obs = False, {"pos": a, "out": "node with two parents"}
            break
        mapped = {org[c]: org[p] for c, p in pout.items()}
        alive = {u for e in pout.items() for u in e}
        if len(mapped) != len(pout) or len({org[u] for u in alive}) != len(alive) or mapped != pin:
            tree_ok, tree_obs = False, {"pos": a, "out_mapped": sorted(mapped.items()), "out_raw": sorted(pout.items())}
            tree_exp = sorted(pin.items())
            break
    case("local-tree-equals-input-after-mapping", tree_ok, observed=tree_obs,
         expected=None if tree_ok else locals().get("tree_exp"))

    # ---- contiguity and pieces
    iv_in, iv_out = node_intervals(ts), node_intervals(out)
    noncontig = [v for v in range(out.num_nodes)
                 if not (out.nodes_flags[v] & tskit.NODE_IS_SAMPLE) and len(components(iv_out.get(v, []))) > 1]
    case("nonsample-ancestry-contiguous", not noncontig, observed={"nodes": noncontig[:5]}, expected="none")

    pieces_ok, pieces_obs, left_ok, left_obs = True, None, ids_kept, None if ids_kept else {"origin_of_first_ids": org[:N]}
    by_origin = {}
    for v, o in enumerate(org):
        by_origin.setdefault(o, []).append(v)
    n_pieces = {}
    for u in range(N):
        comps = components(iv_in.get(u, []))
        expect = comps if not is_sample_in[u] else ([comps] if comps else [])   # a sample keeps all its regions
        got_nodes = by_origin.get(u, [])
        n_pieces[u] = len(got_nodes)
        if is_sample_in[u] or not comps:
            ok_u = got_nodes == [u] and components(iv_out.get(u, [])) == comps
            got = [components(iv_out.get(v, [])) for v in got_nodes]
        else:
            got = sorted(tuple(components(iv_out.get(v, []))) for v in got_nodes)
            ok_u = got == sorted((c,) for c in comps)
            if ok_u and len(got_nodes) > 1:
                first = min(got_nodes, key=lambda v: components(iv_out[v])[0][0])
                if first != u:
                    left_ok, left_obs = False, {"node": u, "leftmost_piece_id": first}
        if not ok_u and pieces_ok:
            pieces_ok, pieces_obs = False, {"node": u, "pieces": got, "output_nodes": got_nodes}
            pieces_exp = expect
    case("pieces-are-the-maximal-contiguous-regions", pieces_ok, observed=pieces_obs,
         expected=None if pieces_ok else locals().get("pieces_exp"))
    case("original-ids-kept-leftmost-piece", left_ok, observed=left_obs, expected="origin(v)=v for v<N; id kept by leftmost piece")

    # ---- node attributes
    attr_ok, attr_obs = True, None
    md_ok, md_obs = True, None
    input_has_split_bits = bool(np.any(ts.nodes_flags & SPLIT))
    for v, o in enumerate(org):
        a, b = out.node(v), ts.node(o)
        was_split = n_pieces.get(o, 1) > 1
        same = (a.time == b.time and a.population == b.population and a.individual == b.individual
                and (a.flags & ~SPLIT) == (b.flags & ~SPLIT))
        if not input_has_split_bits:
            same = same and (bool(a.flags & SPLIT) == was_split)
        if not same and attr_ok:
            attr_ok, attr_obs = False, {"node": v, "origin": o, "out": [a.time, a.population, a.individual, a.flags],
                                        "in": [b.time, b.population, b.individual, b.flags], "origin_was_split": was_split}
        exp_md = b.metadata
        if variant == "json" and was_split:
            exp_md = dict(b.metadata, unsplit_node_id=o)
        if a.metadata != exp_md and md_ok:
            md_ok, md_obs = False, {"node": v, "origin": o, "out": repr(a.metadata), "expected": repr(exp_md)}
    case("copies-keep-node-attributes", attr_ok, observed=attr_obs, expected="equal to origin (+split bit iff split)")
    case("metadata-copied-and-unsplit-node-id", md_ok and out.table_metadata_schemas.node == ts.table_metadata_schemas.node,
         observed=md_obs, expected="see observed.expected")

    # ---- mutations
    mut_ok, mut_obs = out.tables.sites.equals(ts.tables.sites) and out.num_mutations == ts.num_mutations, None
    if not mut_ok:
        mut_obs = {"sites_equal": out.tables.sites.equals(ts.tables.sites), "num_mutations": [ts.num_mutations, out.num_mutations]}
    else:
        per_in, per_out = {}, {}
        for m in range(ts.num_mutations):
            per_in.setdefault(int(ts.mutations_site[m]), []).append(mut_key(ts, m, int(ts.mutations_node[m])))
        for m in range(out.num_mutations):
            node = int(out.mutations_node[m])
            if not (0 <= node < out.num_nodes):
                mut_ok, mut_obs = False, {"mutation": m, "node": node}
                break
            s = int(out.mutations_site[m])
            per_out.setdefault(s, []).append(mut_key(out, m, org[node]))
            x = float(ts.sites_position[s])
            if present_at(rows_in, org[node], x) and not present_at(rows_out, node, x):
                mut_ok, mut_obs = False, {"mutation": m, "site_pos": x, "node": node, "origin": org[node],
                                          "why": "origin has an edge here but the chosen piece has none"}
                break
        if mut_ok:
            for s in set(per_in) | set(per_out):
                if sorted(per_in.get(s, []), key=repr) != sorted(per_out.get(s, []), key=repr):
                    mut_ok, mut_obs = False, {"site": s, "in": sorted(per_in.get(s, []), key=repr),
                                              "out_mapped": sorted(per_out.get(s, []), key=repr)}
                    break
    case("mutations-keep-site-and-follow-their-node", mut_ok, observed=mut_obs, expected="same (origin node, state) multiset per site")

    # ---- genotypes
    try:
        g_in, g_out = genotypes(ts), genotypes(out)
        g_ok = g_in == g_out and np.array_equal(out.samples(), ts.samples())
        g_obs = None if g_ok else next(({"in": a, "out": b} for a, b in zip(g_in, g_out) if a != b),
                                       {"num_sites": [len(g_in), len(g_out)]})
    except Exception as e:  # noqa: BLE001
        g_ok, g_obs = False, f"{type(e).__name__}: {e}"
    case("genotypes-unchanged", g_ok, observed=g_obs, expected="identical")

    # ---- idempotence
    try:
        out2 = split_disjoint_nodes(out, record_provenance=False)
        idem = out2.tables.equals(out.tables, ignore_provenance=True, ignore_timestamps=True)
        idem_obs = None if idem else {"num_nodes": [out.num_nodes, out2.num_nodes],
                                      "edges_equal": out2.tables.edges.equals(out.tables.edges),
                                      "nodes_equal": out2.tables.nodes.equals(out.tables.nodes),
                                      "mutations_equal": out2.tables.mutations.equals(out.tables.mutations)}
    except BaseException as e:  # noqa: BLE001
        idem, idem_obs = False, f"{type(e).__name__}: {e}"
    case("second-application-is-identity", idem, observed=idem_obs, expected="tables equal")
    return out


# ------------------------------------------------------------------------------ input families
def forest_options(n_leaf, internals, internal_sample=(), dangling=False):
    """All child->parent maps on nodes 0..n_leaf+len(internals)-1 with parent an internal node of
    larger id; unless `dangling`, a NON-sample internal node may have a parent only if it has a child."""
    nodes = list(range(n_leaf + len(internals)))
    opts = [[None] + [p for p in internals if p > c] for c in nodes]
    res = []
    for combo in itertools.product(*opts):
        pm = {c: p for c, p in zip(nodes, combo) if p is not None}
        if dangling or all((u in pm.values()) or (u in internal_sample) for u in pm if u >= n_leaf):
            res.append(pm)
    return res


def forests_to_ts(forests, n_leaf, n_internal, internal_sample=(), mutate=True):
    """Tree sequence on [0, len(forests)) whose k-th unit interval carries forests[k]; adjacent equal
    edges are squashed.  A site sits at k+0.5 with one mutation above every node (oldest node first)."""
    L = len(forests)
    tables = tskit.TableCollection(float(L))
    n = n_leaf + n_internal
    for _ in range(2):
        tables.populations.add_row()
    for u in range(n):   # every node (internal ones too) owns an individual and a population
        tables.individuals.add_row(flags=u)
        tables.nodes.add_row(flags=tskit.NODE_IS_SAMPLE if (u < n_leaf or u in internal_sample) else 0,
                             time=0.0 if u < n_leaf else float(u - n_leaf + 1), population=u % 2, individual=u)
    for c in range(n):
        k = 0
        while k < L:
            p = forests[k].get(c)
            if p is None:
                k += 1
                continue
            j = k
            while j + 1 < L and forests[j + 1].get(c) == p:
                j += 1
            tables.edges.add_row(float(k), float(j + 1), p, c)
            k = j + 1
    if mutate:
        for k in range(L):
            s = tables.sites.add_row(k + 0.5, "A")
            for u in reversed(range(n)):
                tables.mutations.add_row(s, u, derived_state="n%d" % u)
    tables.sort()
    tables.build_index()
    tables.compute_mutation_parents()
    return tables.tree_sequence()


def punch_holes(ts, rng, n_holes):
    """Delete n_holes random intervals (no simplify) and add sites with mutations inside the holes, at
    the very start and at the very end: mutations on isolated samples, on absent internal nodes, before
    the first and beyond the last edge."""
    L = ts.sequence_length
    cuts = np.sort(rng.choice(np.arange(1, int(L)), size=2 * n_holes, replace=False)).astype(float)
    ivs = [(cuts[2 * i], cuts[2 * i + 1]) for i in range(n_holes)]
    if rng.random() < 0.5:
        ivs[0] = (0.0, ivs[0][1])          # no edge at the left end
    if rng.random() < 0.5 and ivs[-1][0] > 0:
        ivs[-1] = (ivs[-1][0], float(L))    # no edge at the right end (never the whole genome)
    tables = ts.dump_tables()
    tables.delete_intervals(ivs, simplify=False, record_provenance=False)
    tables.mutations.time = np.full(tables.mutations.num_rows, tskit.UNKNOWN_TIME)
    used = set(tables.sites.position.tolist())
    nodes = np.arange(ts.num_nodes)
    for (a, b) in ivs:
        for frac in (0.25, 0.75):
            x = float(a + (b - a) * frac)
            if x in used:
                continue
            used.add(x)
            s = tables.sites.add_row(x, "A")
            for u in sorted(rng.choice(nodes, size=min(3, len(nodes)), replace=False).tolist(),
                            key=lambda u: -ts.nodes_time[u]):
                tables.mutations.add_row(s, int(u), derived_state="h%d" % u)
    tables.sort()
    tables.build_index()
    tables.compute_mutation_parents()
    return tables.tree_sequence(), ivs


def handbuilt():
    """(name, ts) pairs: the F4 inputs and other pathological shapes."""
    res = []

    def mk(L, nodes, edges, muts):
        t = tskit.TableCollection(L)
        for fl, tm in nodes:
            t.nodes.add_row(flags=fl, time=tm)
        for e in edges:
            t.edges.add_row(*e)
        for x, ms in muts:
            s = t.sites.add_row(x, "A")
            for u in ms:
                t.mutations.add_row(s, u, derived_state="n%d" % u)
        t.sort()
        t.build_index()
        t.compute_mutation_parents()
        return t.tree_sequence()

    S = tskit.NODE_IS_SAMPLE
    # F4a: sample 2 is isolated on [0,5) and carries a mutation there (before its first edge)
    res.append(("F4-mutation-on-isolated-sample-before-first-edge",
                mk(10, [(S, 0), (S, 0), (S, 0), (0, 1), (0, 2)],
                   [(0, 10, 3, 0), (0, 10, 3, 1), (5, 10, 4, 2), (5, 10, 4, 3)], [(2.0, [2]), (7.0, [4, 2])])))
    # F4b: sites at and beyond the right end of the last edge
    res.append(("F4-site-beyond-last-edge",
                mk(10, [(S, 0), (S, 0), (0, 1)], [(0, 6, 2, 0), (0, 6, 2, 1)], [(3.0, [2]), (6.0, [0]), (8.5, [2, 1])])))
    # first edge starts late, mutation on a non-sample node before any edge exists
    res.append(("no-edge-at-left-end",
                mk(10, [(S, 0), (S, 0), (0, 1)], [(4, 10, 2, 0), (4, 10, 2, 1)], [(0.0, [2, 0]), (1.0, [1]), (5.0, [2])])))
    # a node with four pieces, mutations in every piece and in every gap
    res.append(("four-pieces",
                mk(9, [(S, 0), (S, 0), (0, 1), (0, 2)],
                   [(0, 1, 2, 0), (0, 1, 2, 1), (2, 3, 2, 0), (2, 3, 2, 1), (4, 5, 2, 0), (4, 5, 2, 1), (6, 9, 2, 0),
                    (6, 9, 2, 1), (1, 2, 3, 0), (1, 2, 3, 1), (3, 4, 3, 0), (3, 4, 3, 1), (5, 6, 3, 0), (5, 6, 3, 1)],
                   [(k + 0.5, [3, 2, 0]) for k in range(9)])))
    # pieces that only touch through DIFFERENT children are contiguous (no split expected)
    res.append(("abutting-edges-are-contiguous",
                mk(4, [(S, 0), (S, 0), (S, 0), (0, 1)], [(0, 2, 3, 0), (0, 4, 3, 1), (2, 4, 3, 2)], [(1.0, [3]), (3.0, [3])])))
    # unreferenced non-sample node carrying a mutation; disjoint parent AND child in the same edges
    res.append(("unreferenced-node-and-nested-disjoint",
                mk(6, [(S, 0), (S, 0), (0, 1), (0, 2), (0, 3)],
                   [(0, 2, 2, 0), (0, 2, 2, 1), (0, 2, 3, 2), (4, 6, 2, 0), (4, 6, 2, 1), (4, 6, 3, 2)],
                   [(1.0, [4, 3, 2]), (3.0, [4, 3, 2, 1]), (5.0, [3, 2, 0])])))
    # unary non-sample node, disjoint
    res.append(("disjoint-unary",
                mk(3, [(S, 0), (0, 1), (0, 2)], [(0, 1, 1, 0), (2, 3, 1, 0), (0, 3, 2, 1) if False else (0, 1, 2, 1), (2, 3, 2, 1)],
                   [(0.5, [2, 1, 0]), (1.5, [2, 1, 0]), (2.5, [2, 1, 0])])))
    # inputs without any edge (known- clause)
    res.append(("no-edges-with-mutations", mk(10, [(S, 0), (S, 0), (0, 1)], [], [(3.0, [0]), (4.0, [2])])))
    res.append(("no-edges-no-sites", mk(10, [(S, 0), (S, 0)], [], [])))
    return res


def sim_inputs(seed, count):
    """(name, builder-args) for family C."""
    for i in range(count):
        kind = i % 4
        if kind == 0:
            base = inputs.sim(seed * 1000 + i, n=int(3 + i % 4), L=200, rec=2e-2, mu=1e-2)
        elif kind == 1:
            base = inputs.sim(seed * 1000 + i, n=3, L=200, rec=2e-2, mu=1e-2, ploidy=2)
        elif kind == 2:
            import msprime
            s = [msprime.SampleSet(3, time=0, ploidy=1), msprime.SampleSet(2, time=20, ploidy=1)]
            base = msprime.sim_ancestry(s, sequence_length=200, recombination_rate=2e-2, population_size=100,
                                        random_seed=seed * 1000 + i + 3)
            base = msprime.sim_mutations(base, rate=1e-2, random_seed=seed * 1000 + i + 11)
        else:
            import msprime
            base = msprime.sim_ancestry(4, ploidy=1, sequence_length=200, recombination_rate=2e-2, population_size=100,
                                        random_seed=seed * 1000 + i + 5, record_full_arg=(i % 8 == 3))
            base = msprime.sim_mutations(base, rate=1e-2, random_seed=seed * 1000 + i + 13)
        yield i, kind, base


# ------------------------------------------------------------------------------ driver
def run(req, rep):
    tier, seed = req["tier"], int(req["seed"])
    thorough = tier == "thorough"
    rng = np.random.default_rng(seed)
    logging.getLogger("tsdate").setLevel(logging.ERROR)   # "Could not set 'unsplit_node_id'" is expected
    logging.getLogger("tsdate.util").setLevel(logging.ERROR)

    nA, nB, nF, nE = (4, 6, 5, 5000) if thorough else (3, 5, 4, 300)
    rep.space = ("split_disjoint_nodes on: [A] all edge tables with 2 leaf samples + non-sample internals {2,3} over "
                 f"{nA} unit intervals (14 forests per interval), a mutation above every node at a site in every "
                 f"interval; [B] all tables with 2 samples + 1 internal over {nB} intervals; [A'] tables with an "
                 "internal SAMPLE node; [C] msprime simulations with random deleted intervals and extra mutations in "
                 "the holes / at both ends; [D] hand-built F4 and pathological inputs; node-tag variants "
                 "bytes/json/none/struct rotate over the inputs")
    rep.exhaustive = False
    counts = {}
    changed = [0]

    def go(key, desc, ts, variant):
        if variant == "none" and not times_distinct(ts):
            variant = "bytes"
        out = check_one(rep, key, desc, tag_nodes(ts, variant), variant)
        if out is not None and out.num_nodes > ts.num_nodes:
            changed[0] += 1

    # ---- A: exhaustive
    optsA = forest_options(2, [2, 3])
    k = 0
    for combo in itertools.product(range(len(optsA)), repeat=nA):
        ts = forests_to_ts([optsA[i] for i in combo], 2, 2)
        go(f"A{combo}", {"family": "A", "forest_index_per_interval": list(combo),
                         "forests": [sorted(optsA[i].items()) for i in combo]}, ts, VARIANTS[k % 4])
        k += 1
    counts["A"] = k

    # ---- B: long and thin, exhaustive
    optsB = forest_options(2, [2])
    k = 0
    for combo in itertools.product(range(len(optsB)), repeat=nB):
        ts = forests_to_ts([optsB[i] for i in combo], 2, 1)
        go(f"B{combo}", {"family": "B", "forest_index_per_interval": list(combo)}, ts, VARIANTS[(k + 1) % 4])
        k += 1
    counts["B"] = k

    # ---- A': internal node 2 is a sample
    optsS = forest_options(2, [2, 3], internal_sample=(2,))
    allS = list(itertools.product(range(len(optsS)), repeat=3))
    pick = allS if thorough else [allS[i] for i in sorted(rng.choice(len(allS), size=600, replace=False).tolist())]
    for k, combo in enumerate(pick):
        ts = forests_to_ts([optsS[i] for i in combo], 2, 2, internal_sample=(2,))
        go(f"A'{combo}", {"family": "A'", "forest_index_per_interval": list(combo)}, ts, VARIANTS[(k + 2) % 4])
    counts["A'"] = len(pick)

    # ---- F: one sample, internals {1,2}, dangling non-sample leaves allowed, exhaustive
    optsF = forest_options(1, [1, 2], dangling=True)
    k = 0
    for combo in itertools.product(range(len(optsF)), repeat=nF):
        ts = forests_to_ts([optsF[i] for i in combo], 1, 2)
        go(f"F{combo}", {"family": "F", "forest_index_per_interval": list(combo)}, ts, VARIANTS[(k + 3) % 4])
        k += 1
    counts["F"] = k

    # ---- E: 3 samples + 2 internals, random draws
    if True:
        opts3 = forest_options(3, [3, 4])
        for k in range(nE):
            combo = tuple(int(x) for x in rng.integers(0, len(opts3), size=3))
            ts = forests_to_ts([opts3[i] for i in combo], 3, 2)
            go(f"E{combo}", {"family": "E(3 samples, internals {3,4})", "forest_index_per_interval": list(combo)}, ts,
               VARIANTS[k % 4])
        counts["E"] = nE

    # ---- C: simulations with holes
    nsim = 200 if thorough else 32
    for i, kind, base in sim_inputs(seed, nsim):
        holes = int(rng.integers(1, 5))
        ts, ivs = punch_holes(base, rng, holes)
        go(f"C{i}", {"family": "C", "req_seed": seed, "index": i, "kind": kind, "deleted": ivs}, ts, VARIANTS[i % 4])
        if i % 3 == 0:   # the un-punched simulation as well (naturally disjoint ancestors)
            go(f"C{i}-plain", {"family": "C-plain", "req_seed": seed, "index": i, "kind": kind}, base, VARIANTS[(i + 1) % 4])
    counts["C"] = nsim

    # ---- D: hand-built
    for j, (name, ts) in enumerate(handbuilt()):
        for variant in VARIANTS:
            go(f"D-{name}-{variant}", {"family": "D", "name": name}, ts, variant)
    counts["D"] = len(handbuilt())

    rep.bound = (f"A: 14^{nA}={counts['A']} tables (exhaustive); B: 4^{nB}={counts['B']} (exhaustive); A': {counts['A\'']}"
                 f"{' (exhaustive)' if thorough else ' seeded draws of 5832'}; "
                 + f"F: 6^{nF}={counts['F']} (exhaustive); E: {counts['E']} draws of 46^3; "
                 + f"C: {counts['C']} simulations (<= 6 samples, L=200, 1-4 holes); D: {counts['D']} hand-built x 4 variants")
    rep.notes.append(f"inputs where at least one node was actually split: {changed[0]}")
    rep.notes.append("families A and B are enumerated exhaustively; the module as a whole is not exhaustive")


if __name__ == "__main__":
    bounded_api.main(run)
