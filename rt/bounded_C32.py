"""
Bounded stand-in for C32 -- "Time metadata writing follows the set_metadata policy".

Decision table written from the statement, evaluated on the real tsdate.date for every cell of
  (node-table codec case) x (mutation-table codec case) x set_metadata in {False, None, True} x method.
Each table of each call is classified BY CONSTRUCTION of the input (not by asking tsdate):
  empty         neither schema nor metadata
  compatible    the existing schema can encode the row's fields plus numeric mn/vr
  incompatible  anything else (raw bytes without schema, schema that forbids/mistypes mn or vr, struct without them)
and "writable" means the method produces posterior variances for that table (nodes: variational_gamma and
inside_outside; mutations: variational_gamma only).
Clauses (one obligation each):
  false-leaves-metadata-and-schema-untouched        set_metadata=False: metadata bytes, offsets and schema identical
  method-without-posteriors-leaves-untouched        non-writable table (maximization; mutations under inside_outside):
                                                    identical whatever set_metadata is
  empty-table-gets-mn-vr                            None/True, empty: every row decodes to exactly {mn, vr}
  compatible-schema-merges-and-keeps-other-fields   None/True, compatible: schema unchanged, every row has mn and vr, all
                                                    other fields of every row equal the input's
  none-incompatible-untouched-and-warns             None, incompatible: table identical AND the call logs one more WARNING
                                                    (logger hierarchy "tsdate") per such table than the same call with
                                                    set_metadata=False does
  true-incompatible-cleared-default-schema          True, incompatible: every row decodes to exactly {mn, vr}; the schema
                                                    is a JSON object schema declaring numeric mn and vr (the default)
  written-rows-all-carry-numeric-mn-vr              whenever the table differs from the input, EVERY row carries mn and vr
                                                    and both are numbers (NaN allowed: mutations above a root)
  policy-call-completes                             the call does not raise inside the metadata-writing step; a call
                                                    that raises elsewhere (e.g. input rejection) is not a case
  known-non-object-json-rows-crash-metadata-writing KNOWN defect of the unchanged code, kept apart from
                                                    policy-call-completes: a writable table whose JSON schema does not
                                                    force rows to be objects ({"codec": "json"}) and whose rows are
                                                    JSON lists makes set_time_metadata call .update() on a list ->
                                                    AttributeError out of date() for set_metadata None and True (False
                                                    is fine).  Expected per the statement: None -> untouched + warning,
                                                    True -> cleared + default schema.  Recognised by: codec case
                                                    "json-untyped-list-rows" on a writable table + AttributeError raised
                                                    under set_time_metadata.
All comparisons are exact (bytes / decoded values); values of mn/vr are C04's subject and are not compared here.

Codec cases (13): none | raw bytes, no schema | permissive JSON with fields | permissive JSON, no metadata |
permissive JSON, some rows empty | permissive JSON already holding mn/vr | restrictive JSON (additionalProperties
false) without mn/vr | restrictive JSON without mn/vr and no metadata | restrictive JSON with numeric mn/vr |
JSON with mn typed as string | struct without mn/vr | struct with double mn/vr | untyped JSON ({"codec":"json"})
whose rows are lists, not objects.
Inputs: a 4-leaf tree shape with a mutation above the root (NaN posterior), infinite-sites msprime simulations
(haploid, diploid), all with at most one mutation per site so that the known within-site row permutation (6-F11,
see C02/C04) cannot interfere.
  quick: 2 inputs x 26 (node case, mutation case) pairs [case i with i and i+5] x 3 set_metadata x 3 methods
         (~470 date() calls); thorough: 3 inputs x all 169 pairs x 3 x 3 (~4600 calls).
The space of codec cases is enumerated, the (node, mutation) pairing is exhaustive in thorough.

NOT covered: schemas tskit itself cannot load; top-level/other tables (C02); values (C04); the CLI flag.
"""
import logging
import traceback
import warnings

import msprime
import numpy as np
import tskit

from rt import bounded_api, inputs

PERM = {"codec": "json", "type": "object"}
RESTR = {"codec": "json", "type": "object", "properties": {"name": {"type": "string"}},
         "additionalProperties": False}
RESTR_MNVR = {"codec": "json", "type": "object", "required": ["name"], "additionalProperties": False,
              "properties": {"name": {"type": "string"}, "mn": {"type": "number"}, "vr": {"type": "number"}}}
MN_STRING = {"codec": "json", "type": "object", "properties": {"mn": {"type": "string"}}}
STRUCT = {"codec": "struct", "type": "object", "properties": {"a": {"type": "integer", "binaryFormat": "i"}}}
STRUCT_MNVR = {"codec": "struct", "type": "object", "properties": {
    "a": {"type": "integer", "binaryFormat": "i"}, "mn": {"type": "number", "binaryFormat": "d"},
    "vr": {"type": "number", "binaryFormat": "d"}}}
UNTYPED = {"codec": "json"}

# name -> (schema dict or None, row generator i -> python object / bytes / None for "empty bytes", class)
CASES = {
    "none": (None, None, "empty"),
    "raw-bytes": (None, lambda i: b"\x00raw%d" % i, "incompatible"),
    "json-fields": (PERM, lambda i: {"name": f"r{i}", "k": [i]}, "compatible"),
    "json-no-metadata": (PERM, None, "compatible"),
    "json-some-empty": (PERM, lambda i: ({"name": f"r{i}"} if i % 2 else None), "compatible"),
    "json-has-mnvr": (PERM, lambda i: {"name": f"r{i}", "mn": -1.0, "vr": "old"}, "compatible"),
    "json-restrictive": (RESTR, lambda i: {"name": f"r{i}"}, "incompatible"),
    "json-restrictive-no-metadata": (RESTR, None, "incompatible"),
    "json-restrictive-with-mnvr": (RESTR_MNVR, lambda i: {"name": f"r{i}"}, "compatible"),
    "json-mn-string": (MN_STRING, lambda i: {"mn": "x", "other": i}, "incompatible"),
    "struct": (STRUCT, lambda i: {"a": i}, "incompatible"),
    "struct-with-mnvr": (STRUCT_MNVR, lambda i: {"a": i, "mn": 0.0, "vr": 0.0}, "compatible"),
    "json-untyped-list-rows": (UNTYPED, lambda i: [i, "x"], "incompatible"),
}
NAMES = list(CASES)
KNOWN_NONOBJECT = "known-non-object-json-rows-crash-metadata-writing"


def apply_case(table, name):
    schema, gen, _ = CASES[name]
    sch = tskit.MetadataSchema(schema) if schema is not None else None
    if sch is not None:
        table.metadata_schema = sch
    if gen is None:
        return
    rows = []
    for i in range(table.num_rows):
        r = gen(i)
        if r is None:
            rows.append(b"")
        elif sch is None:
            rows.append(r)
        else:
            rows.append(sch.validate_and_encode_row(r))
    table.packset_metadata(rows)


def base_inputs(seed, tier):
    out = []
    shape = ((0, 1), (2, 3))
    ts = inputs.tree_to_ts(shape, mutations={0: 1, 1: 2, 2: 1, 4: 2, 5: 1, 6: 1})  # node 6 is the root
    out.append(("shape4+rootmut", ts, 0.1, 1.0))
    for k in range(2 if tier == "thorough" else 1):
        a = msprime.sim_ancestry(3 + k, ploidy=2 if k % 2 == 0 else 1, sequence_length=300, population_size=100,
                                 recombination_rate=(2e-4 if k else 0), random_seed=seed * 50 + k + 1)
        m = msprime.sim_mutations(a, rate=4e-4, random_seed=seed * 50 + k + 9, discrete_genome=False)
        out.append((f"infsites{k}", m, 4e-4, 100.0))
    return [x for x in out if x[1].num_mutations > 0]


class Capture(logging.Handler):
    def __init__(self):
        super().__init__(level=logging.WARNING)
        self.records = []

    def emit(self, record):
        if record.levelno >= logging.WARNING:
            self.records.append(record.getMessage())


def call(ts, method, mu, ne, sm):
    """-> (out | None, warnings list, error string | None, raised_in_metadata_step)"""
    import tsdate
    kw = {"set_metadata": sm} if sm is not None else {}
    if method == "variational_gamma":
        kw.update(max_iterations=3, rescaling_intervals=3)
    else:
        kw["population_size"] = ne
    cap = Capture()
    lg = logging.getLogger("tsdate")
    root = logging.getLogger()  # records of tsdate.* propagate to the root logger's handlers (counted once, here)
    old = lg.level
    lg.setLevel(logging.WARNING)
    root.addHandler(cap)
    try:
        with warnings.catch_warnings():
            warnings.simplefilter("ignore")
            with np.errstate(all="ignore"):
                out = tsdate.date(ts, mutation_rate=mu, method=method, **kw)
        return out, cap.records, None, False
    except Exception as e:  # noqa: BLE001
        frames = [f.name for f in traceback.extract_tb(e.__traceback__)]
        return None, cap.records, f"{type(e).__name__}: {str(e)[:200]}", "set_time_metadata" in frames
    finally:
        root.removeHandler(cap)
        lg.setLevel(old)


def raw(table):
    return (bytes(table.metadata.tobytes()), table.metadata_offset.tolist(), repr(table.metadata_schema))


def decoded(table):
    return [r.metadata for r in table]


def is_default_like(schema):
    s = schema.schema
    if not s or s.get("codec") != "json" or s.get("type") != "object":
        return False
    props = s.get("properties", {})
    return all(props.get(k, {}).get("type") == "number" for k in ("mn", "vr"))


def is_num(x):
    return isinstance(x, (int, float)) and not isinstance(x, bool)


def check_table(rep, tname, case_name, tin, tout, sm, writable, extra_warnings, n_incompat_writable, key, desc):
    klass = CASES[case_name][2]
    k = f"{key}|{tname}"
    same = raw(tin) == raw(tout)
    if not same:  # something was written: every row must carry numeric mn and vr
        try:
            rows = decoded(tout)
            ok = all(isinstance(r, dict) and is_num(r.get("mn")) and is_num(r.get("vr")) for r in rows)
        except Exception as e:  # noqa: BLE001
            rows, ok = f"undecodable: {e}", False
        rep.case("written-rows-all-carry-numeric-mn-vr", ok, key=k, input=desc,
                 observed=(rows[:3] if isinstance(rows, list) else rows), expected="every row has numeric mn and vr")
    if sm is False:
        rep.case("false-leaves-metadata-and-schema-untouched", same, key=k, input=desc,
                 observed="table metadata/schema changed", expected="identical")
        return
    if not writable:
        rep.case("method-without-posteriors-leaves-untouched", same, key=k, input=desc,
                 observed="table metadata/schema changed", expected="identical")
        return
    if klass == "empty":
        rows = decoded(tout) if tout.metadata_schema.schema is not None else None
        ok = rows is not None and all(isinstance(r, dict) and set(r) == {"mn", "vr"} for r in rows)
        rep.case("empty-table-gets-mn-vr", ok, key=k, input=desc, observed=(rows or "no schema")[:3],
                 expected="every row == {mn, vr}")
    elif klass == "compatible":
        rin, rout = decoded(tin), decoded(tout)
        strip = lambda d: {a: b for a, b in d.items() if a not in ("mn", "vr")}  # noqa: E731
        ok = (tin.metadata_schema == tout.metadata_schema and len(rin) == len(rout)
              and all(isinstance(o, dict) and "mn" in o and "vr" in o and strip(o) == strip(i)
                      for i, o in zip(rin, rout)))
        rep.case("compatible-schema-merges-and-keeps-other-fields", ok, key=k, input=desc,
                 observed=[(i, o) for i, o in zip(rin, rout)][:2], expected="schema unchanged; row = input row + mn, vr")
    elif sm is None:
        ok = same and extra_warnings == n_incompat_writable
        rep.case("none-incompatible-untouched-and-warns", ok, key=k, input=desc,
                 observed={"untouched": same, "extra WARNING records vs set_metadata=False": extra_warnings},
                 expected={"untouched": True, "extra WARNING records": n_incompat_writable})
    else:
        try:
            rows = decoded(tout)
        except Exception as e:  # noqa: BLE001
            rows = [f"undecodable: {e}"]
        ok = is_default_like(tout.metadata_schema) and all(isinstance(r, dict) and set(r) == {"mn", "vr"} for r in rows)
        rep.case("true-incompatible-cleared-default-schema", ok, key=k, input=desc,
                 observed={"schema": repr(tout.metadata_schema)[:200], "rows": rows[:3]},
                 expected="default JSON schema (numeric mn, vr); every row == {mn, vr}")


def run(req, rep):
    tier, seed = req["tier"], int(req["seed"])
    thorough = tier == "thorough"
    rep.space = ("real tsdate.date(): 13 node-table codec cases x 13 mutation-table codec cases (none, raw bytes, "
                 "permissive/restrictive/mistyped/untyped JSON, struct; with and without existing metadata and mn/vr) x "
                 "set_metadata {False, None, True} x 3 methods on small single-mutation-per-site inputs")
    base = base_inputs(seed, tier)
    if not thorough:
        base = base[:2]
    pairs = [(a, b) for a in NAMES for b in NAMES] if thorough else \
        sorted({(NAMES[i], NAMES[(i + s) % len(NAMES)]) for i in range(len(NAMES)) for s in (0, 5)})
    rep.exhaustive = thorough
    calls, raised = 0, {}
    for bname, ts0, mu, ne in base:
        contemporary = bool(np.all(ts0.nodes_time[ts0.samples()] == 0))
        for ncase, mcase in pairs:
            tables = ts0.dump_tables()
            apply_case(tables.nodes, ncase)
            apply_case(tables.mutations, mcase)
            ts = tables.tree_sequence()
            tin = ts.dump_tables()
            for method in (("variational_gamma", "inside_outside", "maximization") if contemporary
                           else ("variational_gamma",)):
                writable = {"nodes": method != "maximization", "mutations": method == "variational_gamma"}
                n_incompat = sum(1 for t, c in (("nodes", ncase), ("mutations", mcase))
                                 if writable[t] and CASES[c][2] == "incompatible")
                results = {}
                for sm in (False, None, True):
                    calls += 1
                    results[sm] = call(ts, method, mu, ne, sm)
                base_warn = len(results[False][1])
                for sm in (False, None, True):
                    out, warns, err, in_md = results[sm]
                    key = f"{bname}|nodes={ncase}|mutations={mcase}|{method}|set_metadata={sm}"
                    desc = {"base": bname, "node_case": ncase, "mutation_case": mcase, "method": method,
                            "set_metadata": sm, "mutation_rate": mu, "population_size": ne,
                            "node_schema": CASES[ncase][0], "mutation_schema": CASES[mcase][0],
                            "ts": bounded_api.ts_to_json(ts0)}
                    if err is not None:
                        raised[err[:60]] = raised.get(err[:60], 0) + 1
                        if in_md:
                            nonobj = [t for t, c in (("nodes", ncase), ("mutations", mcase))
                                      if c == "json-untyped-list-rows" and writable[t]]
                            clause = KNOWN_NONOBJECT if (nonobj and "AttributeError" in err) else "policy-call-completes"
                            rep.case(clause, False, key=key, input=desc, observed=err,
                                     expected="date() returns; the table is handled per the set_metadata policy")
                        continue
                    rep.case("policy-call-completes", True, key=key, input=desc)
                    tout = out.dump_tables()
                    extra = len(warns) - base_warn
                    for tname, cname in (("nodes", ncase), ("mutations", mcase)):
                        check_table(rep, tname, cname, getattr(tin, tname), getattr(tout, tname), sm, writable[tname],
                                    extra, n_incompat, key, desc)
    rep.bound = (f"{len(base)} inputs x {len(pairs)} (node case, mutation case) pairs of 13x13 x 3 set_metadata x "
                 f"3 methods = {calls} date() calls")
    rep.notes.append(f"date() calls that raised: {raised}")


if __name__ == "__main__":
    bounded_api.main(run)
