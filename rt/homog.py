"""
Homogeneity replay of a dimensional contract on the REAL function (runs under /venv/bin/python).

usage:  python -m rt.homog <request.json>   -> one JSON line

request = {"function": "approx.approximate_gamma_iqr", "params": [...], "types": [[kind, ndim], ...],
           "dims": {param: spec}, "returns": spec, "gen": "dim_gamma_iqr", "seed": 0, "n": 200,
           "scales": [1e-12, 1e-3, 977.0, 1e6], "axes": ["T"], "rtol": 1e-6}
For every generated input x and every scale c the real function is called on x and on c^dim(x) x, and
    f(c^dim(x) x) == c^dim(result) f(x)      (relative tolerance rtol; same exception type if either raises)
is evaluated.  This is (a) the replay of a refuted dimensional obligation and (b) run on every check as a
bounded cross-check that the declared dimensions describe the real function (a wrong contract would make the
type checker prove the wrong theorem).  Bounded: the generator's n cases, the listed scales.
"""
import json
import math
import os
import sys
import traceback

import numpy as np

sys.path.insert(0, os.path.dirname(os.path.dirname(os.path.abspath(__file__))))
from rt import gens, replay  # noqa: E402
from vt.dimspec import parse_dim  # noqa: E402

BASIS = ("T", "L")


def expo(spec, axis):
    """exponent of `axis` and log-shift exponent for a scalar spec"""
    if spec in ("bool", "int", "idx", "none", "any"):
        return 0.0, 0.0
    if spec.startswith("log:"):
        return 0.0, parse_dim(spec[4:], BASIS)[BASIS.index(axis)]
    return parse_dim(spec, BASIS)[BASIS.index(axis)], 0.0


def scale_value(v, spec, axis, c):
    if isinstance(spec, (list, tuple)):
        kind = spec[0]
        items = list(spec[1:])
        if kind == "cols":
            if isinstance(items[0], int):
                items = items[1:]
            out = np.array(v, dtype=float, copy=True)
            for k, s in enumerate(items):
                d, sh = expo(s, axis)
                out[..., k] = out[..., k] * c ** d + sh * math.log(c)
            return out
        if kind == "tuple":
            return tuple(scale_value(x, s, axis, c) for x, s in zip(v, items))
        raise ValueError(spec)
    d, sh = expo(spec, axis)
    if d == 0 and sh == 0:
        return v.copy() if isinstance(v, np.ndarray) else v
    if isinstance(v, np.ndarray):
        return v * c ** d + sh * math.log(c)
    return float(v) * c ** d + sh * math.log(c)


def compare(out0, out1, spec, axis, c, rtol):
    """out1 == c^dim out0, componentwise along the result spec; 'taint' components are not compared"""
    if spec == "taint":
        return True
    if isinstance(spec, (list, tuple)) and spec[0] == "tuple":
        return isinstance(out0, tuple) and isinstance(out1, tuple) and len(out0) == len(out1) == len(spec) - 1 and \
            all(compare(x, y, sp, axis, c, rtol) for x, y, sp in zip(out0, out1, spec[1:]))
    return close(scale_value(out0, spec, axis, c), out1, rtol)


def close(a, b, rtol):
    if isinstance(a, tuple) or isinstance(b, tuple):
        return isinstance(a, tuple) and isinstance(b, tuple) and len(a) == len(b) and \
            all(close(x, y, rtol) for x, y in zip(a, b))
    a, b = np.asarray(a), np.asarray(b)
    if a.shape != b.shape:
        return False
    if a.dtype.kind in "biu" and b.dtype.kind in "biu":
        return bool(np.array_equal(a, b))
    a, b = a.astype(float), b.astype(float)
    with np.errstate(all="ignore"):
        # rounding residue of cancelling sums (cumsum of +x, -x) is relative to the largest entry, not to itself
        fin = np.abs(a[np.isfinite(a)])
        atol = 1e-9 * (fin.max() if fin.size else 0.0)
        return bool(np.all((np.isnan(a) & np.isnan(b)) | (a == b) |
                           (np.abs(a - b) <= rtol * np.maximum(np.abs(a), np.abs(b)) + atol)))


def _all_nan(out):
    try:
        flat = np.concatenate([np.ravel(np.asarray(x, dtype=float)) for x in (out if isinstance(out, tuple) else (out,))])
        return flat.size > 0 and bool(np.all(np.isnan(flat)))
    except Exception:
        return False


def call(fn, params, args):
    try:
        with np.errstate(all="ignore"):
            return "ok", fn(*[args[p].copy() if isinstance(args[p], np.ndarray) else args[p] for p in params])
    except Exception as e:  # the exception type is part of the observable outcome
        return "raise", type(e).__name__


# ------------------------------------------------------------------------------------------ generators
def _mag(rng, lo=-3, hi=4):
    return float(10.0 ** rng.uniform(lo, hi))


def dim_gamma_mom(rng, hint):
    mean = rng.random() * _mag(rng) + 1e-12
    shape = float(10.0 ** (rng.random() * 6 - 2))
    return {"mean": float(mean), "variance": float(mean * mean / shape)}


def dim_gamma_kl(rng, hint):
    from scipy.special import digamma
    shape = float(10.0 ** (rng.random() * 5 - 1))
    rate = _mag(rng)
    return {"x": shape / rate, "logx": float(digamma(shape) - math.log(rate))}


def dim_gamma_iqr(rng, hint):
    from scipy.stats import gamma as G
    shape = float(10.0 ** (rng.random() * 3 - 0.5))
    rate = _mag(rng)
    w = float(rng.choice([0.5, 0.2, 0.8]))
    q1, q2 = w / 2, 1 - w / 2
    x1, x2 = G.ppf(q1, shape, scale=1 / rate), G.ppf(q2, shape, scale=1 / rate)
    mode = rng.random()
    if mode < 0.15:
        x2 = x1  # coincident quantiles
    elif mode < 0.4:
        x2 = x1 * (1 + 10.0 ** rng.uniform(-9, -3))  # nearly coincident: ratio is scale free
    return {"q1": q1, "q2": q2, "x1": float(x1), "x2": float(x2),
            "max_shape": float(rng.choice([1000.0, 50.0, 2.0]))}


def dim_fixed_changepoints(rng, hint):
    # generic (non-integer) weights: with integer weights Y/Y[-1] hits k/epochs exactly and the tie in searchsorted
    # is decided by rounding, which real-arithmetic homogeneity does not speak about
    n = int(rng.integers(1, 9))
    c = (rng.random(n) + 0.01) * _mag(rng, -2, 2)
    c[rng.random(n) < 0.2] = 0.0
    if c.sum() == 0:
        c[0] = 1.234
    return {"counts": c.tolist(), "epochs": int(rng.integers(1, 7))}


def _edges_times(rng):
    ns, ni = int(rng.integers(2, 6)), int(rng.integers(1, 7))
    N, P, C = gens._dag(rng, ns, ni)
    scale = _mag(rng, -2, 3)
    t = np.zeros(N)
    t[ns:] = np.sort(rng.random(ni) + 0.05) * scale
    if ni > 2 and rng.random() < 0.3:
        t[ns + 1] = t[ns]  # tied node times
    fixed = np.zeros(N, dtype=bool)
    fixed[:ns] = True
    E = len(P)
    lik = np.stack([rng.integers(0, 6, size=E).astype(float), (rng.random(E) + 0.01) * _mag(rng, -3, 1)], axis=1)
    return N, P, C, t, fixed, lik


def dim_mutational_area(rng, hint):
    N, P, C, t, fixed, lik = _edges_times(rng)
    return {"nodes_time": t.tolist(), "likelihoods": lik.tolist(), "edges_parent": P.tolist(),
            "edges_child": C.tolist()}


def dim_mutational_timescale(rng, hint):
    N, P, C, t, fixed, lik = _edges_times(rng)
    return {"nodes_time": t.tolist(), "likelihoods": lik.tolist(), "nodes_fixed": fixed.tolist(),
            "edges_parent": P.tolist(), "edges_child": C.tolist(), "max_intervals": int(rng.integers(1, 6))}


def dim_piecewise_posterior(rng, hint):
    K = int(rng.integers(2, 6))
    scale = _mag(rng, -2, 3)
    ob = np.concatenate([[0.0], np.cumsum(rng.random(K - 1) + 0.05)]) * scale
    rb = np.concatenate([[0.0], np.cumsum(rng.random(K - 1) + 0.05)]) * scale * float(rng.choice([0.5, 1.0, 3.0]))
    n = int(rng.integers(1, 7))
    shape = 10.0 ** rng.uniform(0.0, 2.0, size=n)
    mean = rng.random(n) * ob[-1] * 1.3 + 1e-3 * scale
    post = np.stack([shape - 1.0, shape / mean], axis=1)
    fixed = rng.random(n) < 0.25
    return {"posteriors": post.tolist(), "posteriors_fixed": fixed.tolist(), "original_breaks": ob.tolist(),
            "rescaled_breaks": rb.tolist(), "quantile_width": float(rng.choice([0.5, 0.2])),
            "max_shape": float(rng.choice([1000.0, 20.0]))}


def dim_count_mutations(rng, hint):
    import msprime
    seed = int(rng.integers(1, 2**31 - 1))
    L = float(rng.choice([1e3, 1e4, 123456.0]))
    ts = msprime.sim_ancestry(int(rng.integers(2, 6)), sequence_length=L, recombination_rate=float(rng.choice([0, 2e-4, 1e-3])) * 1e3 / L,
                              population_size=100, random_seed=seed, discrete_genome=False)
    ts = msprime.sim_mutations(ts, rate=float(rng.choice([1e-5, 5e-5])) * 1e3 / L, random_seed=seed, discrete_genome=False)
    is_sample = np.zeros(ts.num_nodes, dtype=bool)
    is_sample[list(ts.samples())] = True
    return {"node_is_sample": is_sample.tolist(), "mutations_node": ts.mutations_node.tolist(),
            "mutations_position": ts.sites_position[ts.mutations_site].tolist(),
            "edges_parent": ts.edges_parent.tolist(), "edges_child": ts.edges_child.tolist(),
            "edges_left": ts.edges_left.tolist(), "edges_right": ts.edges_right.tolist(),
            "indexes_insert": ts.indexes_edge_insertion_order.tolist(),
            "indexes_remove": ts.indexes_edge_removal_order.tolist(), "sequence_length": float(ts.sequence_length),
            "size_biased": bool(rng.random() < 0.5)}


def dim_lik(rng, hint):
    n = int(rng.integers(2, 8))
    T = _mag(rng, -2, 4)
    dt = np.sort(rng.random(n)) * T + (0.0 if rng.random() < 0.5 else 1e-6 * T)
    span = _mag(rng, 0, 5)
    return {"muts": float(rng.integers(0, 6)), "span": span, "dt": dt.tolist(),
            "mutation_rate": float(rng.uniform(0.1, 5)) / (T * span), "standardize": bool(rng.random() < 0.5)}


def dim_approx(rng, hint):
    """arguments for every EP update of approx.py, keyed by the parameter naming convention of that file"""
    r = _mag(rng, -3, 3)
    a_i, a_j = float(10.0 ** rng.uniform(0.0, 2.0)), float(10.0 ** rng.uniform(0.0, 2.0))
    b_i, b_j = r * float(rng.uniform(0.2, 5)), r * float(rng.uniform(0.2, 5))
    y = float(rng.integers(0, 6))
    mu = r * float(10.0 ** rng.uniform(-2, 0.7))
    t_j = 0.0 if rng.random() < 0.25 else float(rng.uniform(0.01, 0.9)) / r
    t_i = float(rng.uniform(1.0, 3.0)) / r
    return {"a_i": a_i, "a_j": a_j, "b_i": b_i, "b_j": b_j, "y_ij": y, "mu_ij": mu, "t_i": t_i, "t_j": t_j,
            "pars_i": [a_i - 1.0, b_i], "pars_j": [a_j - 1.0, b_j], "pars_ij": [y, mu]}


GENS = dict(gens.GENS)
GENS.update({k: v for k, v in list(globals().items()) if k.startswith("dim_") and callable(v)})


def main():
    req = json.load(open(sys.argv[1]))
    if "batch" in req:
        out = {}
        for r in req["batch"]:
            try:
                out[r["function"]] = one(r)
            except Exception as e:
                out[r["function"]] = {"error": f"{type(e).__name__}: {e}", "trace": traceback.format_exc()[-600:]}
        print(json.dumps({"batch": out}))
        return 0
    print(json.dumps(one(req)))
    return 0


def one(req):
    try:
        fn = replay.resolve(req["function"])
        if hasattr(fn, "py_func") and not req.get("jit"):
            fn = fn.py_func
    except Exception as e:
        return {"error": f"cannot import: {type(e).__name__}: {e}", "trace": traceback.format_exc()[-500:]}
    params, types = req["params"], req["types"]
    rng = np.random.default_rng(int(req.get("seed", 0)) + 777)
    g = GENS[req["gen"]]
    rtol = float(req.get("rtol", 1e-6))
    ncases = exercised = 0
    failures = []
    for _ in range(int(req.get("n", 100))):
        raw = g(rng, {})
        args = {p: replay.to_value(raw.get(p), k, nd) for p, (k, nd) in zip(params, types)}
        st0, out0 = call(fn, params, args)
        ncases += 1
        if st0 == "ok" and not _all_nan(out0):
            exercised += 1
        for axis in req.get("axes", ["T"]):
            for c in req["scales"]:
                sargs = {p: scale_value(args[p], req["dims"][p], axis, c) for p in params}
                for p, (k, nd) in zip(params, types):  # keep integer / bool dtypes
                    if k != "float" and isinstance(args[p], np.ndarray):
                        sargs[p] = args[p].copy()
                st1, out1 = call(fn, params, sargs)
                ok = st0 == st1 and (out0 == out1 if st0 == "raise" else
                                     compare(out0, out1, req["returns"], axis, c, rtol))
                if not ok and len(failures) < 5:
                    failures.append({"args": {k: replay.jsonable(v) for k, v in args.items()}, "axis": axis,
                                     "scale": c, "unscaled": [st0, replay.jsonable(out0)],
                                     "scaled": [st1, replay.jsonable(out1)]})
    return {"cases": ncases, "returned_normally": exercised, "scales": req["scales"], "failures": failures}


if __name__ == "__main__":
    sys.exit(main())
