"""
Bounded stand-in (G4) for C20 -- "EP is exact in the conjugate (star) case".

Level: exploration (bounded), never proof.  The REAL `tsdate.variational_gamma` / `tsdate.date` is run on
star-like inputs: every edge joins a non-sample parent to a sample at time zero (star trees, forests of
stars, different star parents in different trees, samples isolated in part of the genome), with
`regularise_roots=False` and rescaling switched off (`rescaling_intervals=0` or `rescaling_iterations=0`).

Oracle (written from the statement, shares no code with tsdate): for every non-sample node p, straight from
the input tables,
    Y(p)    = number of mutation rows whose node c is a child of p on an edge (p, c, [l, r)) with l <= position < r
    SPAN(p) = sum of (r - l) over the edges whose parent is p
    conjugate posterior = Gamma(shape 1 + Y(p), rate mutation_rate * SPAN(p))
    => mean (1 + Y)/(mu SPAN), variance (1 + Y)/(mu SPAN)^2.
Mutations placed above a star parent (no edge above them) carry no information and are ignored by the oracle.

Contract clauses evaluated (one obligation per clause name)
-----------------------------------------------------------
uncapped-posterior-equals-conjugate-gamma
    every non-sample node with 1 + Y(p) <= max_shape: fit.node_posteriors() mean and variance, and shape/rate
    read from the natural parameters fit.node_posterior[p] (1 + first, second), equal the oracle; for every
    max_iterations.
capped-shape-equals-max-shape
    every non-sample node with 1 + Y(p) > max_shape: posterior shape (mean^2/variance) equals max_shape.
known-capped-star-not-uniformly-scaled     (KNOWN DEFECT, DESIGN 6-F10 -- isolated here)
    same nodes: "both natural parameters are scaled by ONE factor", i.e. the rate equals
    mu SPAN (max_shape - 1)/Y(p)  (the factor that takes the first natural parameter Y to max_shape - 1).
    The real code caps the shape but the rate is not the uniformly scaled one and depends on traversal order.
sample-nodes-keep-time-zero
    fit.node_posteriors() of every sample is (0, 0) (the premise "samples at time zero" is not disturbed).

Input space and bound
---------------------
family A (exhaustive): single star, S samples, per-edge mutation counts in {0..m}^S except all-zero
    quick   : S in {2,..,5}, m = 2  (8 + 26 + 80 + 242 = 356 inputs) x max_shape {1000, 2.5} x max_iterations {1, 3}
    thorough: S in {2,..,6}, m = 3 (15 + 63 + 255 + 1023 + 4095 = 5451 inputs) x max_shape {1000, 2.5, 4} x
              max_iterations {1, 2, 25}
    (every max_shape on every input; all iteration counts on every third input, the first count on the others)
family B (generated, numpy default_rng(seed)): 1..3 trees, 2..6 samples, 1..3 star parents per tree chosen from a
    pool of 1..4 (a parent may reappear in other trees with other children; samples may be isolated in some
    trees), per-edge counts 0..12 (occasionally up to 200), optional mutations above star parents, sequence length
    in {1, 10, 1e4}, mutation_rate in {1e-3, 0.5, 2}, max_iterations in {1, 2, 5, 25}, max_shape chosen per input
    from {1000, exactly the largest conjugate shape, largest + 0.5, a value strictly inside the range of shapes
    (some nodes capped, others not), 1.5}; entry point alternates between tsdate.variational_gamma and
    tsdate.date(method="variational_gamma"); rescaling disabled through either of its two switches.
    quick: 300 inputs; thorough: 5000 inputs.
family A is exhaustive for its stated bound; the module as a whole is not.

Tolerances
----------
rtol 1e-9 on mean, variance, shape and rate.  In the uncapped case the computation is algebraically the closed
form (method of moments of an exact gamma: (s/r)^2/(s/r^2) = s) and the damped re-visits are algebraic no-ops;
only a handful of roundings per edge visit occur (observed error <= ~1e-14).  Integer-valued counts and
power-of-two-free spans are otherwise compared as floats with the same rtol.

NOT covered
-----------
Unphased singletons (singletons_phased=False changes the model to singleton blocks), regularise_roots=True and
rescaling (excluded by the statement), allow_unary inputs (a star parent with a single child), inputs beyond
the sizes above, JIT-compiled kernels unless the runner enables JIT.
"""
import itertools

import numpy as np
import tskit

from rt import bounded_api, inputs  # noqa: F401  (inputs: shared helpers, not needed for star shapes)

RTOL = 1e-9


# ------------------------------------------------------------------ input construction
def build_star_ts(sequence_length, num_samples, segments, root_mutations=None):
    """segments: list of (left, right, {parent_label: [(child, count), ...]}).  Parent labels are mapped to
    node ids num_samples, num_samples+1, ... in order of first appearance.  Mutations on an edge segment are
    placed at distinct positions strictly inside the segment.  root_mutations: {parent_label: count} placed
    inside the parent's first segment (above the star parent: no edge above)."""
    tables = tskit.TableCollection(sequence_length)
    for _ in range(num_samples):
        tables.nodes.add_row(flags=tskit.NODE_IS_SAMPLE, time=0)
    label_id = {}
    placed = []   # (left, right, node, count)
    first_seg = {}
    for left, right, groups in segments:
        for lab, kids in groups.items():
            if lab not in label_id:
                label_id[lab] = tables.nodes.add_row(flags=0, time=1.0 + len(label_id))
                first_seg[lab] = (left, right)
            for child, count in kids:
                tables.edges.add_row(left, right, label_id[lab], child)
                if count:
                    placed.append((left, right, child, count))
    for lab, cnt in (root_mutations or {}).items():
        if cnt and lab in label_id:
            placed.append((first_seg[lab][0], first_seg[lab][1], label_id[lab], cnt))
    # distinct positions: segment by segment, evenly spaced strictly inside
    by_seg = {}
    for left, right, node, count in placed:
        by_seg.setdefault((left, right), []).extend([node] * count)
    for (left, right), nodes in sorted(by_seg.items()):
        k = len(nodes)
        for j, node in enumerate(nodes):
            pos = left + (right - left) * (j + 0.5) / k
            s = tables.sites.add_row(position=pos, ancestral_state="0")
            tables.mutations.add_row(site=s, node=node, derived_state="1")
    tables.sort()
    tables.edges.squash()
    tables.sort()
    tables.build_index()
    tables.compute_mutation_parents()
    return tables.tree_sequence()


def random_star_input(rng):
    S = int(rng.integers(2, 7))
    K = int(rng.integers(1, 4))
    L = float(rng.choice([1.0, 10.0, 1e4]))
    pool = int(rng.integers(1, 5))
    cuts = np.sort(rng.choice(np.arange(1, 16), size=K - 1, replace=False)) if K > 1 else np.array([])
    bps = [0.0] + [L * c / 16 for c in cuts] + [L]
    big = rng.random() < 0.15
    segments = []
    used = set()
    for k in range(K):
        # every sample must be connected somewhere: in the last tree force the unused ones in
        order = [int(x) for x in rng.permutation(S)]
        n_iso = int(rng.integers(0, max(1, S - 1))) if rng.random() < 0.3 else 0
        if k == K - 1:
            missing = [s for s in range(S) if s not in used]
            keep = [s for s in order if s not in missing][: max(0, S - n_iso - len(missing))] + missing
        else:
            keep = order[: S - n_iso]
        if len(keep) < 2:
            keep = order[:2] if k < K - 1 else sorted(set(keep) | set(order[:2]))
        # split `keep` into groups of size >= 2
        max_groups = min(len(keep) // 2, pool, 3)
        g = int(rng.integers(1, max_groups + 1))
        sizes = [2] * g
        for _ in range(len(keep) - 2 * g):
            sizes[int(rng.integers(0, g))] += 1
        labels = [int(x) for x in rng.choice(pool, size=g, replace=False)]
        groups, at = {}, 0
        for lab, sz in zip(labels, sizes):
            kids = []
            for child in keep[at:at + sz]:
                hi = 200 if (big and rng.random() < 0.3) else 12
                kids.append((child, int(rng.integers(0, hi + 1)) if rng.random() < 0.8 else 0))
                used.add(child)
            groups[lab] = kids
            at += sz
        segments.append((bps[k], bps[k + 1], groups))
    rootm = {int(lab): int(rng.integers(1, 4)) for lab in range(pool)} if rng.random() < 0.3 else None
    return L, S, segments, rootm


# ------------------------------------------------------------------ oracle
def conjugate_oracle(ts):
    """{parent: (Y, SPAN)} straight from the tables; also checks the star premise."""
    is_sample = np.zeros(ts.num_nodes, dtype=bool)
    is_sample[ts.samples()] = True
    out = {}
    for e in ts.edges():
        assert not is_sample[e.parent] and is_sample[e.child] and ts.nodes_time[e.child] == 0.0, "not a star input"
        y, span = out.get(e.parent, (0, 0.0))
        out[e.parent] = (y, span + (e.right - e.left))
    for m in ts.mutations():
        pos = ts.sites_position[m.site]
        for e in ts.edges():
            if e.child == m.node and e.left <= pos < e.right:
                y, span = out[e.parent]
                out[e.parent] = (y + 1, span)
    return out


def rel(a, b):
    a, b = float(a), float(b)
    if a == b:
        return 0.0
    if not (np.isfinite(a) and np.isfinite(b)):
        return float("inf")
    return abs(a - b) / max(abs(a), abs(b))


# ------------------------------------------------------------------ one evaluation
def evaluate(rep, tsdate, key, ts, mu, max_shape, iters, entry, resc_switch, extra_desc):
    kw = dict(mutation_rate=mu, max_iterations=iters, max_shape=max_shape, regularise_roots=False, return_fit=True)
    if resc_switch == "intervals":
        kw["rescaling_intervals"] = 0
    else:
        kw["rescaling_iterations"] = 0
    desc = dict(extra_desc, ts=bounded_api.ts_to_json(ts), mutation_rate=mu, max_shape=max_shape, max_iterations=iters,
                entry=entry, rescaling_off_by=resc_switch, regularise_roots=False)
    if entry == "date":
        _, fit = tsdate.date(ts, method="variational_gamma", **kw)
    else:
        _, fit = tsdate.variational_gamma(ts, **kw)
    post = fit.node_posteriors()
    nat = np.array(fit.node_posterior)
    oracle = conjugate_oracle(ts)
    samples = ts.samples()
    rep.case("sample-nodes-keep-time-zero",
             bool(np.all(post["mean"][samples] == 0) and np.all(post["variance"][samples] == 0)), key=key, input=desc,
             observed=post[samples], expected="(0, 0)", nontrivial=False)
    for p, (Y, span) in sorted(oracle.items()):
        shape, rate = 1.0 + Y, mu * span
        mean, var = float(post["mean"][p]), float(post["variance"][p])
        with np.errstate(all="ignore"):
            o_shape = mean * mean / var if var > 0 else float("nan")
            o_rate = mean / var if var > 0 else float("nan")
        nkey = f"{key}/node{p}"
        obs = {"node": int(p), "mean": mean, "variance": var, "shape": o_shape, "rate": o_rate, "natural": nat[p]}
        if shape <= max_shape:
            err = max(rel(mean, shape / rate), rel(var, shape / rate ** 2), rel(1.0 + nat[p, 0], shape), rel(nat[p, 1], rate))
            rep.case("uncapped-posterior-equals-conjugate-gamma", err <= RTOL, key=nkey, input=desc,
                     observed=dict(obs, err=err),
                     expected={"shape": shape, "rate": rate, "mean": shape / rate, "variance": shape / rate ** 2},
                     nontrivial=(Y > 0))
        else:
            eta = (max_shape - 1.0) / Y
            rep.case("capped-shape-equals-max-shape", rel(o_shape, max_shape) <= RTOL, key=nkey, input=desc,
                     observed=obs, expected={"shape": max_shape})
            rep.case("known-capped-star-not-uniformly-scaled", rel(o_rate, eta * rate) <= RTOL, key=nkey, input=desc,
                     observed=obs, expected={"shape": max_shape, "rate": eta * rate, "eta": eta,
                                             "conjugate_shape": shape, "conjugate_rate": rate})


# ------------------------------------------------------------------ driver
def run(req, rep):
    tier, seed = req["tier"], req["seed"]
    rng = np.random.default_rng(seed)
    import tsdate

    quick = tier != "thorough"
    sizes, m = ((2, 3, 4, 5), 2) if quick else ((2, 3, 4, 5, 6), 3)
    a_shapes = [1000, 2.5] if quick else [1000, 2.5, 4]
    a_iters = [1, 3] if quick else [1, 2, 25]
    n_random = 300 if quick else 5000
    rep.space = ("star-like inputs (every edge: non-sample parent over a time-zero sample) through the real "
                 "variational_gamma with regularise_roots=False and rescaling off; family A: all single stars with "
                 "per-edge mutation counts in {0..m}^S; family B: generated multi-tree forests of stars")
    rep.bound = (f"A: S in {list(sizes)}, m={m}, max_shape in {a_shapes}, max_iterations in {a_iters} (exhaustive); "
                 f"B: {n_random} generated inputs (<=3 trees, <=6 samples, <=4 star parents, counts <=12 (<=200)), seed {seed}")
    rep.exhaustive = False

    # family A
    n_a = 0
    for S in sizes:
        for counts in itertools.product(range(m + 1), repeat=S):
            if sum(counts) == 0:
                continue   # variational_gamma rejects inputs without mutations (ValueError): outside the quantifier
            ts = build_star_ts(1.0, S, [(0.0, 1.0, {0: list(enumerate(counts))})])
            n_a += 1
            for max_shape in a_shapes:
                # all iteration counts on a deterministic third of the inputs, the first one otherwise
                its = a_iters if n_a % 3 == 0 else a_iters[:1]
                for it in its:
                    evaluate(rep, tsdate, f"A/S{S}/{''.join(map(str, counts))}/ms{max_shape}/it{it}", ts, 0.5, max_shape,
                             it, "variational_gamma", "intervals", {"family": "A", "counts": list(counts)})
    # family B
    for i in range(n_random):
        L, S, segments, rootm = random_star_input(rng)
        ts = build_star_ts(L, S, segments, rootm)
        if ts.num_mutations == 0:
            continue
        oracle = conjugate_oracle(ts)
        shapes = sorted(1.0 + y for y, _ in oracle.values())
        choices = [1000.0, shapes[-1], shapes[-1] + 0.5, 1.5]
        if shapes[-1] > shapes[0] and shapes[-1] > 2:
            choices.append(max(1.25, (shapes[0] + shapes[-1]) / 2.0))
        max_shape = float(choices[int(rng.integers(0, len(choices)))])
        if not max_shape > 1:
            max_shape = 1.5
        mu = float(rng.choice([1e-3, 0.5, 2.0]))
        it = int(rng.choice([1, 2, 5, 25]))
        entry = "date" if i % 2 else "variational_gamma"
        sw = "iterations" if i % 3 == 0 else "intervals"
        evaluate(rep, tsdate, f"B/{i}/ms{max_shape:g}/it{it}/mu{mu:g}", ts, mu, max_shape, it, entry, sw,
                 {"family": "B", "index": i, "segments": repr(segments), "root_mutations": repr(rootm)})


if __name__ == "__main__":
    bounded_api.main(run)
