"""
Tiny protocol for bounded stand-ins (run under /venv/bin/python, imported tsdate is the REAL code).

A bounded module defines  run(req, rep)  and ends with  `if __name__ == "__main__": bounded_api.main(run)`.
  req : {"tier": "quick"|"thorough", "seed": int, "params": {...}}
  rep : Report -- call rep.case(clause, ok, key=..., input=..., observed=..., expected=..., nontrivial=True)

`clause` names the part of the property's contract being evaluated (one obligation per clause in the
evidence).  `key` identifies the distinct input (used to count distinct non-trivial cases).  Failures keep
their input description so that the runner can write a replay file.
"""
import json
import sys
import time
import traceback


class Report:
    def __init__(self):
        self.clauses = {}
        self.keys = set()
        self.evaluations = 0
        self.failures = []
        self.samples = []
        self.space = ""
        self.bound = ""
        self.exhaustive = False
        self.notes = []

    def case(self, clause, ok, key=None, input=None, observed=None, expected=None, nontrivial=True):  # noqa: A002
        c = self.clauses.setdefault(clause, {"pass": 0, "fail": 0})
        self.evaluations += 1
        c["pass" if ok else "fail"] += 1
        if nontrivial and key is not None:
            self.keys.add(str(key))
        if not ok and len(self.failures) < 20:
            self.failures.append({"clause": clause, "key": str(key), "input": input, "observed": observed,
                                  "expected": expected})
        if ok and len(self.samples) < 3 and input is not None:
            self.samples.append({"clause": clause, "key": str(key), "input": input})

    def to_json(self):
        return {"space": self.space, "bound": self.bound, "exhaustive": self.exhaustive,
                "evaluations": self.evaluations, "distinct_nontrivial": len(self.keys),
                "clauses": self.clauses, "failures": self.failures, "samples": self.samples, "notes": self.notes}


def jsonable(x):
    import numpy as np
    if isinstance(x, dict):
        return {str(k): jsonable(v) for k, v in x.items()}
    if isinstance(x, (list, tuple)):
        return [jsonable(v) for v in x]
    if isinstance(x, np.ndarray):
        return jsonable(x.tolist())
    if isinstance(x, (np.integer,)):
        return int(x)
    if isinstance(x, (np.floating, float)):
        x = float(x)
        return x if x == x and abs(x) != float("inf") else repr(x)
    if isinstance(x, (np.bool_,)):
        return bool(x)
    if isinstance(x, (str, int, bool)) or x is None:
        return x
    return repr(x)


def ts_to_json(ts):
    """Small replayable description of a tree sequence (tables as lists)."""
    return {"sequence_length": ts.sequence_length,
            "nodes": {"flags": ts.nodes_flags.tolist(), "time": ts.nodes_time.tolist(),
                      "individual": ts.nodes_individual.tolist()},
            "edges": {"left": ts.edges_left.tolist(), "right": ts.edges_right.tolist(),
                      "parent": ts.edges_parent.tolist(), "child": ts.edges_child.tolist()},
            "sites": ts.sites_position.tolist(),
            "mutations": {"site": ts.mutations_site.tolist(), "node": ts.mutations_node.tolist()},
            "num_individuals": ts.num_individuals}


def main(run):
    req = json.load(open(sys.argv[1]))
    rep = Report()
    t0 = time.time()
    try:
        run(req, rep)
        out = rep.to_json()
    except Exception as e:
        out = rep.to_json()
        out["error"] = f"{type(e).__name__}: {e}"
        out["trace"] = traceback.format_exc()[-1500:]
    out["wall_s"] = round(time.time() - t0, 2)
    print(json.dumps(jsonable(out)))
