"""
Bounded stand-in for C16 -- "Discretised prior grids hold the right probability masses".

Contract clauses evaluated on the REAL `tsdate.build_prior_grid(ts, population_size, timepoints,
prior_distribution=...)` for every (input, configuration) of the space below:

  timegrid-strictly-increasing-from-zero   prior.timepoints[0] == 0.0 exactly and diff(prior.timepoints) > 0
                                           (integer and explicit timepoints alike; ties among the quantiles that
                                           build an integer-timepoint grid would show up here)
  explicit-grid-is-returned                timepoints given as an array (starting at 0, any order): prior.timepoints
                                           == sort(user grid); first entry exactly 0.0, the others to relative 1e-12
                                           (see Tolerances: tsdate stores to_natural(to_coalescent(grid)))
  row-holds-normalised-interval-masses     for every non-sample node u: prior[u][0] == 0 and prior[u][j] ==
                                           (F_u(c_j) - F_u(c_{j-1})) / max_j(...), c_j = I(timepoints[j]) the grid
                                           in coalescent units, F_u the lognormal / gamma cdf with the node's
                                           moment-matched mixture-prior parameters
  row-zero-at-time-zero-and-max-one        prior[u][0] == 0.0 and max(prior[u]) == 1.0 exactly, all entries in [0, 1]
  sample-nodes-have-no-grid-row            prior.nonfixed_nodes == the non-sample nodes (as a set), the grid has one
                                           row per non-sample node and len(timepoints) columns, sample nodes map to
                                           the scalar store (row_lookup < 0) and prior[sample] is a scalar

Specification oracle (shares no code with tsdate; scipy is not used either):
  node parameters: spans per (T, k) by a direct per-tree tally (tskit only) -> exact rational Kingman moments ->
     exact span-weighted mixture mean / variance -> moment matching (gamma: a = m^2/v, b = m/v; lognormal:
     beta = log(1 + v/m^2), alpha = log m - beta/2), the specification of C14/C15 re-implemented here;
  time change: I(t) = int_0^t ds/(2N(s)) in exact rational arithmetic;
  cdf: mpmath at 30 digits (lognormal: ncdf((log x - alpha)/sqrt(beta)); gamma: regularised lower incomplete gamma).

Input space
  inputs: single-tree shapes with <= 4 leaves incl. polytomies (a seeded subset in quick, all 31 in thorough);
     msprime simulations with 3..8 samples and several trees, with random polytomy collapses and missing-sample
     intervals (same construction as bounded_C15), half of them with all node ids randomly permuted so that
     samples are not the lowest ids; all samples at time 0, no unary nodes, one root per tree.
     quick: 10 shapes + 35 simulations, thorough: 31 shapes + 250 simulations.
  configurations, 4 (quick) / 6 (thorough) drawn per input from the product of
     timepoints in {2, 3, 5, 10, 20, 40} or an explicit array [0, 2N_ref * 10^U(-3, 1) ...] of 2..30 points given
     sorted or shuffled; prior_distribution in {lognorm, gamma}; population_size a python float, a python int, or a
     PopulationSizeHistory with 2..4 epochs whose sizes lie within a factor 100 of each other.
  All random choices from numpy default_rng(seed).

Tolerances
  masses: the row is a difference of cdf values scaled so that its largest entry is 1; cdf values carry absolute
     errors of a few 1e-16 (scipy) and the grid is known to ~1e-13 relative, so entries are compared with
     |obs - exp| <= 1e-9 * exp + 1e-12 (entries are in [0, 1]).
  explicit grid: the statement says "exactly"; tsdate returns to_natural(to_coalescent(sorted grid)), which is the
     identity only up to rounding (two affine maps per epoch; error <= 1e-16 * (size ratio)^2 <= 1e-12 for the
     histories used here, see bounded_C17).  "exactly" is therefore read as: 0.0 exactly, others to 1e-12 relative;
     the number of bit-exact grids is reported in the notes.
  everything else exact.

NOT covered: explicit grids that do not start at 0 (the two halves of the statement then contradict each other),
grids lying entirely in a tail where every cdf value underflows to 0 or rounds to 1 (0/0 rows), histories with
strong contractions/expansions (see the known- clauses of bounded_C17), approximate priors, `allow_unary=True`,
population sizes passed as dict (documented but not accepted by the code: AttributeError, a C35 matter), > 8 samples.
"""
import functools
import math
from collections import defaultdict
from fractions import Fraction

import mpmath
import msprime
import numpy as np
import tskit

from rt import bounded_api, inputs

RTOL = 1e-9
ATOL_MASS = 1e-12
RTOL_GRID = 1e-12


# ---------------------------------------------------------------------------------- oracle: node parameters
def direct_spans(ts):
    samples = [int(s) for s in ts.samples()]
    is_sample = set(samples)
    spans = defaultdict(lambda: defaultdict(float))
    for tree in ts.trees():
        T = sum(1 for s in samples if tree.parent(s) != tskit.NULL)
        for u in tree.nodes():
            if u not in is_sample:
                spans[u][(T, tree.num_samples(u))] += tree.span
    return {u: dict(d) for u, d in spans.items()}


@functools.lru_cache(maxsize=None)
def kingman_moments(n, k):
    """Exact Kingman mean/variance of the age of a node with k of n tips (T_j ~ Exp(j(j-1)/2))."""
    m = {n: Fraction(0)}
    v = {n: Fraction(0)}
    for a in range(n - 1, 0, -1):
        r = Fraction(2, (a + 1) * a)
        m[a] = m[a + 1] + r
        v[a] = v[a + 1] + r * r
    if k == n:
        w = {1: Fraction(1)}
    else:
        w = {a: Fraction(math.comb(n - k - 1, a - 2), math.comb(n - 1, a)) for a in range(2, n - k + 2)}
    z = sum(w.values())
    mean = sum(wa * m[a] for a, wa in w.items()) / z
    second = sum(wa * (v[a] + m[a] ** 2) for a, wa in w.items()) / z
    return mean, second - mean * mean


def node_params(pairs, distr):
    """Moment-matched (alpha, beta) as mpf for the span-weighted mixture over {(T, k): span}."""
    wsum = s1 = s2 = Fraction(0)
    for (T, k), span in pairs.items():
        w = Fraction(span)
        m, v = kingman_moments(T, k)
        wsum += w
        s1 += w * m
        s2 += w * (v + m * m)
    mean = s1 / wsum
    var = s2 / wsum - mean * mean
    mean, var = mpmath.mpf(mean.numerator) / mean.denominator, mpmath.mpf(var.numerator) / var.denominator
    if distr == "gamma":
        return mean * mean / var, mean / var
    beta = mpmath.log(1 + var / (mean * mean))
    return mpmath.log(mean) - beta / 2, beta


def cdf(distr, alpha, beta, x):
    if x <= 0:
        return mpmath.mpf(0)
    if distr == "gamma":
        return mpmath.gammainc(alpha, 0, beta * x, regularized=True)
    return mpmath.ncdf((mpmath.log(x) - alpha) / mpmath.sqrt(beta))


def coalescent_time(sizes, breaks, t):
    """Exact I(t) as a Fraction for a piecewise-constant history."""
    b = [Fraction(0)] + [Fraction(float(x)) for x in breaks]
    t = Fraction(float(t))
    tot = Fraction(0)
    for i, N in enumerate(sizes):
        lo = b[i]
        if t <= lo:
            break
        hi = b[i + 1] if i + 1 < len(b) else None
        seg = (min(t, hi) if hi is not None else t) - lo
        tot += seg / (2 * Fraction(float(N)))
    return tot


# ---------------------------------------------------------------------------------- inputs (as in bounded_C15)
def drop_sample_interval(ts, sample, left, right):
    tables = ts.dump_tables()
    edges = tables.edges.copy()
    tables.edges.clear()
    for e in edges:
        if e.child != sample or e.right <= left or e.left >= right:
            tables.edges.add_row(e.left, e.right, e.parent, e.child)
            continue
        if e.left < left:
            tables.edges.add_row(e.left, left, e.parent, e.child)
        if e.right > right:
            tables.edges.add_row(right, e.right, e.parent, e.child)
    tables.sort()
    tables.simplify()
    return tables.tree_sequence()


def collapse_node(ts, u):
    if any(t.num_children(u) > 0 and t.parent(u) == tskit.NULL for t in ts.trees()):
        return None
    up = [(e.left, e.right, e.parent) for e in ts.edges() if e.child == u]
    down = [(e.left, e.right, e.child) for e in ts.edges() if e.parent == u]
    tables = ts.dump_tables()
    tables.edges.clear()
    for e in ts.edges():
        if e.child != u and e.parent != u:
            tables.edges.add_row(e.left, e.right, e.parent, e.child)
    for l1, r1, c in down:
        for l2, r2, p in up:
            lo, hi = max(l1, l2), min(r1, r2)
            if lo < hi:
                tables.edges.add_row(lo, hi, p, c)
    tables.sort()
    tables.simplify()
    return tables.tree_sequence()


def permute_nodes(ts, rng):
    """The same tree sequence with ALL node ids permuted (samples no longer the lowest ids)."""
    tables = ts.dump_tables()
    tables.subset(rng.permutation(ts.num_nodes).astype(np.int32), record_provenance=False)
    tables.sort()
    return tables.tree_sequence()


def precondition(ts):
    if ts.num_samples < 2 or np.any(ts.nodes_time[ts.samples()] != 0):
        return False
    seen = set()
    for tree in ts.trees(root_threshold=2):
        if tree.num_roots != 1:
            return False
        for u in tree.nodes(tree.root):
            seen.add(u)
            nc = tree.num_children(u)
            if nc == 1 or (nc == 0) != bool(tree.is_sample(u)):
                return False
    return {u for u in range(ts.num_nodes) if not ts.node(u).is_sample()} <= seen


def gen_inputs(tier, rng):
    thorough = tier == "thorough"
    shapes = [(n, i, s) for n in range(2, 5) for i, s in enumerate(inputs.all_tree_shapes(n))]
    if not thorough:
        pick = sorted(rng.choice(len(shapes), size=10, replace=False))
        shapes = [shapes[i] for i in pick]
    for n, i, s in shapes:
        yield f"shape:n{n}#{i}", inputs.tree_to_ts(s)
    for i in range(250 if thorough else 35):
        n = int(rng.integers(3, 9))
        L = int(rng.choice([20, 50]))
        ts = msprime.sim_ancestry(n, ploidy=1, sequence_length=L, recombination_rate=float(rng.choice([0.002, 0.02])),
                                  population_size=10, random_seed=int(rng.integers(1, 2**31)))
        tag = f"sim{i}(n={n},trees={ts.num_trees})"
        if rng.random() < 0.4:
            internal = [u for u in range(ts.num_nodes) if not ts.node(u).is_sample()]
            u = int(rng.choice(internal))
            new = collapse_node(ts, u)
            if new is not None and new.num_edges > 0 and precondition(new):
                ts, tag = new, tag + f"+poly{u}"
        for _ in range(int(rng.integers(0, 3))):
            s = int(rng.choice(ts.samples()))
            a, b = sorted(float(x) for x in rng.integers(0, L + 1, size=2))
            if rng.random() < 0.3:
                a = 0.0
            if a >= b:
                continue
            new = drop_sample_interval(ts, s, a, b)
            if precondition(new):
                ts, tag = new, tag + f"+miss{s}[{a:g},{b:g})"
        if rng.random() < 0.5:
            ts, tag = permute_nodes(ts, rng), tag + "+perm"
        yield tag, ts


def gen_config(rng):
    """One configuration: (description dict, population_size argument builder, sizes, breaks, timepoints arg)."""
    distr = str(rng.choice(["lognorm", "gamma"]))
    kind = int(rng.integers(0, 4))
    if kind == 0:
        sizes, breaks, pop_kind = [float(10 ** rng.uniform(0, 5))], [], "float"
    elif kind == 1:
        sizes, breaks, pop_kind = [float(int(10 ** rng.uniform(0.5, 5)))], [], "int"
    else:
        ne = int(rng.integers(2, 5))
        base = 10 ** rng.uniform(1, 4)
        sizes = [float(base * 10 ** rng.uniform(0, 2)) for _ in range(ne)]
        # breaks placed where the priors have mass: around 2N * O(0.05..3) generations
        breaks = sorted(float(2 * base * 10 ** rng.uniform(-1.5, 1.5)) for _ in range(ne - 1))
        pop_kind = "history"
        if len(set(breaks)) != ne - 1:
            return None
    if rng.random() < 0.55:
        tp = int(rng.choice([2, 3, 5, 10, 20, 40]))
        tp_desc = tp
    else:
        m = int(rng.integers(1, 30))
        ref = 2 * sizes[0]
        pts = np.unique(ref * 10 ** rng.uniform(-3, 1, m))
        tp = np.concatenate([[0.0], pts])
        if rng.random() < 0.5:
            tp = rng.permutation(tp)
        tp_desc = tp
    return {"prior_distribution": distr, "pop_kind": pop_kind, "population_size": sizes, "time_breaks": breaks,
            "timepoints": tp_desc}, tp


def make_pop(cfg):
    from tsdate.demography import PopulationSizeHistory

    if cfg["pop_kind"] == "float":
        return cfg["population_size"][0]
    if cfg["pop_kind"] == "int":
        return int(cfg["population_size"][0])
    return PopulationSizeHistory(cfg["population_size"], cfg["time_breaks"])


# ---------------------------------------------------------------------------------- checks
def check(rep, name, ts, tsj, spans, cfg, tp, stats):
    import tsdate

    distr = cfg["prior_distribution"]
    inp = {"ts": tsj, "config": cfg}
    key0 = f"{name}|{stats['configs']}"
    try:
        prior = tsdate.build_prior_grid(ts, population_size=make_pop(cfg),
                                        timepoints=tp.copy() if isinstance(tp, np.ndarray) else tp,
                                        prior_distribution=distr)
    except Exception as e:  # noqa: BLE001 -- a valid input/configuration must yield a grid
        rep.case("row-holds-normalised-interval-masses", False, key=key0, input=inp,
                 observed=f"build_prior_grid raised {type(e).__name__}: {e}", expected="a prior grid")
        return
    grid = np.array(prior.timepoints, dtype=float)
    ok = grid.ndim == 1 and grid.size >= 2 and grid[0] == 0.0 and bool(np.all(np.diff(grid) > 0))
    rep.case("timegrid-strictly-increasing-from-zero", ok, key=key0, input=inp, observed=grid,
             expected="0 = t0 < t1 < ...")
    if isinstance(tp, np.ndarray):
        want = np.sort(tp)
        ok = (grid.shape == want.shape and grid[0] == 0.0
              and bool(np.all(np.abs(grid[1:] - want[1:]) <= RTOL_GRID * want[1:])))
        stats["grid_bitexact"] += int(grid.shape == want.shape and np.array_equal(grid, want))
        stats["grid_explicit"] += 1
        if grid.shape == want.shape:
            stats["grid_maxrel"] = max(stats["grid_maxrel"], float(np.max(np.abs(grid[1:] - want[1:]) / want[1:])))
        rep.case("explicit-grid-is-returned", ok, key=key0, input=inp, observed=grid, expected=want)

    # ---- fixed / non-fixed partition
    samples = [int(s) for s in ts.samples()]
    nonsample = sorted(set(range(ts.num_nodes)) - set(samples))
    ok = (sorted(int(x) for x in prior.nonfixed_nodes) == nonsample
          and prior.grid_data.shape == (len(nonsample), grid.size)
          and all(prior.row_lookup[s] < 0 for s in samples)
          and all(prior.row_lookup[u] >= 0 for u in nonsample)
          and all(np.ndim(prior[s]) == 0 for s in samples)
          and len({int(prior.row_lookup[u]) for u in nonsample}) == len(nonsample))
    rep.case("sample-nodes-have-no-grid-row", bool(ok), key=key0, input=inp,
             observed=sorted(int(x) for x in prior.nonfixed_nodes), expected=nonsample)

    # ---- rows
    mpmath.mp.dps = 30
    cgrid = []
    for t in grid:
        c = coalescent_time(cfg["population_size"], cfg["time_breaks"], t)
        cgrid.append(mpmath.mpf(c.numerator) / c.denominator)
    row_cache = {}
    for u in nonsample:
        key = f"{key0}|u{u}"
        row = np.array(prior[u], dtype=float)
        ok = (row.shape == grid.shape and row[0] == 0.0 and float(np.max(row)) == 1.0
              and bool(np.all((row >= 0) & (row <= 1))))
        rep.case("row-zero-at-time-zero-and-max-one", ok, key=key, input=dict(inp, node=u), observed=row,
                 expected="row[0] = 0, max = 1")
        sig = tuple(sorted(spans[u].items()))
        if sig not in row_cache:
            alpha, beta = node_params(spans[u], distr)
            F = [cdf(distr, alpha, beta, c) for c in cgrid]
            mass = [mpmath.mpf(0)] + [F[j] - F[j - 1] for j in range(1, len(F))]
            top = max(mass)
            row_cache[sig] = np.array([float(m / top) for m in mass]) if top > 0 else None
        exp = row_cache[sig]
        if exp is None:  # grid entirely where the prior has no mass at 30 digits: outside the stated space
            stats["degenerate"] += 1
            continue
        ok = row.shape == exp.shape and bool(np.all(np.abs(row - exp) <= RTOL * exp + ATOL_MASS))
        if row.shape == exp.shape:
            stats["row_maxabs"] = max(stats["row_maxabs"], float(np.max(np.abs(row - exp))))
        rep.case("row-holds-normalised-interval-masses", ok, key=key, input=dict(inp, node=u), observed=row,
                 expected=exp)


def run(req, rep):
    tier, seed = req["tier"], req["seed"]
    rng = np.random.default_rng(seed)
    thorough = tier == "thorough"
    per_input = 6 if thorough else 4
    rep.space = ("small simplified inputs (tree shapes <= 4 leaves, msprime simulations 3..8 samples with polytomies / "
                 "missing samples) x {integer timepoints 2..40, explicit grids of 2..30 points} x {lognorm, gamma} x "
                 "{float, int, 2..4-epoch PopulationSizeHistory}")
    rep.bound = (f"{31 if thorough else 10} shapes + {250 if thorough else 35} simulations, {per_input} configurations "
                 "each")
    rep.exhaustive = False
    stats = {"configs": 0, "grid_bitexact": 0, "grid_explicit": 0, "grid_maxrel": 0.0, "row_maxabs": 0.0,
             "degenerate": 0, "inputs": 0}
    for name, ts in gen_inputs(tier, rng):
        if not precondition(ts):
            continue
        stats["inputs"] += 1
        tsj = bounded_api.ts_to_json(ts)
        spans = direct_spans(ts)
        done = 0
        while done < per_input:
            got = gen_config(rng)
            if got is None:
                continue
            cfg, tp = got
            stats["configs"] += 1
            check(rep, name, ts, tsj, spans, cfg, tp, stats)
            done += 1
    rep.notes.append(f"{stats['inputs']} inputs, {stats['configs']} configurations; explicit grids: "
                     f"{stats['grid_explicit']} ({stats['grid_bitexact']} returned bit-exactly, max relative deviation "
                     f"{stats['grid_maxrel']:.2e}); max |row - oracle| = {stats['row_maxabs']:.2e}; "
                     f"degenerate rows skipped: {stats['degenerate']}")


if __name__ == "__main__":
    bounded_api.main(run)
