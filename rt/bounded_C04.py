"""
Bounded stand-in for C04 -- "Reported posteriors in metadata equal the fit object's posteriors".

Every case calls the real tsdate.date(..., return_fit=True, set_metadata in {None, True}) and compares the metadata of
the returned tree sequence with what the returned fit object reports.  Clauses (one obligation each):
  variational_gamma
    node-metadata-equals-fit-node-posteriors      for every node i: metadata mn == fit.node_posteriors()["mean"][i] and
                                                  vr == ["variance"][i]
    mutation-metadata-equals-fit-mutation-posteriors
                                                  for every INPUT mutation j the output mutation that carries j's
                                                  identity (unique "id" tag in its metadata; without tags: the multiset
                                                  of (mn, vr) per site, and row j itself when j is alone at its site)
                                                  has mn/vr == fit.mutation_posteriors()[j]
    known-sort-permutes-mutations-within-site     KNOWN, unrepaired (DESIGN 6-F11): literal reading "row i of the output
                                                  has mutation_posteriors()[i]" at sites with several mutations;
                                                  tables.sort() may permute those rows under the new node times.
                                                  Evaluated only when the input has multi-mutation sites.
    Equality is EXACT (NaN equals NaN: mutations above a root have NaN posteriors): the numbers are written through the
    JSON codec with Python's shortest round-trip float repr (or a struct 'd' field), so no rounding is involved.
    One input variant stores mn/vr in struct 'f' (float32) fields; there the expected value is float32(posterior),
    exactly.
  inside_outside
    posterior-grid-rows-nonnegative-and-sum-to-one  every non-sample row of fit.node_posteriors() is >= 0 and sums to
                                                  1 within 1e-12 (rows are normalised by one division; the grid has
                                                  <= ~60 points so the rounding of the sum is <= 60 ulp ~ 1e-14)
    node-metadata-is-mean-and-variance-of-grid-row  mn == sum_k p_k t_k and vr == sum_k p_k (t_k - mean)^2 over the
                                                  timepoints (column names of the posterior array), oracle summed with
                                                  math.fsum; rtol 1e-9 (the same quantity computed in a different
                                                  summation order / with an explicit division by sum p), atol
                                                  1e-12 * max(t) for the mean and 1e-12 * max(t)^2 for the variance
                                                  (a point-mass row has variance ~0 up to cancellation)
    sample-nodes-report-exact-time-zero-variance    sample nodes: mn == input node time exactly, vr == 0 exactly, and
                                                  their posterior rows are all-NaN (documented: fixed nodes)
  maximization
    maximization-writes-no-time-metadata            node metadata bytes, offsets and schema of the output equal the
                                                  input's; mutation metadata schema equal and per-site multisets of
                                                  row metadata bytes equal (row order inside a site: known clause
                                                  above); for set_metadata None and True alike

Input space (deterministic given the seed):
  * shared plain suite of rt.bounded_C01.suite (tree shapes with 3-4 [thorough 5] leaves, sims incl. multi-mutation
    sites, diploid/unphased, ancient and internal samples, polytomy, multiroot, unary) -- no prior metadata;
  * the "rich" inputs of rt.bounded_C02 (metadata on every table; mutation "id" tags; codec variants permissive JSON,
    JSON already holding mn/vr, none, raw bytes, struct without mn/vr) plus two struct variants WITH mn/vr fields
    (double 'd' and float32 'f');
  * every accepting method x set_metadata {None, True} x 1-2 option draws (rescaling on/off, max_iterations,
    singletons_phased False on diploid inputs, probability_space, outside_standardize, ignore_oldest_root).
  quick: ~80 inputs, ~330 date() calls; thorough: ~450 inputs, ~3000 calls.  Seeded sampling, not exhaustive.
A table whose time metadata is NOT written (set_metadata=None with an incompatible schema -- C32's subject) is not a
case of this property and is skipped (counted in rep.notes).

NOT covered: correctness of the posteriors themselves (C05, C10, C12); set_metadata=False; inputs above ~60 nodes;
mutation metadata of inside_outside (the statement makes no claim; tsdate writes none).
"""
import logging
import math

import numpy as np
import tskit

from rt import bounded_api
from rt.bounded_C01 import Case, call_date, describe, method_configs, suite
from rt.bounded_C02 import PERMISSIVE, _set_md, rich_cases, rich_ts

STRUCT_D = {"codec": "struct", "type": "object", "properties": {
    "id": {"type": "integer", "binaryFormat": "i"}, "mn": {"type": "number", "binaryFormat": "d"},
    "vr": {"type": "number", "binaryFormat": "d"}}}
STRUCT_F = {"codec": "struct", "type": "object", "properties": {
    "id": {"type": "integer", "binaryFormat": "i"}, "mn": {"type": "number", "binaryFormat": "f"},
    "vr": {"type": "number", "binaryFormat": "f"}}}


def struct_cases(seed, tier):
    out = []
    for k in range(8 if tier == "thorough" else 2):
        for name, schema in (("struct-d", STRUCT_D), ("struct-f", STRUCT_F)):
            ts = rich_ts(seed * 1000 + 500 + k, "none", "none", False, False)
            if ts.num_mutations == 0:
                continue
            tables = ts.dump_tables()
            sch = tskit.MetadataSchema(schema)
            _set_md(tables.nodes, sch, [{"id": i, "mn": 0.0, "vr": 0.0} for i in range(tables.nodes.num_rows)])
            _set_md(tables.mutations, sch, [{"id": j, "mn": 0.0, "vr": 0.0} for j in range(tables.mutations.num_rows)])
            out.append(Case(f"{name}{k}", tables.tree_sequence(), mu=6e-4, ne=100.0, node_md=name, mut_md=name))
    return out


# ---------------------------------------------------------------------------------------------------- helpers
def same(a, b):
    """Exact equality of two doubles with NaN == NaN."""
    a, b = float(a), float(b)
    return a == b or (a != a and b != b)


def written(table):
    """True if every row of the table decodes to a mapping holding mn and vr."""
    if table.metadata_schema.schema is None or table.num_rows == 0:
        return False
    try:
        return all(isinstance(r.metadata, dict) and "mn" in r.metadata and "vr" in r.metadata for r in table)
    except Exception:  # noqa: BLE001
        return False


def f32_if_needed(x, table):
    props = (table.metadata_schema.schema or {}).get("properties", {})
    if table.metadata_schema.schema.get("codec") == "struct" and props.get("mn", {}).get("binaryFormat") == "f":
        with np.errstate(over="ignore"):
            return float(np.float32(x))
    return float(x)


def check_vg(rep, ts_in, out, fit, key, desc, skipped):
    tables = out.dump_tables()
    post = fit.node_posteriors()
    if written(tables.nodes):
        bad = []
        for i, row in enumerate(tables.nodes):
            e_mn, e_vr = f32_if_needed(post["mean"][i], tables.nodes), f32_if_needed(post["variance"][i], tables.nodes)
            if not (same(row.metadata["mn"], e_mn) and same(row.metadata["vr"], e_vr)):
                bad.append((i, row.metadata["mn"], row.metadata["vr"], e_mn, e_vr))
        ok = not bad and len(post) == out.num_nodes
        rep.case("node-metadata-equals-fit-node-posteriors", ok, key=key, input=desc, observed=bad[:5],
                 expected="(node, mn, vr, posterior mean, posterior variance) equal")
    else:
        skipped["nodes"] += 1
    if not written(tables.mutations):
        skipped["mutations"] += 1
        return
    mpost = fit.mutation_posteriors()
    muts = tables.mutations
    exp = [(f32_if_needed(mpost["mean"][j], muts), f32_if_needed(mpost["variance"][j], muts))
           for j in range(len(mpost))]
    got = [(float(r.metadata["mn"]), float(r.metadata["vr"])) for r in muts]
    bad = []
    if len(exp) != ts_in.num_mutations or len(got) != len(exp):
        bad.append("row counts differ")
    else:
        tagged = all("id" in r.metadata for r in muts)
        site_in, site_out = ts_in.mutations_site, muts.site
        if tagged:  # identity through the unique tag carried in the metadata
            ids = [int(r.metadata["id"]) for r in muts]
            if sorted(ids) != list(range(len(ids))):
                bad.append("id tags are not a permutation")
            else:
                for row, j in enumerate(ids):
                    if not (same(got[row][0], exp[j][0]) and same(got[row][1], exp[j][1])):
                        bad.append((f"output row {row} = input mutation {j}", got[row], exp[j]))
        else:  # identity up to order within the site
            per_in, per_out = {}, {}
            for j in range(len(exp)):
                per_in.setdefault(int(site_in[j]), []).append(repr(exp[j]))
                per_out.setdefault(int(site_out[j]), []).append(repr(got[j]))
            for s in set(per_in) | set(per_out):
                if sorted(per_in.get(s, [])) != sorted(per_out.get(s, [])):
                    bad.append((f"site {s}", per_out.get(s), per_in.get(s)))
        count = np.bincount(site_in, minlength=ts_in.num_sites)
        bad_known, n_multi = [], 0
        for j in range(len(exp)):
            eq = same(got[j][0], exp[j][0]) and same(got[j][1], exp[j][1])
            if count[site_in[j]] == 1:
                if not eq:
                    bad.append((f"row {j} (alone at its site)", got[j], exp[j]))
            else:
                n_multi += 1
                if not eq:
                    bad_known.append((j, got[j], exp[j]))
        if n_multi:
            rep.case("known-sort-permutes-mutations-within-site", not bad_known, key=key, input=desc,
                     observed=bad_known[:5], expected="(row, (mn, vr) in output row, mutation_posteriors()[row])")
    rep.case("mutation-metadata-equals-fit-mutation-posteriors", not bad, key=key, input=desc, observed=bad[:5],
             expected="mn/vr of the output mutation == fit.mutation_posteriors() of the same input mutation")


def check_io(rep, ts_in, out, fit, key, desc, skipped):
    post = fit.node_posteriors()
    names = post.dtype.names
    t = np.array([float(n) for n in names])
    grid = np.column_stack([post[n] for n in names]).astype(float)
    is_sample = (ts_in.nodes_flags & tskit.NODE_IS_SAMPLE) != 0
    bad = []
    for i in np.flatnonzero(~is_sample):
        row = grid[i]
        if not (np.all(row >= 0) and abs(math.fsum(row) - 1.0) <= 1e-12):
            bad.append((int(i), float(row.min()), math.fsum(row)))
    rep.case("posterior-grid-rows-nonnegative-and-sum-to-one", not bad and grid.shape[0] == ts_in.num_nodes, key=key,
             input=desc, observed=bad[:5], expected="rows >= 0, |sum - 1| <= 1e-12")
    tables = out.dump_tables()
    if not written(tables.nodes):
        skipped["nodes"] += 1
        return
    md = [r.metadata for r in tables.nodes]
    bad, tmax = [], float(t.max())
    for i in np.flatnonzero(~is_sample):
        p = grid[i]
        mean = math.fsum(p * t)
        var = math.fsum(p * (t - mean) ** 2)
        e_mn, e_vr = f32_if_needed(mean, tables.nodes), f32_if_needed(var, tables.nodes)
        rt = 1e-9 if e_mn == mean else 1e-6  # float32 storage variant: 2^-24 relative rounding
        if not (math.isclose(md[i]["mn"], e_mn, rel_tol=rt, abs_tol=1e-12 * tmax)
                and math.isclose(md[i]["vr"], e_vr, rel_tol=rt, abs_tol=1e-12 * tmax ** 2)):
            bad.append((int(i), md[i]["mn"], md[i]["vr"], mean, var))
    rep.case("node-metadata-is-mean-and-variance-of-grid-row", not bad, key=key, input=desc, observed=bad[:5],
             expected="(node, mn, vr, sum p t, sum p (t-mean)^2), rtol 1e-9")
    bad = []
    for i in np.flatnonzero(is_sample):
        if not (md[i]["mn"] == ts_in.nodes_time[i] and md[i]["vr"] == 0 and np.all(np.isnan(grid[i]))):
            bad.append((int(i), md[i]["mn"], md[i]["vr"], float(ts_in.nodes_time[i])))
    rep.case("sample-nodes-report-exact-time-zero-variance", not bad, key=key, input=desc, observed=bad[:5],
             expected="mn == input time, vr == 0")


def check_max(rep, ts_in, out, key, desc):
    a, b = ts_in.dump_tables(), out.dump_tables()
    bad = []
    if not (np.array_equal(a.nodes.metadata, b.nodes.metadata) and a.nodes.metadata_schema == b.nodes.metadata_schema
            and np.array_equal(a.nodes.metadata_offset, b.nodes.metadata_offset)):
        bad.append("nodes")
    # mutation rows may be permuted inside a site by the re-sort (known 6-F11): compare per site, then row by row
    ra = [(int(r.site), bytes(a.mutations.metadata[a.mutations.metadata_offset[i]:a.mutations.metadata_offset[i + 1]]))
          for i, r in enumerate(a.mutations)]
    rb = [(int(r.site), bytes(b.mutations.metadata[b.mutations.metadata_offset[i]:b.mutations.metadata_offset[i + 1]]))
          for i, r in enumerate(b.mutations)]
    if sorted(ra) != sorted(rb) or a.mutations.metadata_schema != b.mutations.metadata_schema:
        bad.append("mutations")
    rep.case("maximization-writes-no-time-metadata", not bad, key=key, input=desc, observed=bad, expected=[])
    count = np.bincount(a.mutations.site, minlength=a.sites.num_rows)
    multi = [i for i in range(len(ra)) if count[ra[i][0]] > 1]
    if multi and len(ra) == len(rb):
        moved = [i for i in multi if ra[i] != rb[i]]
        rep.case("known-sort-permutes-mutations-within-site", not moved, key=key, input=desc, observed=moved[:5],
                 expected="row i of the output carries the metadata of input row i")


def run(req, rep):
    tier, seed = req["tier"], int(req["seed"])
    thorough = tier == "thorough"
    rng = np.random.default_rng([seed, 4])
    logging.getLogger("tsdate").setLevel(logging.ERROR)
    rep.space = ("real tsdate.date(return_fit=True): plain suite + rich metadata inputs (JSON/struct/raw/none codecs, "
                 "mutation id tags, multi-mutation sites) x 3 methods x set_metadata {None, True} x sampled options; "
                 "metadata of the output vs fit.node_posteriors()/mutation_posteriors()")
    rep.exhaustive = False
    cases = rich_cases(seed, tier) + struct_cases(seed, tier) + suite(seed, tier, want_inferred=thorough)
    raised, calls = {}, 0
    skipped = {"nodes": 0, "mutations": 0}
    for ci, case in enumerate(cases):
        rich = "node_md" in case.tags
        for method in case.methods():
            for j, kw in enumerate(method_configs(case, method, rng, 2 if (rich or thorough) else 1)):
                sm = [None, True][(ci + j) % 2]
                if sm is not None:
                    kw["set_metadata"] = sm
                if method == "variational_gamma":
                    kw.setdefault("max_iterations", 5)
                    if kw.get("rescaling_intervals") is None and j % 2 == 0:
                        kw["rescaling_intervals"] = 5  # default 1000 often trips the known rescaling assertion
                kw["return_fit"] = True
                calls += 1
                res, err = call_date(case.ts, method, case.mu, case.ne, **kw)
                if err is not None:
                    raised[err[:70]] = raised.get(err[:70], 0) + 1
                    continue
                out, fit = res
                key = f"{case.name}|{method}|{sorted(kw.items())}"
                desc = describe(case, method, case.mu, case.ne, kw)
                if method == "variational_gamma":
                    check_vg(rep, case.ts, out, fit, key, desc, skipped)
                elif method == "inside_outside":
                    check_io(rep, case.ts, out, fit, key, desc, skipped)
                else:
                    check_max(rep, case.ts, out, key, desc)
    rep.bound = (f"{len(cases)} inputs (<= {max(c.ts.num_nodes for c in cases)} nodes, <= "
                 f"{max(c.ts.num_mutations for c in cases)} mutations), {calls} date() calls")
    rep.notes.append(f"date() calls that raised (not cases of this property): {raised}")
    rep.notes.append(f"returned calls in which time metadata was NOT written to a table (set_metadata=None with an "
                     f"incompatible schema; not a case of this property): {skipped}")


if __name__ == "__main__":
    bounded_api.main(run)
