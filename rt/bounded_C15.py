"""
Bounded stand-in for C15 -- "Node span tables behind the mixture prior are exact".

Contract clauses evaluated on the REAL `tsdate.prior.SpansBySamples`, `ConditionalCoalescentTimes.
mixture_expect_and_var` and `MixturePrior`, for every non-sample node u of every generated input:

  nodes-to-date-are-the-non-sample-nodes   set(SpansBySamples(ts).nodes_to_date) == non-sample nodes of ts
  spans-equal-direct-per-tree-count        get_spans(u)[T][k] == total length of local trees in which u has
                                           k sample descendants while T samples are attached to the tree
                                           (pairs that never occur may be absent or 0)
  spans-sum-to-node-span                   sum of get_spans(u) == node_spans[u] == total length of local trees
                                           containing u
  mixture-moments-are-span-weighted        mixture_expect_and_var(get_spans(u)) == (sum_w m / sum_w,
                                           sum_w (v + m^2) / sum_w - mean^2), weights = spans, (m, v) = exact
                                           Kingman moments of a node with k of T tips
  prior-params-encode-mixture-moments      MixturePrior(ts, prior_distribution=d).prior_params[u] decodes
                                           (gamma: a/b, a/b^2; lognorm: exp(a+b/2), (e^b-1)e^{2a+b}) to those
                                           mixture moments, d in {gamma, lognorm}
  sample-rows-of-prior-params-unset        prior_params rows of sample nodes are NaN (they have no prior)

Specification oracles (share no code with tsdate):
  * spans: one pass over `ts.trees()`; T = number of sample nodes that have a parent in that tree, k =
    `tree.num_samples(u)`; a dictionary {(T, k): length} per node.  Only tskit is used.
  * coalescent moments: exact rational Kingman moments (level weights C(T-k-1, a-2)/C(T-1, a), hypo-
    exponential conditional moments), the same specification as in bounded_C14 (where it is validated by
    brute-force enumeration of coalescent histories), re-implemented here with `fractions.Fraction`.
  * mixture: law of total expectation / variance in exact rationals over the oracle spans.

Input space (all inputs: samples at time 0, no unary nodes, exactly one root per local tree when isolated
samples are not counted as roots; every input is checked for these preconditions, else discarded):
  A  every rooted leaf-labelled tree shape with <= 4 (quick) / <= 5 (thorough) leaves, polytomies included,
     as a single-tree sequence                                                     (exhaustive family)
  B  every such shape x every leaf j: leaf j missing (isolated) on the right half of the genome,
     simplified; quick: all shapes with 3..4 leaves, thorough: 3..5 leaves          (exhaustive family)
  C  msprime simulations (3..8 samples, several to dozens of trees, integer breakpoints) with, at random,
     0..2 internal nodes collapsed into polytomies and 0..3 (sample, interval) deletions producing missing
     samples -- including intervals touching the left end, the right end and whole-genome missing samples;
     40 % of them with all node ids randomly permuted (samples not the lowest ids).
     quick: 80 simulations, thorough: 1000; all choices from numpy default_rng(seed).
  Mixture clauses are evaluated on all of A, C and on B.

Tolerances: spans are sums of at most a few hundred interval lengths with integer or half-integer
coordinates: absolute 1e-9 * sequence_length (both sides are exact in practice).  Mixture moments and decoded
prior parameters: relative 1e-9 (algebraically identical computations in doubles vs exact rationals; the
variance is a difference `E[x^2] - mean^2` whose terms are O(1) like the result).

NOT covered: inputs with unary nodes (`allow_unary=True`, second/third pass), multiple-root trees (rejected by
tsdate), historical samples (MixturePrior reduces them first; C15 quantifies over contemporaneous-sample
inputs), approximate priors, the `weight_by_log_span` option, large sample counts.
"""
import functools
import math
from collections import defaultdict
from fractions import Fraction

import msprime
import numpy as np
import tskit

from rt import bounded_api, inputs

RTOL = 1e-9


# ---------------------------------------------------------------------------------- oracles
def direct_spans(ts):
    """{u: {(T, k): length}} by a direct per-tree tally; also {u: total length}."""
    samples = [int(s) for s in ts.samples()]
    is_sample = set(samples)
    spans = defaultdict(lambda: defaultdict(float))
    total = defaultdict(float)
    for tree in ts.trees():
        T = sum(1 for s in samples if tree.parent(s) != tskit.NULL)
        for u in tree.nodes():
            if u in is_sample:
                continue
            k = tree.num_samples(u)
            spans[u][(T, k)] += tree.span
            total[u] += tree.span
    return {u: dict(d) for u, d in spans.items()}, dict(total)


@functools.lru_cache(maxsize=None)
def kingman_moments(n, k):
    """Exact (mean, var) of the age of a node subtending k of n tips under Kingman's coalescent
    (T_j ~ Exp(j(j-1)/2)); see module docstring."""
    assert 2 <= k <= n
    m = {n: Fraction(0)}
    v = {n: Fraction(0)}
    for a in range(n - 1, 0, -1):
        r = Fraction(2, (a + 1) * a)
        m[a] = m[a + 1] + r
        v[a] = v[a + 1] + r * r
    if k == n:
        w = {1: Fraction(1)}
    else:
        w = {a: Fraction(math.comb(n - k - 1, a - 2), math.comb(n - 1, a)) for a in range(2, n - k + 2)}
    z = sum(w.values())
    mean = sum(wa * m[a] for a, wa in w.items()) / z
    second = sum(wa * (v[a] + m[a] ** 2) for a, wa in w.items()) / z
    return mean, second - mean * mean


def mixture_moments(pairs):
    """Exact span-weighted mixture (mean, var) for {(T, k): span}."""
    wsum = Fraction(0)
    s1 = Fraction(0)
    s2 = Fraction(0)
    for (T, k), span in pairs.items():
        w = Fraction(span)
        m, v = kingman_moments(T, k)
        wsum += w
        s1 += w * m
        s2 += w * (v + m * m)
    mean = s1 / wsum
    return mean, s2 / wsum - mean * mean


# ---------------------------------------------------------------------------------- input generation
def drop_sample_interval(ts, sample, left, right):
    """Make `sample` missing (isolated) on [left, right): remove its parent edge there, then simplify."""
    tables = ts.dump_tables()
    edges = tables.edges.copy()
    tables.edges.clear()
    for e in edges:
        if e.child != sample or e.right <= left or e.left >= right:
            tables.edges.add_row(e.left, e.right, e.parent, e.child)
            continue
        if e.left < left:
            tables.edges.add_row(e.left, left, e.parent, e.child)
        if e.right > right:
            tables.edges.add_row(right, e.right, e.parent, e.child)
    tables.sort()
    tables.simplify()
    return tables.tree_sequence()


def collapse_node(ts, u):
    """Remove internal node u everywhere by attaching its children to its parent (creates polytomies).
    Returns None if u is a root somewhere (its children would become extra roots)."""
    up = [(e.left, e.right, e.parent) for e in ts.edges() if e.child == u]
    down = [(e.left, e.right, e.child) for e in ts.edges() if e.parent == u]
    if any(t.num_children(u) > 0 and t.parent(u) == tskit.NULL for t in ts.trees()):
        return None
    tables = ts.dump_tables()
    tables.edges.clear()
    for e in ts.edges():
        if e.child != u and e.parent != u:
            tables.edges.add_row(e.left, e.right, e.parent, e.child)
    for l1, r1, c in down:
        for l2, r2, p in up:
            lo, hi = max(l1, l2), min(r1, r2)
            if lo < hi:
                tables.edges.add_row(lo, hi, p, c)
    tables.mutations.clear()
    tables.sites.clear()
    tables.sort()
    tables.simplify()
    return tables.tree_sequence()


def permute_nodes(ts, rng):
    """The same tree sequence with ALL node ids permuted (samples no longer the lowest ids)."""
    tables = ts.dump_tables()
    tables.subset(rng.permutation(ts.num_nodes).astype(np.int32), record_provenance=False)
    tables.sort()
    return tables.tree_sequence()


def precondition(ts):
    """Samples at 0, simplified (every non-sample node in some tree), no unary nodes, one root per tree
    (isolated samples not counted), at least 2 attached samples in every tree."""
    if ts.num_samples < 2 or np.any(ts.nodes_time[ts.samples()] != 0):
        return False
    seen = set()
    for tree in ts.trees(root_threshold=2):
        if tree.num_roots != 1:
            return False
        for u in tree.nodes(tree.root):
            seen.add(u)
            nc = tree.num_children(u)
            if nc == 1:
                return False
            if nc == 0 and not tree.is_sample(u):
                return False
            if nc > 0 and tree.is_sample(u):
                return False
    nonsample = {u for u in range(ts.num_nodes) if not ts.node(u).is_sample()}
    return nonsample <= seen


def gen_inputs(tier, rng):
    thorough = tier == "thorough"
    max_leaves = 5 if thorough else 4
    for n in range(2, max_leaves + 1):
        for idx, shape in enumerate(inputs.all_tree_shapes(n)):
            ts = inputs.tree_to_ts(shape)
            yield f"A:n{n}#{idx}", ts
            if n >= 3:
                for j in range(n):
                    yield f"B:n{n}#{idx}-leaf{j}", drop_sample_interval(ts, j, 5.0, 10.0)
    nsim = 1000 if thorough else 80
    for i in range(nsim):
        n = int(rng.integers(3, 9))
        L = int(rng.choice([20, 50, 200]))
        rec = float(rng.choice([0.002, 0.01, 0.05]))
        ts = msprime.sim_ancestry(n, ploidy=1, sequence_length=L, recombination_rate=rec, population_size=10,
                                  random_seed=int(rng.integers(1, 2**31)))
        tag = f"C:sim{i}(n={n},L={L},trees={ts.num_trees})"
        for _ in range(int(rng.integers(0, 3))):
            internal = [u for u in range(ts.num_nodes) if not ts.node(u).is_sample()]
            if not internal:
                break
            u = int(rng.choice(internal))
            new = collapse_node(ts, u)
            if new is not None and new.num_edges > 0:
                ts = new
                tag += f"+poly{u}"
        for _ in range(int(rng.integers(0, 4))):
            s = int(rng.choice(ts.samples()))
            mode = int(rng.integers(0, 5))
            a, b = sorted(float(x) for x in rng.integers(0, L + 1, size=2))
            if mode == 0:
                a = 0.0
            elif mode == 1:
                b = float(L)
            elif mode == 2:
                a, b = 0.0, float(L)
            if a >= b:
                continue
            new = drop_sample_interval(ts, s, a, b)
            if precondition(new):
                ts = new
                tag += f"+miss{s}[{a:g},{b:g})"
        if rng.random() < 0.4:
            ts, tag = permute_nodes(ts, rng), tag + "+perm"
        yield tag, ts


# ---------------------------------------------------------------------------------- checks
def close(obs, exp, rtol=RTOL, atol=0.0):
    obs, exp = float(obs), float(exp)
    if not (math.isfinite(obs) and math.isfinite(exp)):
        return False
    return abs(obs - exp) <= rtol * abs(exp) + atol


def decode(distr, alpha, beta):
    if distr == "gamma":
        return alpha / beta, alpha / beta**2
    return math.exp(alpha + beta / 2), math.expm1(beta) * math.exp(2 * alpha + beta)


def check_input(rep, name, ts, stats):
    from tsdate import prior

    tsj = bounded_api.ts_to_json(ts)
    want, want_total = direct_spans(ts)
    nonsample = sorted(u for u in range(ts.num_nodes) if not ts.node(u).is_sample())
    atol = 1e-9 * ts.sequence_length

    # an exception raised by tsdate on an input that satisfies the precondition is a failure of the contract
    try:
        sbs = prior.SpansBySamples(ts)
    except Exception as e:  # noqa: BLE001
        rep.case("spans-equal-direct-per-tree-count", False, key=name, input={"ts": tsj},
                 observed=f"SpansBySamples raised {type(e).__name__}: {e}", expected="span tables")
        return
    rep.case("nodes-to-date-are-the-non-sample-nodes",
             sorted(int(x) for x in sbs.nodes_to_date) == nonsample, key=name, input={"ts": tsj},
             observed=sorted(int(x) for x in sbs.nodes_to_date), expected=nonsample, nontrivial=False)

    cct = prior.ConditionalCoalescentTimes(None, "gamma")
    for T in {T for d in want.values() for (T, _k) in d} | {int(T) for u in nonsample if u in sbs.node_span_data
                                                            for T in sbs.get_spans(u)}:
        if T >= 1:
            cct.add(int(T))
    try:
        mix = {d: prior.MixturePrior(ts, prior_distribution=d) for d in ("gamma", "lognorm")}
    except Exception as e:  # noqa: BLE001
        rep.case("prior-params-encode-mixture-moments", False, key=name, input={"ts": tsj},
                 observed=f"MixturePrior raised {type(e).__name__}: {e}", expected="prior parameters")
        mix = {}

    for u in nonsample:
        key = f"{name}:u{u}"
        inp = {"ts": tsj, "node": u}
        exp = want.get(u, {})
        nontrivial = len(exp) >= 2
        stats["multi"] += int(nontrivial)
        stats["missing"] += int(any(T < ts.num_samples for (T, _k) in exp))
        try:
            got_raw = sbs.get_spans(u)
        except KeyError:
            rep.case("spans-equal-direct-per-tree-count", False, key=key, input=inp, observed="no spans",
                     expected=exp)
            continue
        got = {}
        for T, arr in got_raw.items():
            for k, span in zip(arr["descendant_tips"], arr["span"]):
                got[(int(T), int(k))] = got.get((int(T), int(k)), 0.0) + float(span)
        ok = all(abs(got.get(p, 0.0) - exp.get(p, 0.0)) <= atol for p in set(got) | set(exp))
        rep.case("spans-equal-direct-per-tree-count", ok, key=key, input=inp,
                 observed={str(p): s for p, s in sorted(got.items())},
                 expected={str(p): s for p, s in sorted(exp.items())}, nontrivial=nontrivial)
        tot = want_total.get(u, 0.0)
        ok = abs(sum(got.values()) - tot) <= atol and abs(float(sbs.node_spans[u]) - tot) <= atol
        rep.case("spans-sum-to-node-span", ok, key=key, input=inp,
                 observed=[sum(got.values()), float(sbs.node_spans[u])], expected=tot, nontrivial=nontrivial)

        mean_q, var_q = mixture_moments(exp)
        mean_e, var_e = float(mean_q), float(var_q)
        try:
            m_o, v_o = (float(x) for x in cct.mixture_expect_and_var(got_raw))
        except Exception as e:  # noqa: BLE001
            m_o = v_o = math.nan
            rep.notes.append(f"{key}: mixture_expect_and_var raised {type(e).__name__}: {e}")
        rep.case("mixture-moments-are-span-weighted", close(m_o, mean_e) and close(v_o, var_e), key=key,
                 input=inp, observed=[m_o, v_o], expected=[mean_e, var_e], nontrivial=nontrivial)
        for d, mp in mix.items():
            a, b = (float(x) for x in mp.prior_params[u])
            m_d, v_d = decode(d, a, b)
            rep.case("prior-params-encode-mixture-moments", close(m_d, mean_e) and close(v_d, var_e), key=key,
                     input=dict(inp, prior_distribution=d), observed=[a, b, m_d, v_d], expected=[mean_e, var_e],
                     nontrivial=nontrivial)
    for d, mp in mix.items():
        rows = mp.prior_params[ts.samples()]
        rep.case("sample-rows-of-prior-params-unset", bool(np.all(np.isnan(rows))), key=name,
                 input={"ts": tsj, "prior_distribution": d}, observed=rows, expected="NaN", nontrivial=False)


def run(req, rep):
    tier, seed = req["tier"], req["seed"]
    rng = np.random.default_rng(seed)
    thorough = tier == "thorough"
    rep.space = ("A: all leaf-labelled tree shapes (polytomies incl.) as single trees; B: each shape x each leaf "
                 "missing on the right half; C: msprime simulations with random polytomy collapses and missing-"
                 "sample intervals; every non-sample node of every input")
    rep.bound = (f"A,B: <= {5 if thorough else 4} leaves (exhaustive); C: {1000 if thorough else 80} simulations, "
                 "3..8 samples, L in {20,50,200}")
    rep.exhaustive = False
    stats = {"inputs": 0, "discarded": 0, "multi": 0, "missing": 0, "polytomy_inputs": 0}
    for name, ts in gen_inputs(tier, rng):
        if not precondition(ts):
            stats["discarded"] += 1
            continue
        stats["inputs"] += 1
        if any(t.num_children(u) > 2 for t in ts.trees() for u in t.nodes()):
            stats["polytomy_inputs"] += 1
        check_input(rep, name, ts, stats)
    rep.notes.append(f"inputs={stats['inputs']} (discarded as outside the precondition: {stats['discarded']}), "
                     f"with a polytomy: {stats['polytomy_inputs']}; nodes with >= 2 (T,k) pairs: {stats['multi']}; "
                     f"nodes seen in a tree with a missing sample: {stats['missing']}")


if __name__ == "__main__":
    bounded_api.main(run)
