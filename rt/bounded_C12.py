"""
Bounded stand-in (G4) for C12 -- "linear and logarithmic probability spaces agree" (end-to-end part; the
operation-by-operation homomorphism is G1's job).

For every input the REAL `tsdate.inside_outside` and `tsdate.maximization` are each run twice (public API,
probability_space="linear" and "logarithmic", identical other arguments, fresh copy of the same prior) and the
two results are compared.  Clauses (one evaluation per input that satisfies the precondition):

  inside-outside-node-times-agree       returned nodes_time and mutations_time of the two dated tree sequences
  inside-outside-posteriors-agree       fit.node_posteriors() entry by entry (NaN rows of samples on both sides)
  inside-outside-metadata-agree         node metadata "mn" and "vr" of every non-sample node
  inside-outside-likelihood-agrees      log(linear return_likelihood) == logarithmic return_likelihood
  maximization-node-times-agree         fit.posterior_mean bit-equal (both index the same timepoints array) and
                                        returned nodes_time equal
  maximization-likelihood-agrees        as above for maximization's returned likelihood
  failure-behaviour-agrees              if one space raises, the other raises the same exception type

Precondition (from the statement): "whenever the linear-space computation neither underflows nor overflows".
It is evaluated literally: the linear-space call runs under np.errstate(under="call", over="call") with a
callback that records whether any numpy/scipy floating-point operation of that run underflowed or overflowed.
Flagged inputs are excluded from the clauses of that method and counted in the notes (never reported as passes).
Maximization ties: if the two spaces pick different timepoints for a node whose parents agree, the declarative
objective of C13 (log inside + sum of log Poisson edge terms, own formulas, inside row taken from the
logarithmic run) is evaluated at both picks; a difference <= 1e-9 is a tie (excluded, counted), anything else fails.

Tolerances ("up to floating-point tolerance"): the two runs perform the same real-number computation through
different roundings (products vs sums of logs, np.add.reduceat vs streaming log-sum-exp), so results are not
bit-identical.  rtol 1e-9 (observed differences are <= ~1e-12) on times, means, variances and on every posterior
entry, with an absolute floor of 1e-280 on posterior entries (subnormal range) and of 1e-18 * max|t|^2 on variances
(the variance of a numerical point mass is a sum of rounding-level terms (1e-13 t)^2 in both spaces);
likelihood: |log(linear) - logarithmic| <= 1e-9.

Input space / bound
  single trees   rooted leaf-labelled trees incl. polytomies x mutation patterns (all 1; seeded from {0,1,2,3,6};
                 seeded sparse from {0,0,0,1,4}) x rotating (grid, prior) from 4 grids x {lognorm, gamma,
                 synthetic-with-zeros};  quick: all 31 trees with 2-4 leaves + 20 seeded 5-leaf trees, 1 combination
                 per pattern;  thorough: all 267 trees with 2-5 leaves, 3 combinations per pattern
  ARGs           msprime simulations with recombination 1e-6..5e-6 and mutation rate 2e-6 (multi-parent nodes, tens of
                 mutations, so that linear space stays in range), 3-7 haploid or 3 diploid samples, plus
                 collapsed-polytomy single trees with thinned mutations; <= 50 nodes; quick 14, thorough 150 inputs; priors from
                 tsdate.build_prior_grid (4-8 quantile timepoints or an explicit grid; lognorm / gamma)
  options        eps drawn from {1e-8 (default), 1e-3, 1.0, 0}; mutation rate nominal or 4 x nominal;
                 outside_standardize and cache_inside drawn per input (same for both spaces)
  `exhaustive` is False.

NOT covered: inputs with more than ~50 nodes or grids above ~12 points; inputs where linear space under/overflows
(excluded by the statement); historical samples (rejected by the discrete methods); the variational method (has no
probability space); numba-compiled vs interpreted log-sum-exp differences (the runner decides NUMBA_DISABLE_JIT).
"""
import copy
import math
import warnings

import numpy as np

from rt import bounded_api, inputs

RTOL = 1e-9
POST_ATOL = 1e-280
TIE_TOL = 1e-9
SIM_MU = 2e-6

GRIDS = {
    "A": np.array([0.0, 100.0, 200.0, 300.0, 400.0]),
    "B": np.array([0.0, 1.0, 10.0, 100.0, 1000.0]),
    "C": np.array([0.0, 30.0, 30.5, 120.0, 121.0, 500.0]),
    "Q": 4,
}
PRIOR_KINDS = ("lognorm", "gamma", "synthetic")


# ------------------------------------------------------------------------------- helpers (specification side)
def log_poisson(m, lam):
    lam = np.asarray(lam, dtype=float)
    out = np.empty_like(lam)
    pos = lam > 0
    out[pos] = m * np.log(lam[pos]) - lam[pos] - math.lgamma(m + 1)
    out[~pos] = 0.0 if m == 0 else -np.inf
    return out


def edge_records(ts):
    """[(parent, child, span, mutations on that edge)], mutations tallied from site positions."""
    left, right = ts.edges_left, ts.edges_right
    by_child = {}
    for e in range(ts.num_edges):
        by_child.setdefault(int(ts.edges_child[e]), []).append(e)
    count = np.zeros(ts.num_edges, dtype=int)
    pos = ts.sites_position
    for s, node in zip(ts.mutations_site, ts.mutations_node):
        for e in by_child.get(int(node), []):
            if left[e] <= pos[s] < right[e]:
                count[e] += 1
    return [(int(ts.edges_parent[e]), int(ts.edges_child[e]), float(right[e] - left[e]), int(count[e]))
            for e in range(ts.num_edges)]


def close(a, b, atol=0.0):
    a = np.asarray(a, dtype=float)
    b = np.asarray(b, dtype=float)
    if a.shape != b.shape:
        return False
    nan = np.isnan(a) | np.isnan(b)
    if np.any(np.isnan(a) != np.isnan(b)):
        return False
    a, b = a[~nan], b[~nan]
    return bool(np.all(np.abs(a - b) <= RTOL * np.maximum(np.abs(a), np.abs(b)) + atol))


def max_rel(a, b, floor=1e-200):
    a = np.asarray(a, dtype=float).ravel()
    b = np.asarray(b, dtype=float).ravel()
    ok = np.isfinite(a) & np.isfinite(b) & (np.maximum(np.abs(a), np.abs(b)) > floor)
    if not np.any(ok):
        return 0.0
    return float(np.max(np.abs(a[ok] - b[ok]) / np.maximum(np.abs(a[ok]), np.abs(b[ok]))))


class FlagRecorder:
    """Callback for np.errstate(under='call', over='call')."""
    def __init__(self):
        self.flags = set()

    def __call__(self, kind, flag):
        self.flags.add(str(kind))


def call_recording(fn, record):
    """Run fn(); if `record`, note numpy underflow/overflow events.  Returns (result | None, error | None, flags)."""
    rec = FlagRecorder()
    try:
        with warnings.catch_warnings():
            warnings.simplefilter("ignore")
            if record:
                old = np.seterrcall(rec)
                try:
                    with np.errstate(under="call", over="call"):
                        out = fn()
                finally:
                    np.seterrcall(old)
            else:
                out = fn()
        return out, None, rec.flags
    except Exception as e:
        return None, f"{type(e).__name__}: {e}", rec.flags


def node_meta(ts, field):
    out = np.full(ts.num_nodes, np.nan)
    for u in range(ts.num_nodes):
        md = ts.node(u).metadata
        if isinstance(md, dict) and field in md:
            out[u] = md[field]
    return out


def maximization_tie(ts, t, pm_lin, pm_log, inside_log, mu, eps):
    """True iff the first disagreement (a node all of whose parents agree) is a tie of the C13 objective."""
    samples = set(int(s) for s in ts.samples())
    up = {}
    for p, c, span, m in edge_records(ts):
        up.setdefault(c, []).append((p, span, m))
    for u in range(ts.num_nodes):
        if u in samples or pm_lin[u] == pm_log[u]:
            continue
        if any(pm_lin[p] != pm_log[p] for p, _, _ in up.get(u, [])):
            continue        # downstream of another disagreement
        obj = np.array(inside_log[u], dtype=float)
        i_lin = int(np.nonzero(t == pm_lin[u])[0][0])
        i_log = int(np.nonzero(t == pm_log[u])[0][0])
        for p, span, m in up.get(u, []):
            tp = pm_log[p]
            with np.errstate(invalid="ignore"):
                obj = obj + np.where(t <= tp, log_poisson(m, np.maximum(tp - t, 0.0) * mu * span + eps * mu * span),
                                     -np.inf)
        if not abs(obj[i_lin] - obj[i_log]) <= TIE_TOL:
            return False
    return True


# ------------------------------------------------------------------------------- inputs
def mutation_pattern(kind, ts_plain, rng):
    root = ts_plain.first().root
    children = [u for u in range(ts_plain.num_nodes) if u != root]
    if kind == "ones":
        return {u: 1 for u in children}
    if kind == "mixed":
        pat = {u: int(rng.choice([0, 1, 2, 3, 6])) for u in children}
        pat[root] = 1
    else:
        pat = {u: int(rng.choice([0, 0, 0, 1, 4])) for u in children}
    return {u: k for u, k in pat.items() if k > 0}


def make_prior(ts, grid, kind, rng, ne=100):
    import tsdate
    from tsdate.node_time_class import NodeTimeValues
    with warnings.catch_warnings():
        warnings.simplefilter("ignore")
        base = tsdate.build_prior_grid(ts, population_size=ne, timepoints=grid,
                                       prior_distribution="gamma" if kind == "gamma" else "lognorm")
    if kind != "synthetic":
        return base
    t = np.array(base.timepoints, dtype=float)
    pr = NodeTimeValues(ts.num_nodes, np.array(base.nonfixed_nodes), t)
    for u in base.nonfixed_nodes:
        row = rng.uniform(0.05, 1.0, size=len(t))
        row[int(rng.integers(0, len(t) - 1))] = 0.0
        pr[u] = row
    return pr


def arg_inputs(seed, count):
    out = []
    i = 0
    while len(out) < count:
        kind = i % 5
        s = seed * 1000 + 500 + i
        if kind == 4:
            ts = inputs.with_polytomy(s).simplify()   # drop the node left without edges
            keep = np.arange(ts.num_sites) % 8 == 0     # thin the mutations (the shared generator uses mu = 2e-4)
            ts = ts.delete_sites(np.nonzero(~keep)[0])
            name = f"polytomy{i}"
        elif kind == 3:
            ts = inputs.sim(s, n=3, ploidy=2, rec=2e-6, mu=SIM_MU)
            name = f"diploid{i}"
        else:
            n = 3 + (i % 5)
            rec = (1e-6, 3e-6, 5e-6)[kind]
            ts = inputs.sim(s, n=n, rec=rec, mu=SIM_MU)
            name = f"sim{i}_n{n}_rec{rec}"
        i += 1
        if ts.num_nodes > 50 or ts.num_mutations == 0:
            continue
        out.append((name, ts, 2.5e-5 if kind == 4 else SIM_MU))
    return out


# ------------------------------------------------------------------------------- the comparison
def compare_input(rep, state, key, ts, pr, mu, eps, opts, desc):
    import tsdate
    t = np.array(pr.timepoints, dtype=float)
    K = len(t)
    d = dict(desc, mutation_rate=mu, eps=eps, timepoints=t, options=opts)

    # ---------------- inside_outside
    def io(space):
        return tsdate.inside_outside(ts, mutation_rate=mu, priors=copy.deepcopy(pr), eps=eps,
                                     probability_space=space, return_fit=True, return_likelihood=True, **opts)

    lin, err_lin, flags = call_recording(lambda: io("linear"), True)
    log, err_log, _ = call_recording(lambda: io("logarithmic"), False)
    if flags:
        state["io_flagged"] += 1
        if lin is not None and log is not None and close(lin[0].nodes_time, log[0].nodes_time):
            state["io_flagged_agree"] += 1      # informational only
    elif err_lin or err_log:
        same = (err_lin or "").split(":")[0] == (err_log or "").split(":")[0]
        rep.case("failure-behaviour-agrees", same, key=key, input=dict(d, method="inside_outside"),
                 observed={"linear": err_lin, "logarithmic": err_log}, expected="same outcome", nontrivial=False)
        state["io_both_raise"] += int(same)
    else:
        (ts1, fit1, lik1), (ts2, fit2, lik2) = lin, log
        P1 = np.array(fit1.node_posteriors().tolist(), dtype=float).reshape(-1, K)
        P2 = np.array(fit2.node_posteriors().tolist(), dtype=float).reshape(-1, K)
        rows = P2[[u for u in range(ts.num_nodes) if not ts.node(u).is_sample()]]
        nontrivial = bool(np.any(np.max(rows, axis=1) < 1 - 1e-12))     # some posterior is not a point mass
        md = dict(d, method="inside_outside")
        ok = close(ts1.nodes_time, ts2.nodes_time) and close(ts1.mutations_time, ts2.mutations_time)
        rep.case("inside-outside-node-times-agree", ok, key=key, input=md, observed=ts1.nodes_time,
                 expected=ts2.nodes_time, nontrivial=nontrivial)
        ok = close(P1, P2, atol=POST_ATOL)
        bad = np.argwhere(~(np.abs(P1 - P2) <= RTOL * np.maximum(np.abs(P1), np.abs(P2)) + POST_ATOL)
                          & ~(np.isnan(P1) & np.isnan(P2)))
        rep.case("inside-outside-posteriors-agree", ok, key=key, input=md,
                 observed={"differing [node, timepoint]": bad[:5], "linear": [P1[i, j] for i, j in bad[:5]]},
                 expected={"logarithmic": [P2[i, j] for i, j in bad[:5]]}, nontrivial=nontrivial)
        mn1, mn2 = node_meta(ts1, "mn"), node_meta(ts2, "mn")
        vr1, vr2 = node_meta(ts1, "vr"), node_meta(ts2, "vr")
        ok = close(mn1, mn2) and close(vr1, vr2, atol=RTOL * RTOL * float(np.max(np.abs(t))) ** 2)
        rep.case("inside-outside-metadata-agree", ok, key=key, input=md, observed={"mn": mn1, "vr": vr1},
                 expected={"mn": mn2, "vr": vr2}, nontrivial=nontrivial)
        ok = bool(lik1 > 0 and np.isfinite(lik2) and abs(math.log(lik1) - lik2) <= RTOL)
        rep.case("inside-outside-likelihood-agrees", ok, key=key, input=md, observed=lik1,
                 expected=f"exp({lik2})", nontrivial=True)
        state["io_compared"] += 1
        state["max_rel_post"] = max(state["max_rel_post"], max_rel(P1, P2))
        state["max_rel_time"] = max(state["max_rel_time"], max_rel(ts1.nodes_time, ts2.nodes_time, 0.0))

    # ---------------- maximization
    def mx(space):
        return tsdate.maximization(ts, mutation_rate=mu, priors=copy.deepcopy(pr), eps=eps,
                                   probability_space=space, return_fit=True, return_likelihood=True,
                                   cache_inside=opts["cache_inside"])

    lin, err_lin, flags = call_recording(lambda: mx("linear"), True)
    log, err_log, _ = call_recording(lambda: mx("logarithmic"), False)
    md = dict(d, method="maximization")
    if flags:
        state["mx_flagged"] += 1
        if lin is not None and log is not None and close(lin[0].nodes_time, log[0].nodes_time):
            state["mx_flagged_agree"] += 1      # informational only
        return
    if err_lin or err_log:
        same = (err_lin or "").split(":")[0] == (err_log or "").split(":")[0]
        rep.case("failure-behaviour-agrees", same, key=key, input=md,
                 observed={"linear": err_lin, "logarithmic": err_log}, expected="same outcome", nontrivial=False)
        return
    (ts1, fit1, lik1), (ts2, fit2, lik2) = lin, log
    pm1, pm2 = np.array(fit1.posterior_mean), np.array(fit2.posterior_mean)
    inside_log = {int(u): np.array(fit2.inside[u], dtype=float) for u in pr.nonfixed_nodes}
    if any(np.any(np.isnan(r)) for r in inside_log.values()):
        state["mx_infeasible"] += 1       # NaN inside rows in logarithmic space: infeasible eps = 0 model
        return
    nonsample = np.array([u for u in range(ts.num_nodes) if not ts.node(u).is_sample()])
    nontrivial = len(set(pm2[nonsample].tolist())) > 1 or K > 2
    if not np.array_equal(pm1, pm2) and maximization_tie(ts, t, pm1, pm2, inside_log, mu, eps):
        state["mx_ties"] += 1
    else:
        ok = bool(np.array_equal(pm1, pm2)) and close(ts1.nodes_time, ts2.nodes_time)
        rep.case("maximization-node-times-agree", ok, key=key, input=md,
                 observed={"assigned": pm1, "nodes_time": ts1.nodes_time},
                 expected={"assigned": pm2, "nodes_time": ts2.nodes_time}, nontrivial=nontrivial)
    ok = bool(lik1 > 0 and np.isfinite(lik2) and abs(math.log(lik1) - lik2) <= RTOL)
    rep.case("maximization-likelihood-agrees", ok, key=key, input=md, observed=lik1, expected=f"exp({lik2})",
             nontrivial=True)
    state["mx_compared"] += 1


def run(req, rep):
    tier, seed = req["tier"], int(req["seed"])
    thorough = tier == "thorough"
    rng = np.random.default_rng(seed)
    state = {k: 0 for k in ("io_flagged", "io_both_raise", "io_compared", "mx_flagged", "mx_infeasible", "mx_ties",
                            "mx_compared", "io_flagged_agree", "mx_flagged_agree")}
    state["max_rel_post"] = 0.0
    state["max_rel_time"] = 0.0
    trees = [s for n in (2, 3, 4) for s in inputs.all_tree_shapes(n)]
    five = list(inputs.all_tree_shapes(5))
    trees += five if thorough else [five[i] for i in sorted(rng.choice(len(five), size=20, replace=False))]
    combos = [(g, p) for g in GRIDS for p in PRIOR_KINDS]
    eps_choices = [1e-8, 1e-8, 1e-3, 1.0, 0.0]
    opt_choices = [{"outside_standardize": a, "cache_inside": b} for a in (True, False) for b in (False, True)]
    n_arg = 150 if thorough else 14
    per_pattern = 3 if thorough else 1
    rep.space = ("inside_outside and maximization, each run in linear and in logarithmic space on the same input: "
                 "(a) single trees (shapes incl. polytomies x mutation patterns x (grid, prior)), (b) simulated "
                 "multi-tree ARGs; eps, mutation rate, outside_standardize, cache_inside drawn per input")
    rep.bound = (f"(a) {len(trees)} trees with <= 5 leaves x 3 mutation patterns x {per_pattern} (grid, prior) "
                 f"combination(s), grids of 5-12 points; (b) {n_arg} simulated inputs with <= 50 nodes")
    rep.exhaustive = False
    for ti, shape in enumerate(trees):
        plain = inputs.tree_to_ts(shape)
        for pi, kind in enumerate(("ones", "mixed", "sparse")):
            muts = mutation_pattern(kind, plain, rng)
            for j in range(per_pattern):
                g, p = combos[(ti * 5 + pi * 3 + j * 7) % len(combos)]
                eps = eps_choices[int(rng.integers(len(eps_choices)))]
                L, mu = ((10.0, 1e-3), (3.5, 4e-3))[int(rng.integers(2))]
                opts = opt_choices[int(rng.integers(4))]
                ts = inputs.tree_to_ts(shape, sequence_length=L, mutations=muts)
                pr = make_prior(ts, GRIDS[g], p, rng)
                key = f"tree{shape}|{kind}:{sorted(muts.items())}|L{L}|mu{mu}|{g}|{p}|eps{eps}"
                desc = {"shape": shape, "mutations": {str(k): v for k, v in muts.items()}, "sequence_length": L,
                        "prior": p, "prior_rows": {str(int(u)): np.array(pr[u]) for u in pr.nonfixed_nodes}}
                compare_input(rep, state, key, ts, pr, mu, eps, opts, desc)
    for k, (name, ts, mu0) in enumerate(arg_inputs(seed, n_arg)):
        grid = [4, 6, 8, np.array([0.0, 20.0, 60.0, 150.0, 400.0, 1200.0])][k % 4]
        kind = ("lognorm", "gamma")[(k // 2) % 2]
        eps = eps_choices[int(rng.integers(len(eps_choices)))]
        mu = mu0 * (4 if k % 3 == 2 else 1)
        opts = opt_choices[int(rng.integers(4))]
        pr = make_prior(ts, grid, kind, rng)
        key = f"{name}|grid{k % 4}|{kind}|mu{mu}|eps{eps}"
        desc = {"generator": name, "seed": seed, "prior": kind,
                "grid": grid if isinstance(grid, int) else grid.tolist(), "population_size": 100,
                "ts": bounded_api.ts_to_json(ts)}
        compare_input(rep, state, key, ts, pr, mu, eps, opts, desc)
    rep.notes.append(
        f"inside_outside: {state['io_compared']} inputs compared, {state['io_flagged']} excluded because the "
        f"linear run under/overflowed (of which {state['io_flagged_agree']} nevertheless agree on node times), "
        f"{state['io_both_raise']} where both spaces raised the same error; "
        f"maximization: {state['mx_compared']} compared, {state['mx_flagged']} excluded (under/overflow; "
        f"{state['mx_flagged_agree']} of them nevertheless agree), "
        f"{state['mx_infeasible']} excluded (NaN inside rows, infeasible eps = 0 model), {state['mx_ties']} ties; "
        f"largest relative difference: posterior entries {state['max_rel_post']:.2e}, node times "
        f"{state['max_rel_time']:.2e}")


if __name__ == "__main__":
    bounded_api.main(run)
