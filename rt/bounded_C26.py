"""
Bounded stand-in (G4) for C26 -- "Changepoint helpers meet their specification".

Targets (the REAL functions, called directly): tsdate.rescaling._fixed_changepoints and
tsdate.rescaling._poisson_changepoints.

Contract clauses evaluated
--------------------------
_fixed_changepoints(counts, epochs), precondition counts >= 0, sum(counts) > 0, epochs >= 1:
  fixed-boundaries-nondecreasing-from-0-to-n
      the result has epochs+1 integer entries, the first is 0, the last is n = len(counts) and the
      entries never decrease.
  fixed-interior-boundary-is-last-index-with-fraction-at-most-k-over-epochs
      for every 0 < k < epochs, e[k] = max{ i in 0..n : (counts[0]+..+counts[i-1]) / sum(counts) <= k/epochs }.
      The oracle evaluates the inequality in exact rational arithmetic (fractions.Fraction of the
      float inputs is exact), so on integer-valued counts exact ties (fraction == k/epochs) are
      decided as the statement says ("at most"): NO tolerance on integer-valued inputs.  Evaluated
      for every interior k except those routed to the next clause (so it includes all exact ties
      whenever epochs is a power of two, where k/epochs is exactly representable).
  known-fixed-exact-tie-at-unrepresentable-fraction-decided-by-rounding
      the same equality for the interior k at which a cumulative fraction equals k/epochs EXACTLY
      while epochs is not a power of two.  The code compares fl(S_i/S_n) with numpy.linspace's
      k*fl(1/epochs); the two roundings of the same rational can differ by one ulp, so the tie is
      decided by rounding and the boundary can be one index short of "the last index with fraction
      at most k/epochs" (e.g. counts [2,3,1], epochs 6: fraction 5/6 at index 2 is excluded for k=5).
      Expected to FAIL on part of this domain; found by this check, not listed in DESIGN section 6.
  fixed-interior-boundary-real-valued-counts
      same clause on random real-valued counts (what mutational_timescale passes: offset*duration).
      There the code's Z = cumsum/total and linspace grid carry rounding, so the boundary is
      required to lie between the exact answers for thresholds k/epochs -/+ 1e-12 (a few hundred
      ulp of a quantity in [0,1] obtained from <= 16 additions and one division; exact ties have
      probability ~0 for these inputs, the band only absorbs rounding).

_poisson_changepoints(counts, offset, penalty, min_counts, min_offset), precondition offset > 0,
counts >= 0, penalty, min_counts, min_offset >= 0:
  poisson-breaks-well-formed                    (every input that returns)
      integer breaks, first 0, last n, strictly increasing.
  poisson-result-feasible-when-a-feasible-segmentation-exists   (every input that returns)
      if the single segment [0,n) meets both minima (<=> some segmentation does), every returned
      segment has sum(counts) >= min_counts and sum(offset) >= min_offset.
  poisson-minimises-penalised-deviance
      STRICT optimality clause.  Domain: inputs on which no contiguous segment is infeasible (each
      single observation meets min_counts and min_offset; includes min_counts = min_offset = 0) and
      no admissible segment has a zero count total.  The returned segmentation's objective
          sum_seg -2*(y*log(y/n) - y) + penalty*(#segments - 1)        (y = counts, n = offset in the segment)
      must equal the minimum over ALL 2^(n-1) segmentations (brute force, written from the Poisson
      profile likelihood, no code shared with tsdate) up to rtol 1e-9 of sum|segment terms| -- the
      two computations are algebraically identical sums evaluated in a different association order.
      Only the objective value is compared, so tied optima are accepted.
  known-pelt-prunes-infeasible-candidates        (DESIGN 6-F9)
      same optimality check on the inputs where a minimum makes at least one contiguous segment
      infeasible while a feasible segmentation exists (and no zero-count admissible segment).  The
      code prunes a candidate changepoint for good as soon as the segment starting there is
      infeasible (cost inf > F[j]+penalty), although it becomes feasible for later end points.
      Expected to FAIL on part of this domain; kept separate so the strict clause stays strict.
  known-poisson-zero-count-segment-undefined-cost  (DESIGN 6-F9, second sentence)
      inputs in which some contiguous segment has count total 0 and is admissible under the minima
      (so min_counts = 0).  The Poisson deviance of such a segment is 0 (0*log 0 := 0); the code
      evaluates log(0): ValueError("math domain error") as plain Python, NaN cost under the JIT.
      Optimality against the brute force with the 0*log 0 = 0 convention is evaluated; expected to
      FAIL (raise) on this domain.
  poisson-infeasible-input-returns-single-segment   (informational, not counted as non-trivial)
      when even [0,n) violates a minimum no admissible segmentation exists and the statement is
      vacuous; the code is observed to return [0, n].

Input space and bound per tier
------------------------------
quick   : fixed   -- ALL integer count vectors of length 1..5 over {0,1,2,3} with positive sum x epochs 1..7
                     (exhaustive) + 300 seeded random real-valued vectors (length 1..12, epochs 1..20).
          poisson -- ALL (counts, offset) vectors of length 1..4 over {0,1,2,5} x {1,3}, plus ALL count
                     vectors of length 5..6 over {0,1,2,5} with unit offsets, x penalties {0,1,4}
                     x (min_counts, min_offset) in {(0,0),(1,0),(0,1),(3,0),(0,2),(4,3)}
                     (exhaustive) + 400 seeded random real-valued inputs of length 2..10.
thorough: fixed   -- length 1..7 over {0,1,2,3,5} x epochs 1..9 (exhaustive) + 5000 random.
          poisson -- (counts, offset) length 1..5 over {0,1,2,5} x {1,3}; counts length 6..7 over {0,1,2,5}
                     with unit offsets; x penalties {0,0.5,1,2,4,9} x minima {(0,0),(1,0),(0,1),(2,0),(3,0),
                     (0,2),(0,4),(4,3),(7,0),(2.5,1.5)} (exhaustive) + 5000 random of length 2..12.

Tolerances: none for the fixed helper on integers; 1e-12 threshold band for real-valued counts;
rtol 1e-9 (of the sum of absolute terms) on objective values for the Poisson helper.

NOT covered: counts with zero total for the fixed helper (the mass fraction is undefined); offsets
equal to 0 (a segment with zero exposure has no finite Poisson rate); negative / non-finite inputs
(the code asserts); vectors longer than the bounds above; the JIT-compiled variants when run with
NUMBA_DISABLE_JIT=1 (the same source is executed as plain Python); whether the helpers are wired
correctly into mutational_timescale (C25).
"""
import itertools
import math
from fractions import Fraction

import numpy as np

from rt import bounded_api, inputs  # noqa: F401  (inputs: protocol import, no shared helper needed here)


# ------------------------------------------------------------------ oracles (from the statement only)
def spec_fixed_interior(counts, epochs, slack=Fraction(0)):
    """e[k] for 0<k<epochs: last index i in 0..n with cumulative fraction <= k/epochs (+ slack), exact."""
    c = [Fraction(float(x)) for x in counts]
    total = sum(c)
    prefix = [Fraction(0)]
    for x in c:
        prefix.append(prefix[-1] + x)
    out = []
    for k in range(1, epochs):
        thr = (Fraction(k, epochs) + slack) * total
        out.append(max(i for i in range(len(prefix)) if prefix[i] <= thr))
    return out


def spec_fixed_ties(counts, epochs):
    """Interior k at which some cumulative fraction equals k/epochs exactly (rational arithmetic)."""
    c = [Fraction(float(x)) for x in counts]
    total = sum(c)
    prefix, acc = set(), Fraction(0)
    for x in c:
        acc += x
        prefix.add(acc)
    return [k for k in range(1, epochs) if Fraction(k, epochs) * total in prefix]


def seg_deviance(y, n):
    """-2 * max_lambda [ y*log(lambda) - lambda*n ]  (Poisson profile log-likelihood, constants dropped)."""
    if y == 0:
        return 0.0  # lambda_hat = 0, log-likelihood 0
    lam = y / n
    return -2.0 * (y * math.log(lam) - lam * n)


_TABLE_MEMO = {}


def spec_poisson_table(counts, offset, min_counts, min_offset):
    """Brute force over ALL 2^(n-1) segmentations.  Returns (table, seginfo):
    seginfo[(i,j)] = (admissible, deviance, y, n) for the segment of observations i..j-1;
    table[m] = (smallest sum of deviances, largest sum of |deviances|) over the admissible
    segmentations with m changepoints (the penalty term only depends on m, so the minimum over all
    segmentations for a given penalty is min_m table[m][0] + penalty*m).  One-entry memo: the
    callers loop over penalties innermost."""
    memo_key = (tuple(counts), tuple(offset), min_counts, min_offset)
    if memo_key in _TABLE_MEMO:
        return _TABLE_MEMO[memo_key]
    n = len(counts)
    seg = {}
    for i in range(n):
        for j in range(i + 1, n + 1):
            y = math.fsum(counts[i:j])
            w = math.fsum(offset[i:j])
            feas = (y >= min_counts) and (w >= min_offset)
            seg[(i, j)] = (feas, seg_deviance(y, w), y, w)
    table = {}
    for mask in range(1 << (n - 1)):
        cuts = [0] + [p + 1 for p in range(n - 1) if mask >> p & 1] + [n]
        tot, sc, ok = 0.0, 0.0, True
        for a, b in zip(cuts[:-1], cuts[1:]):
            f, d, _, _ = seg[(a, b)]
            if not f:
                ok = False
                break
            tot += d
            sc += abs(d)
        if not ok:
            continue
        m = len(cuts) - 2
        if m in table:
            table[m] = (min(table[m][0], tot), max(table[m][1], sc))
        else:
            table[m] = (tot, sc)
    _TABLE_MEMO.clear()
    _TABLE_MEMO[memo_key] = (table, seg)
    return table, seg


def spec_poisson(counts, offset, penalty, min_counts, min_offset):
    """(minimum penalised deviance over all admissible segmentations or None, magnitude scale, seginfo)."""
    table, seg = spec_poisson_table(counts, offset, min_counts, min_offset)
    if not table:
        return None, 0.0, seg
    best = min(d + penalty * m for m, (d, _) in table.items())
    scale = max(sc + penalty * m for m, (_, sc) in table.items())
    return best, scale, seg


def objective(breaks, seg, penalty):
    tot = 0.0
    for a, b in zip(breaks[:-1], breaks[1:]):
        f, d, _, _ = seg[(a, b)]
        if not f:
            return math.inf
        tot += d
    return tot + penalty * (len(breaks) - 2)


# ------------------------------------------------------------------ fixed changepoints
def check_fixed(rep, fn, counts, epochs, real_valued, key):
    counts = np.asarray(counts, dtype=np.float64)
    n = counts.size
    desc = {"fn": "_fixed_changepoints", "counts": counts.tolist(), "epochs": epochs}
    try:
        e = fn(counts, epochs)
    except Exception as ex:  # any exception on a valid input violates "returns ... boundaries"
        rep.case("fixed-boundaries-nondecreasing-from-0-to-n", False, key=key, input=desc,
                 observed=f"{type(ex).__name__}: {ex}", expected="returns")
        return
    e = [int(x) for x in e]
    ok = (len(e) == epochs + 1 and e[0] == 0 and e[-1] == n and all(a <= b for a, b in zip(e[:-1], e[1:])))
    rep.case("fixed-boundaries-nondecreasing-from-0-to-n", ok, key=key, input=desc, observed=e,
             expected=f"{epochs + 1} non-decreasing entries from 0 to {n}")
    if epochs < 2 or len(e) != epochs + 1:
        return
    if not real_valued:
        want = spec_fixed_interior(counts, epochs)
        ties = spec_fixed_ties(counts, epochs)
        pow2 = (epochs & (epochs - 1)) == 0  # k/epochs exactly representable: rounding cannot decide a tie
        hazard = [k for k in ties if not pow2]
        plain = [k for k in range(1, epochs) if k not in hazard]
        if plain:
            rep.case("fixed-interior-boundary-is-last-index-with-fraction-at-most-k-over-epochs",
                     all(e[k] == want[k - 1] for k in plain), key=key, input=desc,
                     observed={"k": plain, "e": [e[k] for k in plain]},
                     expected=[want[k - 1] for k in plain])
        if hazard:
            rep.case("known-fixed-exact-tie-at-unrepresentable-fraction-decided-by-rounding",
                     all(e[k] == want[k - 1] for k in hazard), key=key, input=desc,
                     observed={"k": hazard, "e": [e[k] for k in hazard]},
                     expected=[want[k - 1] for k in hazard])
    else:
        band = Fraction(1, 10 ** 12)
        lo = spec_fixed_interior(counts, epochs, -band)
        hi = spec_fixed_interior(counts, epochs, band)
        ok = all(a <= x <= b for a, x, b in zip(lo, e[1:-1], hi))
        rep.case("fixed-interior-boundary-real-valued-counts", ok, key=key, input=desc, observed=e[1:-1],
                 expected={"lo": lo, "hi": hi})


def run_fixed(rep, fn, tier, rng):
    if tier == "thorough":
        alphabet, maxlen, maxep, nrand = (0, 1, 2, 3, 5), 7, 9, 5000
    else:
        alphabet, maxlen, maxep, nrand = (0, 1, 2, 3), 5, 7, 300
    for n in range(1, maxlen + 1):
        for vec in itertools.product(alphabet, repeat=n):
            if sum(vec) == 0:
                continue
            for ep in range(1, maxep + 1):
                check_fixed(rep, fn, vec, ep, False, key=f"F|{vec}|{ep}")
    for r in range(nrand):
        n = int(rng.integers(1, 13))
        kind = r % 3
        if kind == 0:
            vec = rng.exponential(1.0, n)
        elif kind == 1:  # sparse: many exact zeros, as offset*duration has for empty intervals
            vec = rng.exponential(1.0, n) * (rng.random(n) < 0.5)
        else:  # widely varying magnitudes
            vec = 10.0 ** rng.uniform(-6, 6, n)
        if not vec.sum() > 0:
            vec[int(rng.integers(0, n))] = 1.0
        ep = int(rng.integers(1, 21))
        check_fixed(rep, fn, vec, ep, True, key=f"Fr|{r}")


# ------------------------------------------------------------------ poisson changepoints
def check_poisson(rep, fn, counts, offset, penalty, minc, mino, key, stats):
    counts = [float(x) for x in counts]
    offset = [float(x) for x in offset]
    n = len(counts)
    desc = {"fn": "_poisson_changepoints", "counts": counts, "offset": offset, "penalty": penalty,
            "min_counts": minc, "min_offset": mino}
    best, scale, seg = spec_poisson(counts, offset, penalty, minc, mino)
    any_infeasible = any(not s[0] for s in seg.values())
    zero_admissible = any(s[0] and s[2] == 0 for s in seg.values())
    exc = None
    try:
        br = fn(np.array(counts), np.array(offset), float(penalty), float(minc), float(mino))
        br = [int(x) for x in br]
    except Exception as ex:
        exc, br = f"{type(ex).__name__}: {ex}", None

    if best is None:
        domain = "infeasible"
    elif zero_admissible:
        domain = "zero"
    elif any_infeasible:
        domain = "pelt"
    else:
        domain = "strict"
    stats[domain] = stats.get(domain, 0) + 1

    if br is not None:
        wf = (len(br) >= 2 and br[0] == 0 and br[-1] == n and all(a < b for a, b in zip(br[:-1], br[1:])))
        rep.case("poisson-breaks-well-formed", wf, key=key, input=desc, observed=br,
                 expected=f"strictly increasing from 0 to {n}")
        if not wf:
            return
        if best is not None:
            feas = all(seg[(a, b)][0] for a, b in zip(br[:-1], br[1:]))
            rep.case("poisson-result-feasible-when-a-feasible-segmentation-exists", feas, key=key, input=desc,
                     observed=br, expected="every returned segment meets min_counts and min_offset",
                     nontrivial=any_infeasible)
    elif domain not in ("zero",):
        # an exception outside the zero-count domain is a failure of the strict well-formedness clause
        rep.case("poisson-breaks-well-formed", False, key=key, input=desc, observed=exc, expected="returns")
        return

    if domain == "infeasible":
        rep.case("poisson-infeasible-input-returns-single-segment", br == [0, n], key=key, input=desc,
                 observed=br, expected=[0, n], nontrivial=False)
        return

    clause = {"strict": "poisson-minimises-penalised-deviance",
              "pelt": "known-pelt-prunes-infeasible-candidates",
              "zero": "known-poisson-zero-count-segment-undefined-cost"}[domain]
    if br is None:
        rep.case(clause, False, key=key, input=desc, observed=exc, expected={"optimum": best})
        stats[domain + "_fail"] = stats.get(domain + "_fail", 0) + 1
        return
    got = objective(br, seg, penalty)
    # rtol 1e-9 on the sum of absolute terms: same sum, different association order
    ok = got <= best + 1e-9 * max(scale, 1e-300)
    if not ok:
        stats[domain + "_fail"] = stats.get(domain + "_fail", 0) + 1
    rep.case(clause, ok, key=key, input=desc, observed={"breaks": br, "objective": got},
             expected={"optimum": best}, nontrivial=(n >= 2))


def run_poisson(rep, fn, tier, rng, stats):
    calpha, oalpha = (0, 1, 2, 5), (1, 3)
    if tier == "thorough":
        pair_len, cmax, nrand, rmax = 5, 7, 5000, 12
        penalties = (0.0, 0.5, 1.0, 2.0, 4.0, 9.0)
        minima = ((0, 0), (1, 0), (0, 1), (2, 0), (3, 0), (0, 2), (0, 4), (4, 3), (7, 0), (2.5, 1.5))
    else:
        pair_len, cmax, nrand, rmax = 4, 6, 400, 10
        penalties = (0.0, 1.0, 4.0)
        minima = ((0, 0), (1, 0), (0, 1), (3, 0), (0, 2), (4, 3))

    def vectors():
        for n in range(1, pair_len + 1):
            for cv in itertools.product(calpha, repeat=n):
                for ov in itertools.product(oalpha, repeat=n):
                    yield cv, ov
        for n in range(pair_len + 1, cmax + 1):
            for cv in itertools.product(calpha, repeat=n):
                yield cv, (1,) * n

    for cv, ov in vectors():
        for minc, mino in minima:
            for pen in penalties:
                check_poisson(rep, fn, cv, ov, pen, minc, mino, f"P|{cv}|{ov}|{pen}|{minc}|{mino}", stats)

    # the worked example of DESIGN 6-F9 (always included, lands in the known-pelt clause)
    check_poisson(rep, fn, (2, 1, 2, 3, 5, 3, 1), (1,) * 7, 1.0, 0, 4, "P|F9-example", stats)

    for r in range(nrand):
        n = int(rng.integers(2, rmax + 1))
        # piecewise-constant rate with 1-3 regimes so that real changepoints exist
        k = int(rng.integers(1, 4))
        rates = 10.0 ** rng.uniform(-1, 1.5, k)
        regime = np.sort(rng.integers(0, k, n))
        off = rng.uniform(0.2, 3.0, n)
        if r % 2 == 0:
            cnt = rng.poisson(rates[regime] * off).astype(float)  # integer-valued, may contain zeros
        else:
            cnt = rates[regime] * off * rng.uniform(0.5, 1.5, n)  # real-valued, as mutational_area gives
        pen = float(rng.choice([0.0, 0.3, 1.0, 2.0, 6.0]))
        mode = r % 4
        if mode in (0, 1):
            minc, mino = 0.0, 0.0
        elif mode == 2:  # vacuous positive minima: below every single observation
            minc, mino = 0.5 * float(cnt.min()), 0.5 * float(off.min())
        else:  # binding minima
            minc, mino = float(rng.uniform(0, cnt.sum() / 2)), float(rng.uniform(0, off.sum() / 2))
        check_poisson(rep, fn, cnt, off, pen, minc, mino, f"Pr|{r}", stats)


def keep_strict_failures_visible(rep):
    """The protocol keeps only the first 20 failing cases.  Failing cases of known-* clauses are expected
    and numerous, so at most 2 of them per clause stay in that list (all are still counted in the clause
    totals); the first failing example of EVERY clause is also copied to the notes."""
    examples = {}
    plain_case = rep.case

    def case(clause, ok, key=None, input=None, observed=None, expected=None, nontrivial=True):  # noqa: A002
        before = len(rep.failures)
        plain_case(clause, ok, key=key, input=input, observed=observed, expected=expected, nontrivial=nontrivial)
        if not ok:
            if clause not in examples:
                examples[clause] = {"key": str(key), "input": input, "observed": observed, "expected": expected}
            if (clause.startswith("known-") and len(rep.failures) > before
                    and sum(1 for f in rep.failures if f["clause"] == clause) > 2):
                rep.failures.pop()

    rep.case = case
    return examples, plain_case


def run(req, rep):
    tier, seed = req["tier"], req["seed"]
    rng = np.random.default_rng(seed)
    from tsdate import rescaling

    thorough = tier == "thorough"
    rep.space = ("_fixed_changepoints: all integer count vectors over a small alphabet x epochs, plus seeded "
                 "real-valued vectors; _poisson_changepoints: all (counts, offset) vectors over small alphabets "
                 "x penalties x (min_counts, min_offset), compared with brute force over all 2^(n-1) "
                 "segmentations, plus seeded real-valued inputs")
    rep.bound = ("fixed: length<=7 over {0,1,2,3,5}, epochs<=9, +5000 random(len<=12, epochs<=20); poisson: "
                 "(counts,offset) len<=5 over {0,1,2,5}x{1,3}, counts len 6..7 unit offsets, 6 penalties x 10 minima, "
                 "+5000 random(len<=12)") if thorough else \
                ("fixed: length<=5 over {0,1,2,3}, epochs<=7, +300 random(len<=12, epochs<=20); poisson: "
                 "(counts,offset) len<=4 over {0,1,2,5}x{1,3}, counts len 5..6 unit offsets, 3 penalties x 6 minima, "
                 "+400 random(len<=10)")
    rep.exhaustive = True  # over the enumerated part; the random real-valued inputs are an extra sample

    examples, plain_case = keep_strict_failures_visible(rep)
    run_fixed(rep, rescaling._fixed_changepoints, tier, rng)
    stats = {}
    run_poisson(rep, rescaling._poisson_changepoints, tier, rng, stats)
    rep.case = plain_case
    rep.notes.append({"poisson_domain_counts": stats})
    rep.notes.append({"first_failing_example_per_clause": examples})
    rep.notes.append("known-* clauses isolate DESIGN 6-F9: infeasible candidates pruned for good; log(0) on "
                     "zero-count segments.  The strict optimality clause covers every input on which no "
                     "segment is infeasible and no admissible segment has zero counts.")


if __name__ == "__main__":
    bounded_api.main(run)
