"""
Bounded stand-in (G4) for C28 -- "Preprocessing removes only data-free regions and preserves genotypes".

The REAL tsdate.preprocess_ts is called on every (input, option) pair; what it is compared against is
computed here from the *tables* of input and output (edge rows, node rows, site positions) and tskit's
variant decoder.  The oracle never calls tsdate, tskit.simplify or tskit.delete_intervals to produce an
expected value (simplify is only used once, on the OUTPUT, as the reference meaning of "is simplified").

Observing where an output node came from: before the call every node / individual / population of the
input gets a unique tag in its metadata (schema-less bytes b"n<id>", or permissive JSON {"tag": id} on
every other input); simplify and split_disjoint_nodes copy metadata, so origin(v) is read back from it.

Oracles written from the statement
----------------------------------
induced(x)   the input's local tree at x restricted to what a simplified tree sequence keeps: nodes =
             samples + non-samples with >= 2 children that have a sample at or below them; parent(v) =
             nearest kept strict ancestor.  (child -> parent map, computed from the edge rows.)
allowed      computed intervals: a region strictly between two consecutive sites with s[i+1]-s[i] >=
             minimum_gap (default 1e6), the flank [0, s_first) and the flank (s_last, L) when erase_flanks
             (default True);  user intervals: exactly the given half-open intervals.

Contract clauses (one obligation each)
--------------------------------------
sites-outside-delete-intervals-kept        filter_sites=False: output site table rows (position, ancestral
                                           state) == input rows whose position is outside the user's
                                           delete_intervals (all rows when none are given)
filter-sites-drops-only-sites-without-visible-mutation
                                           filter_sites=True (the caller asked simplify to drop unused sites):
                                           kept == sites outside delete_intervals that carry a mutation
                                           above a node with a sample at or below it
samples-kept-in-order                      output samples are nodes 0..n-1 and the i-th descends from the
                                           i-th input sample (flags, time, individual tag, population tag)
genotypes-kept-at-every-kept-site          allele-resolved genotype (missing included) of every sample at
                                           every output site equals the input's at that position
node-times-kept                            time(v) == time(origin(v)) for every output node; flags equal
                                           up to the split bit; without split_disjoint no node is copied
topology-changes-only-in-flanks-and-gaps   (computed intervals) on every elementary interval [a,b) between
                                           breakpoints: mapped output tree == induced(a), or [a,b) contains
                                           no site and lies in an allowed flank / gap
user-delete-intervals-removed-exactly      (user intervals) output tree is empty inside the intervals and
                                           == induced(a) outside
qualifying-flanks-and-gaps-are-cleared-at-their-midpoint
                                           SUPPLEMENTARY (docstring of preprocess_ts, not the statement, which
                                           only says "only in"): an allowed region wider than 2 has no edge
                                           at its midpoint
output-is-simplified                       samples first; every non-sample node is in an edge; no non-sample
                                           node has < 2 children in any local tree; no abutting duplicate
                                           edges; tskit.simplify of the output changes no table size
no-nonsample-ancestry-gap-when-split-disjoint
                                           split_disjoint on (None/True): the edge intervals touching any
                                           non-sample node form one interval (samples are necessarily
                                           isolated inside removed regions, so they are exempt)
returns-a-tree-sequence                    the call returns for every valid option combination
known-edge-free-result-with-split-disjoint-returns-a-tree-sequence
                                           the same obligation when (decided from input + options alone) no edge
                                           can survive -- the input has no edge or the user's delete_intervals
                                           cover every edge -- and split_disjoint is on.  FAILS on the unchanged
                                           code: split_disjoint_nodes indexes an empty array (IndexError without
                                           JIT; an out-of-bounds read with JIT).  Same root cause as C29's
                                           known-no-edge clause.

Input space and bounds
----------------------
quick (~25 s, NUMBA_DISABLE_JIT=1): 28 inputs x 40 option sets each (seeded draw, always containing the
  defaults; 8 sets for the edge-free input) = 1088 calls.
  inputs: msprime simulations with 3..6 samples on L in {60,100,300}: haploid, diploid (individuals),
  historical samples, two populations, full ARG (unary nodes), continuous (non-integer) site positions;
  each decorated with an unreferenced individual and population, mutation-free sites, a mutation above a
  root and a mutation on a node without samples below; an input whose flanks are already empty; sites at
  position 0 and L-1; a hand-built tree with sites 1 and 2 apart; a hand-built input without any edge.
  options: minimum_gap in {None, 1, 2, an exact inter-site distance of the input, a value just above it,
  larger than every gap} x erase_flanks {None, True, False} x split_disjoint {None, True, False} x
  (filter_populations, filter_individuals, filter_sites) in {FFF, TTT, FFT, TFF/FTF} ; or delete_intervals =
  [] / 1..3 seeded sorted disjoint intervals (list or numpy array; touching 0 or L; containing sites).
thorough (~3-5 min): 162 inputs x 80 option sets (8 for the edge-free input) = 12888 calls.

Tolerances: none; every comparison is exact (positions, times, alleles, ids are copied, not computed).

NOT covered: **kwargs forwarded to simplify (keep_unary, ...), which change what "simplified" means;
provenance contents (C33); the two ValueError guards; migrations; inputs beyond these sizes.
"""
import json
import logging

import msprime
import numpy as np
import tskit

import tsdate
from tsdate import preprocess_ts

from rt import bounded_api, inputs

SPLIT = int(tsdate.NODE_SPLIT_BY_PREPROCESS)


# ------------------------------------------------------------------------------ tagging
def tag_tables(ts, use_json):
    tables = ts.dump_tables()
    n = tables.nodes.num_rows
    if use_json:
        tables.nodes.metadata_schema = tskit.MetadataSchema.permissive_json()
        tables.nodes.packset_metadata([json.dumps({"tag": u}).encode() for u in range(n)])
    else:
        tables.nodes.metadata_schema = tskit.MetadataSchema(None)
        tables.nodes.packset_metadata([b"n%d" % u for u in range(n)])
    tables.individuals.metadata_schema = tskit.MetadataSchema(None)
    tables.individuals.packset_metadata([b"i%d" % u for u in range(tables.individuals.num_rows)])
    tables.populations.metadata_schema = tskit.MetadataSchema(None)
    tables.populations.packset_metadata([b"p%d" % u for u in range(tables.populations.num_rows)])
    return tables.tree_sequence()


def node_origin(ts_out, v, use_json):
    md = ts_out.node(v).metadata
    try:
        return int(md["tag"]) if use_json else int(bytes(md)[1:].decode())
    except Exception:  # noqa: BLE001
        return None


def ind_tag(ts, node):
    i = ts.node(node).individual
    return None if i == tskit.NULL else bytes(ts.individual(i).metadata)


def pop_tag(ts, node):
    p = ts.node(node).population
    return None if p == tskit.NULL else bytes(ts.population(p).metadata)


# ------------------------------------------------------------------------------ table-level oracles
def edge_rows(ts):
    return list(zip(ts.edges_left.tolist(), ts.edges_right.tolist(), ts.edges_parent.tolist(), ts.edges_child.tolist()))


def parent_map_at(rows, x):
    return {c: p for l, r, p, c in rows if l <= x < r}


def induced_tree(rows, x, is_sample):
    """child->parent map of the simplified local tree at x (see module docstring)."""
    pm = parent_map_at(rows, x)
    children = {}
    for c, p in pm.items():
        children.setdefault(p, []).append(c)
    memo = {}

    def has_sample(u):
        if u not in memo:
            memo[u] = bool(is_sample[u]) or any(has_sample(c) for c in children.get(u, ()))
        return memo[u]

    nodes = set(pm) | set(pm.values())
    kept = {u for u in nodes if is_sample[u] or sum(has_sample(c) for c in children.get(u, ())) >= 2}
    res = {}
    for v in kept:
        u = pm.get(v)
        while u is not None and u not in kept:
            u = pm.get(u)
        if u is not None:
            res[v] = u
    return res, memo, has_sample


def components(intervals):
    out = []
    for l, r in sorted(intervals):
        if out and l <= out[-1][1]:
            out[-1][1] = max(out[-1][1], r)
        else:
            out.append([l, r])
    return out


def genotypes_by_position(ts):
    res = {}
    for var in ts.variants(isolated_as_missing=True):
        res[var.site.position] = tuple(None if g < 0 else var.alleles[g] for g in var.genotypes.tolist())
    return res


def in_any(ivs, x):
    return any(a <= x < b for a, b in ivs)


# ------------------------------------------------------------------------------ the contract
def check_one(rep, key, desc, ts, opts, use_json, stats):
    def case(clause, ok, observed=None, expected=None, nontrivial=True):
        d = dict(desc, options=bounded_api.jsonable(opts))
        if not ok:
            d["ts"] = bounded_api.ts_to_json(ts)
        rep.case(clause, bool(ok), key=key, input=d, observed=observed, expected=expected, nontrivial=nontrivial)

    L = float(ts.sequence_length)
    user_ivs = opts.get("delete_intervals")
    if user_ivs is not None:
        user_ivs = [(float(a), float(b)) for a, b in np.asarray(user_ivs, dtype=float).reshape(-1, 2)]
    rows_in = edge_rows(ts)
    is_sample = (ts.nodes_flags & tskit.NODE_IS_SAMPLE) != 0
    # Known defect (same root cause as C29's no-edge clause): when nothing the samples share survives -- the
    # input has no edge, or the user's intervals cover every edge -- split_disjoint_nodes receives an
    # edge-free tree sequence and indexes an empty array.  That condition is decided HERE, from the input
    # and the options only, and gets its own clause; every other call stays under the strict clause.
    starts = sorted({0.0} | {x for r in rows_in for x in r[:2] if x < L} | {x for iv in (user_ivs or []) for x in iv if 0 <= x < L})
    edge_free_result = all(not induced_tree(rows_in, a, is_sample)[0] for a in starts if not (user_ivs and in_any(user_ivs, a)))
    split_on = opts.get("split_disjoint") in (None, True)
    runs_clause = ("known-edge-free-result-with-split-disjoint-returns-a-tree-sequence" if (edge_free_result and split_on)
                   else "returns-a-tree-sequence")
    try:
        out = preprocess_ts(ts, **opts)
    except BaseException as e:  # noqa: BLE001
        case(runs_clause, False, observed=f"{type(e).__name__}: {e}", expected="a tree sequence")
        return
    case(runs_clause, True)

    min_gap = opts.get("minimum_gap")
    min_gap = 1000000 if min_gap is None else min_gap
    flanks = opts.get("erase_flanks")
    flanks = True if flanks is None else flanks
    split = opts.get("split_disjoint")
    split = True if split is None else split
    rows_out = edge_rows(out)
    pos_in = ts.sites_position.tolist()

    # ---- sites
    outside = [j for j, x in enumerate(pos_in) if user_ivs is None or not in_any(user_ivs, x)]
    if not opts.get("filter_sites", False):
        exp_rows = [(pos_in[j], ts.site(j).ancestral_state) for j in outside]
        got_rows = [(s.position, s.ancestral_state) for s in out.sites()]
        case("sites-outside-delete-intervals-kept", got_rows == exp_rows and out.sequence_length == L,
             observed=None if got_rows == exp_rows else [r[0] for r in got_rows],
             expected=None if got_rows == exp_rows else [r[0] for r in exp_rows],
             nontrivial=True)
    else:
        visible = set()
        for m in range(ts.num_mutations):
            j = int(ts.mutations_site[m])
            _, _, has_sample = induced_tree(rows_in, pos_in[j], is_sample)
            if has_sample(int(ts.mutations_node[m])):
                visible.add(j)
        exp_pos = [pos_in[j] for j in outside if j in visible]
        got_pos = out.sites_position.tolist()
        case("filter-sites-drops-only-sites-without-visible-mutation", got_pos == exp_pos,
             observed=got_pos if got_pos != exp_pos else None, expected=exp_pos if got_pos != exp_pos else None,
             nontrivial=len(exp_pos) < len(pos_in))

    # ---- origins
    org = [node_origin(out, v, use_json) for v in range(out.num_nodes)]
    if any(o is None or not (0 <= o < ts.num_nodes) for o in org):
        case("node-times-kept", False, observed={"unreadable_origin": org[:10]}, expected="every output node descends from an input node")
        return

    # ---- samples in order
    s_in, s_out = ts.samples().tolist(), out.samples().tolist()
    ok = s_out == list(range(len(s_in)))
    obs = None
    if ok:
        for i, u in enumerate(s_in):
            a, b = out.node(i), ts.node(u)
            if not (org[i] == u and a.time == b.time and (a.flags & ~SPLIT) == b.flags and ind_tag(out, i) == ind_tag(ts, u)
                    and pop_tag(out, i) == pop_tag(ts, u)):
                ok, obs = False, {"output_sample": i, "origin": org[i], "expected_origin": u}
                break
    else:
        obs = {"output_samples": s_out, "num_input_samples": len(s_in)}
    case("samples-kept-in-order", ok, observed=obs, expected="i-th output sample == i-th input sample")

    # ---- genotypes
    g_in, g_out = genotypes_by_position(ts), genotypes_by_position(out)
    bad = next((x for x in g_out if x not in g_in or g_in[x] != g_out[x]), None)
    case("genotypes-kept-at-every-kept-site", bad is None and len(g_out) == out.num_sites,
         observed=None if bad is None else {"position": bad, "out": g_out[bad], "in": g_in.get(bad)}, expected="identical",
         nontrivial=len(g_out) > 0)

    # ---- node times / flags / no copies without split
    bad = None
    for v, o in enumerate(org):
        a, b = out.node(v), ts.node(o)
        if a.time != b.time or (a.flags & ~SPLIT) != (b.flags & ~SPLIT) or pop_tag(out, v) != pop_tag(ts, o):
            bad = {"node": v, "origin": o, "out": [a.time, a.flags], "in": [b.time, b.flags]}
            break
    if bad is None and not split and (len(set(org)) != len(org) or np.any(out.nodes_flags & SPLIT)):
        bad = {"why": "nodes were copied although split_disjoint=False", "origins": org}
    case("node-times-kept", bad is None, observed=bad, expected="time/flags/population of origin")

    # ---- topology
    bps = {0.0, L} | {x for r in rows_in + rows_out for x in r[:2]}
    if user_ivs is not None:
        bps |= {x for iv in user_ivs for x in iv if 0 <= x <= L}
    bps = sorted(bps)
    sites_sorted = sorted(pos_in)
    topo_bad, removed_any, kept_any = None, False, False
    for a, b in zip(bps[:-1], bps[1:]):
        exp, _, _ = induced_tree(rows_in, a, is_sample)
        pout = parent_map_at(rows_out, a)
        mapped = {org[c]: org[p] for c, p in pout.items()}
        alive = {u for e in pout.items() for u in e}
        equal = len(mapped) == len(pout) and len({org[u] for u in alive}) == len(alive) and mapped == exp
        if user_ivs is not None:
            inside = in_any(user_ivs, a)
            good = (not pout) if inside else equal
            removed_any |= inside and bool(exp)
        else:
            good = equal
            if not equal:
                n_before = sum(1 for s in sites_sorted if s < a)
                has_site = any(a <= s < b for s in sites_sorted)
                if has_site:
                    allowed = False
                elif n_before == 0:
                    allowed = bool(flanks)
                elif n_before == len(sites_sorted):
                    allowed = bool(flanks)
                else:
                    allowed = (sites_sorted[n_before] - sites_sorted[n_before - 1]) >= min_gap
                good = allowed
                removed_any |= allowed
        kept_any |= equal and bool(exp)
        if not good and topo_bad is None:
            topo_bad = {"interval": [a, b], "out_mapped": sorted(mapped.items()), "induced_input": sorted(exp.items())}
    clause = "user-delete-intervals-removed-exactly" if user_ivs is not None else "topology-changes-only-in-flanks-and-gaps"
    case(clause, topo_bad is None, observed=topo_bad, expected="equal outside the allowed/requested regions",
         nontrivial=removed_any)
    stats["removed"] += bool(removed_any)

    # ---- supplementary: qualifying regions are cleared at their midpoint
    if user_ivs is None and sites_sorted:
        regions = []
        if flanks:
            regions += [(0.0, sites_sorted[0]), (sites_sorted[-1], L)]
        regions += [(s, t) for s, t in zip(sites_sorted[:-1], sites_sorted[1:]) if t - s >= min_gap]
        bad = None
        n_reg = 0
        for s, t in regions:
            if t - s > 2:
                n_reg += 1
                mid = (s + t) / 2
                if parent_map_at(rows_out, mid):
                    bad = {"region": [s, t], "edges_at_midpoint": sorted(parent_map_at(rows_out, mid).items())}
                    break
        case("qualifying-flanks-and-gaps-are-cleared-at-their-midpoint", bad is None, observed=bad, expected="no edge",
             nontrivial=n_reg > 0)

    # ---- simplified
    why = None
    if s_out != list(range(len(s_out))):
        why = "samples are not the first nodes"
    in_edge = {u for r in rows_out for u in r[2:]}
    lonely = [v for v in range(out.num_nodes) if v not in in_edge and not (out.nodes_flags[v] & tskit.NODE_IS_SAMPLE)]
    if why is None and lonely:
        why = {"unreferenced_nonsample_nodes": lonely[:5]}
    if why is None:
        obps = sorted({0.0, L} | {x for r in rows_out for x in r[:2]})
        for a in obps[:-1]:
            pm = parent_map_at(rows_out, a)
            cnt = {}
            for c, p in pm.items():
                cnt[p] = cnt.get(p, 0) + 1
            unary = [p for p, k in cnt.items() if k < 2 and not (out.nodes_flags[p] & tskit.NODE_IS_SAMPLE)]
            dangling = [c for c in pm if c not in cnt and not (out.nodes_flags[c] & tskit.NODE_IS_SAMPLE)]
            if unary or dangling:
                why = {"position": a, "unary": unary, "nonsample_leaves": dangling}
                break
    if why is None:
        seen = {}
        for l, r, p, c in rows_out:
            seen.setdefault((p, c), []).append((l, r))
        for pc, iv in seen.items():
            iv.sort()
            if any(x[1] == y[0] for x, y in zip(iv[:-1], iv[1:])):
                why = {"unsquashed_edges": pc}
                break
    if why is None:
        re = out.simplify(filter_populations=False, filter_individuals=False, filter_sites=False)
        sizes = lambda t: (t.num_nodes, t.num_edges, t.num_sites, t.num_mutations)  # noqa: E731
        if sizes(re) != sizes(out):
            why = {"simplify_changes_sizes": [sizes(out), sizes(re)]}
    case("output-is-simplified", why is None, observed=why, expected="simplified")

    # ---- contiguity
    if split:
        iv = {}
        for l, r, p, c in rows_out:
            iv.setdefault(p, []).append((l, r))
            iv.setdefault(c, []).append((l, r))
        gaps = [v for v in iv if not (out.nodes_flags[v] & tskit.NODE_IS_SAMPLE) and len(components(iv[v])) > 1]
        n_split = len(org) - len(set(org))
        stats["split"] += bool(n_split)
        case("no-nonsample-ancestry-gap-when-split-disjoint", not gaps, observed={"nodes_with_gaps": gaps[:5]}, expected="none",
             nontrivial=n_split > 0)


# ------------------------------------------------------------------------------ inputs
def decorate(ts, rng):
    """Add an unreferenced individual and population, mutation-free sites, a mutation above a root and a
    mutation on a node without samples below (if any)."""
    tables = ts.dump_tables()
    tables.mutations.time = np.full(tables.mutations.num_rows, tskit.UNKNOWN_TIME)
    tables.individuals.add_row(flags=0)
    tables.populations.add_row(metadata={"name": "unused", "description": None}
                               if tables.populations.metadata_schema.schema else b"")
    L = ts.sequence_length
    used = set(tables.sites.position.tolist())
    cand = [float(x) for x in range(int(L)) if float(x) not in used]
    picks = rng.choice(cand, size=min(3, len(cand)), replace=False).tolist() if cand else []
    for j, x in enumerate(picks):
        s = tables.sites.add_row(position=x, ancestral_state="A")
        tree = ts.at(x)
        if j == 1 and tree.num_edges > 0:
            tables.mutations.add_row(site=s, node=tree.roots[0], derived_state="T")
        if j == 2:
            dead = [u for u in range(ts.num_nodes) if not ts.node(u).is_sample() and tree.num_samples(u) == 0]
            if dead:
                tables.mutations.add_row(site=s, node=int(dead[0]), derived_state="T")
    tables.sort()
    tables.build_index()
    tables.compute_mutation_parents()
    return tables.tree_sequence()


def base_inputs(seed, count, rng):
    res = []
    for i in range(count):
        kind = i % 7
        sd = seed * 1009 + i
        L = [60, 100, 300][i % 3]
        rec = [5e-3, 2e-3, 1e-3][i % 3]
        mu = [4e-3, 2e-3, 5e-4][i % 3] * (1 + (i // 7) % 2)
        n = int(3 + i % 4)
        if kind == 0:
            ts = inputs.sim(sd, n=n, L=L, rec=rec, mu=mu, ne=50)
            name = "haploid"
        elif kind == 1:
            ts = inputs.sim(sd, n=3, L=L, rec=rec, mu=mu, ne=50, ploidy=2)
            name = "diploid"
        elif kind == 2:
            s = [msprime.SampleSet(n - 1, time=0, ploidy=1), msprime.SampleSet(2, time=15, ploidy=1)]
            ts = msprime.sim_ancestry(s, sequence_length=L, recombination_rate=rec, population_size=50, random_seed=sd + 3)
            ts = msprime.sim_mutations(ts, rate=mu, random_seed=sd + 11)
            name = "historical"
        elif kind == 3:
            dem = msprime.Demography.island_model([50, 50], migration_rate=0.05)
            ts = msprime.sim_ancestry({0: 2, 1: 2}, ploidy=1, demography=dem, sequence_length=L, recombination_rate=rec,
                                      random_seed=sd + 5)
            ts = msprime.sim_mutations(ts, rate=mu, random_seed=sd + 13)
            name = "two-populations"
        elif kind == 4:
            ts = msprime.sim_ancestry(n, ploidy=1, sequence_length=L, recombination_rate=rec, population_size=50,
                                      random_seed=sd + 7, record_full_arg=True)
            ts = msprime.sim_mutations(ts, rate=mu, random_seed=sd + 17)
            name = "full-arg-unary-nodes"
        elif kind == 5:
            ts = msprime.sim_ancestry(n, ploidy=1, sequence_length=L, recombination_rate=rec, population_size=50,
                                      random_seed=sd + 9, discrete_genome=False)
            ts = msprime.sim_mutations(ts, rate=mu, random_seed=sd + 19, discrete_genome=False)
            name = "continuous-positions"
        else:
            ts = inputs.sim(sd, n=n, L=L, rec=rec, mu=mu, ne=50)
            t = ts.dump_tables()
            t.keep_intervals([[L * 0.2, L * 0.7]], simplify=False, record_provenance=False)   # flanks already empty
            s0 = t.sites.add_row(0.0, "A")                                              # sites at 0 and L-1
            t.mutations.add_row(s0, 0, derived_state="T")
            s1 = t.sites.add_row(float(L - 1), "A")
            t.mutations.add_row(s1, 1, derived_state="T")
            t.sort()
            t.build_index()
            t.compute_mutation_parents()
            ts = t.tree_sequence()
            name = "empty-flanks-sites-at-0-and-L-1"
        if ts.num_sites == 0:
            t = ts.dump_tables()
            s0 = t.sites.add_row(float(int(L / 2)), "A")
            t.mutations.add_row(s0, 0, derived_state="T")
            ts = t.tree_sequence()
        res.append((f"{i}-{name}", decorate(ts, rng)))
    # hand-built: one tree, sites 1 and 2 apart, one far away
    t = inputs.tree_to_ts(((0, 1), (2, 3)), sequence_length=50.0).dump_tables()
    for x, u in ((10.0, 4), (11.0, 0), (13.0, 5), (40.0, 1)):
        s = t.sites.add_row(x, "A")
        t.mutations.add_row(s, u, derived_state="T")
    t.sort()
    res.append(("handbuilt-close-sites", t.tree_sequence()))
    # a valid input without any edge (every sample isolated everywhere) but with sites
    t = tskit.TableCollection(20.0)
    for _ in range(3):
        t.nodes.add_row(flags=tskit.NODE_IS_SAMPLE, time=0)
    for x, u in ((4.0, 0), (15.0, 2)):
        s = t.sites.add_row(x, "A")
        t.mutations.add_row(s, u, derived_state="T")
    res.append(("handbuilt-no-edges", t.tree_sequence()))
    return res


def option_sets(ts, rng, count):
    """Seeded option sets for one input; the first is always the all-defaults call."""
    pos = np.sort(ts.sites_position)
    gaps = np.diff(pos)
    L = ts.sequence_length
    gap_values = [None, 1, 2, float(L) * 2]
    if len(gaps):
        g = float(rng.choice(gaps))
        gap_values += [g, np.nextafter(g, np.inf), float(np.median(gaps))]
    filters = [(False, False, False), (True, True, True), (False, False, True), (True, False, False), (False, True, False)]
    res = [{}]
    while len(res) < count:
        o = {}
        if rng.random() < 0.3:
            k = int(rng.integers(0, 4))
            if rng.random() < 0.5:
                cuts = np.sort(rng.choice(np.arange(0, int(L) + 1), size=2 * k, replace=False)).astype(float)
            else:
                cuts = np.sort(rng.random(2 * k) * L)
            if k and rng.random() < 0.3:
                cuts[0] = 0.0
            if k and rng.random() < 0.3:
                cuts[-1] = L
            ivs = [[float(cuts[2 * j]), float(cuts[2 * j + 1])] for j in range(k)]
            o["delete_intervals"] = np.array(ivs).reshape(-1, 2) if (rng.random() < 0.5 and k) else ivs
        else:
            mg = gap_values[int(rng.integers(0, len(gap_values)))]
            if mg is not None:
                o["minimum_gap"] = mg
            ef = [None, True, False][int(rng.integers(0, 3))]
            if ef is not None:
                o["erase_flanks"] = ef
        sp = [None, True, False][int(rng.integers(0, 3))]
        if sp is not None:
            o["split_disjoint"] = sp
        f = filters[int(rng.integers(0, len(filters)))]
        if f != (False, False, False) or rng.random() < 0.3:
            o["filter_populations"], o["filter_individuals"], o["filter_sites"] = f
        if rng.random() < 0.7:
            o["record_provenance"] = False
        res.append(o)
    return res


# ------------------------------------------------------------------------------ driver
def run(req, rep):
    tier, seed = req["tier"], int(req["seed"])
    thorough = tier == "thorough"
    rng = np.random.default_rng(seed)
    logging.getLogger("tsdate").setLevel(logging.ERROR)
    n_inputs, n_opts = (160, 80) if thorough else (26, 40)
    rep.space = ("preprocess_ts on msprime simulations (haploid / diploid / historical / two populations / full ARG / "
                 "continuous positions / already-empty flanks with sites at 0 and L-1), each decorated with unreferenced "
                 "individual+population, mutation-free sites, a mutation above a root and one on a sample-less node, plus a "
                 "hand-built tree; x seeded option sets over minimum_gap (incl. exact inter-site distances) x erase_flanks x "
                 "split_disjoint x filter flags, or user delete_intervals")
    rep.exhaustive = False
    stats = {"removed": 0, "split": 0}
    ncase = 0
    for k, (name, ts) in enumerate(base_inputs(seed, n_inputs, rng)):
        use_json = bool(k % 2)
        tagged = tag_tables(ts, use_json)
        for j, opts in enumerate(option_sets(ts, rng, 8 if ts.num_edges == 0 else n_opts)):
            check_one(rep, f"{name}|{j}", {"family": name, "req_seed": seed, "option_index": j, "node_tag": "json" if use_json else "bytes"},
                      tagged, opts, use_json, stats)
            ncase += 1
    rep.bound = (f"{n_inputs + 2} inputs (3..6 samples, L <= 300, <= ~40 trees) x {n_opts} option sets = {ncase} calls")
    rep.notes.append(f"calls in which topology was actually removed: {stats['removed']}; calls in which a node was split: {stats['split']}")


if __name__ == "__main__":
    bounded_api.main(run)
