"""
Bounded stand-in for C14 -- "Conditional coalescent prior moments are exact".

Contract clauses evaluated (on the REAL `tsdate.prior.ConditionalCoalescentTimes`, exact path,
`approximate=False`), for every pair (n, k) of the space below:

  mean-equals-exact-kingman        row[k].mean  == E[age of a node subtending k of n tips]
  variance-equals-exact-kingman    row[k].var   == Var[age of a node subtending k of n tips]
  gamma-params-moment-matched      prior_distr="gamma":   alpha/beta == mean and alpha/beta^2 == var, and
                                   (alpha, beta) == (mean^2/var, mean/var) of the EXACT moments
  lognorm-params-moment-matched    prior_distr="lognorm": exp(alpha+beta/2) == mean and
                                   (exp(beta)-1)*exp(2*alpha+beta) == var, and (alpha, beta) equal the
                                   transform of the EXACT moments
  rows-agree-between-distributions the mean/var columns are the same whichever prior_distr is chosen
  default-add-is-exact-whatever-was-added-before   on an object that owns a lookup table, a default add(n) for small n
                                   gives the exact moments also after an approximate / explicit earlier add

Specification oracle (written from the statement, shares no code with tsdate).  Under Kingman's
coalescent with n tips (pair coalescence rate 1, i.e. T_j ~ Exp(j(j-1)/2) while j lineages remain) the
age of a node that subtends k of the n tips is  T_n + ... + T_{a+1}  where `a` is the number of lineages
left just after the node is formed.  Given `a` that age is a sum of independent exponentials, so
      E[age | a]   = sum_{j=a+1..n} 2/(j(j-1)),        Var[age | a] = sum_{j=a+1..n} (2/(j(j-1)))^2,
and the level `a` has weights  w(a | k, n)  proportional to  C(n-k-1, a-2) / C(n-1, a),  2 <= a <= n-k+1
(k = n: a = 1 with weight 1).  Mean and variance follow by the law of total expectation / variance.
Everything is computed in EXACT integer / rational arithmetic (common denominators, Python ints) and
only the final rational is rounded to a double.
The level-weight formula itself is not trusted: on every run it is validated against a brute-force
enumeration of all coalescent histories (the jump chain on block-size configurations, every pair of
blocks equally likely to merge) for every 2 <= k <= n <= 7 (quick) / 9 (thorough) in exact arithmetic;
a disagreement raises (checker error), it is never reported as a property violation.

Input space and bound
  quick    : EVERY pair 2 <= k <= n <= 300 (44850 pairs), both prior distributions; exhaustive to the bound;
             plus the rungs n in {1200, 2000} with ~90 values of k each (as on the thorough ladder).
  thorough : EVERY pair 2 <= k <= n <= 600 (179700 pairs), both prior distributions, plus a ladder
             n in {800, 1000, 1500, 2000, 3000, 5000} with ~90 values of k per n (all k <= 12, all
             k >= n-12, the rest spread evenly / drawn with default_rng(seed)).
  The only random choice is the k-subset on the ladder (seeded).

Tolerances
  mean, var, alpha, beta vs the exact values: relative 1e-9 (statement: "equal the exact ... mean and
  variance"; tsdate evaluates the same quantity by a log-space recursion in doubles, so the two are
  algebraically identical and differ by accumulated rounding only; observed 6e-14 for n <= 300 and 2e-12 on the ladder up to n = 5000).
  lognormal alpha = log(mean) - beta/2 is a difference of two O(1..10) logs, so an absolute term of
  1e-12 is added for that one column (cancellation, not a loosening of the relative bound elsewhere).
  Internal consistency of a row (alpha/beta vs its own mean/var): relative 1e-11 (exp/log round trip of O(10) exponents).

NOT covered: the interpolated `approximate=True` table; rows 0 and 1 (sentinel conventions); n beyond
the bound; the cache file handling (C36); numba-compiled vs interpreted kernels are whichever the
environment selects (NUMBA_DISABLE_JIT).
"""
import itertools
import math
from fractions import Fraction

import numpy as np

from rt import bounded_api, inputs  # noqa: F401  (inputs unused: the space is the integer pairs (n, k))

RTOL = 1e-9
RTOL_ROW = 1e-11
ATOL_LOGN_ALPHA = 1e-12


# ---------------------------------------------------------------------------------- exact oracle
class KingmanExact:
    """Exact moments of the age of a node with k of n tips, for one n, in integer arithmetic."""

    def __init__(self, n):
        self.n = n
        # E[age | a] and E[age^2 | a] as integers over common denominators L1, L2
        rates = [None, None] + [Fraction(2, j * (j - 1)) for j in range(2, n + 1)]  # mean of T_j
        m = [Fraction(0)] * (n + 2)
        v = [Fraction(0)] * (n + 2)
        for a in range(n - 1, 0, -1):  # level a: sum over j = a+1 .. n
            m[a] = m[a + 1] + rates[a + 1]
            v[a] = v[a + 1] + rates[a + 1] ** 2
        q = [v[a] + m[a] ** 2 for a in range(n + 2)]  # second moments
        self.L1 = math.lcm(*[x.denominator for x in m[1:n]]) if n > 1 else 1
        self.L2 = math.lcm(*[x.denominator for x in q[1:n]]) if n > 1 else 1
        self.mnum = [int(x * self.L1) for x in m]
        self.qnum = [int(x * self.L2) for x in q]
        # 1 / C(n-1, a) as integers over the common denominator Ln
        binom = [math.comb(n - 1, a) for a in range(n)]
        self.Ln = math.lcm(*binom)
        self.inv_binom = [self.Ln // b for b in binom]

    def level_weights(self, k):
        """Unnormalised integer weights {a: w} of the level a at which a k-tip node is formed."""
        n = self.n
        if k == n:
            return {1: 1}
        out = {}
        c = 1  # C(n-k-1, a-2), built by the multiplicative recurrence
        top = n - k - 1
        for a in range(2, n - k + 2):
            out[a] = c * self.inv_binom[a]
            c = c * (top - (a - 2)) // (a - 1)
        return out

    def moments(self, k):
        """(mean, var) as exact Fractions."""
        w = self.level_weights(k)
        z = sum(w.values())
        s1 = sum(wa * self.mnum[a] for a, wa in w.items())
        s2 = sum(wa * self.qnum[a] for a, wa in w.items())
        mean = Fraction(s1, self.L1 * z)
        second = Fraction(s2, self.L2 * z)
        return mean, second - mean * mean


def enumerate_histories(n):
    """Brute force: exact probability, for each (k, a), that the merger taking the jump chain of the
    n-coalescent from a+1 to a lineages creates a block of k tips, summed over ALL histories of block
    sizes (each unordered pair of current blocks merges with equal probability).  Returns
    {k: {a: expected number of k-blocks created at level a}}."""
    created = {}
    start = tuple([1] * n)
    layer = {start: Fraction(1)}
    for lineages in range(n, 1, -1):
        nxt = {}
        npairs = Fraction(1, lineages * (lineages - 1) // 2)
        for state, p in layer.items():
            for i, j in itertools.combinations(range(lineages), 2):
                k = state[i] + state[j]
                rest = [s for t, s in enumerate(state) if t != i and t != j]
                new = tuple(sorted(rest + [k]))
                pr = p * npairs
                nxt[new] = nxt.get(new, 0) + pr
                d = created.setdefault(k, {})
                d[lineages - 1] = d.get(lineages - 1, 0) + pr
        layer = nxt
    return created


def validate_oracle(nmax):
    """Level weights of KingmanExact == brute-force enumeration, exactly, for all 2 <= k <= n <= nmax."""
    checked = 0
    for n in range(2, nmax + 1):
        ex = KingmanExact(n)
        brute = enumerate_histories(n)
        for k in range(2, n + 1):
            w = ex.level_weights(k)
            z = sum(w.values())
            b = brute[k]
            zb = sum(b.values())
            if set(w) != set(b):
                raise RuntimeError(f"oracle self-check: level support differs n={n} k={k}")
            for a in w:
                if Fraction(w[a], z) != b[a] / zb:
                    raise RuntimeError(f"oracle self-check: weight differs n={n} k={k} a={a}")
            checked += 1
    # the hand check quoted in the design: n=4, k=2 -> weights (3/4, 1/4) on a=(3, 2), mean 1/4
    ex = KingmanExact(4)
    if ex.moments(2)[0] != Fraction(1, 4):
        raise RuntimeError("oracle self-check: n=4,k=2 mean != 1/4")
    return checked


# ---------------------------------------------------------------------------------- helpers
def close(obs, exp, rtol, atol=0.0):
    obs = float(obs)
    exp = float(exp)
    if not (math.isfinite(obs) and math.isfinite(exp)):
        return False
    return abs(obs - exp) <= rtol * abs(exp) + atol


def ladder_ks(n, rng, per_n=90):
    ks = set(range(2, 14)) | set(range(n - 12, n + 1))
    ks |= set(int(x) for x in np.linspace(2, n, 40))
    while len(ks) < per_n:
        ks.add(int(rng.integers(2, n + 1)))
    return sorted(ks)


def check_n(rep, cct, n, ks, stats):
    """Compare the rows of the two ConditionalCoalescentTimes objects for total tips n."""
    from tsdate.prior import PriorParams

    ia, ib = PriorParams.field_index("alpha"), PriorParams.field_index("beta")
    im, iv = PriorParams.field_index("mean"), PriorParams.field_index("var")
    try:
        for c in cct.values():
            c.add(n, approximate=False)
    except Exception as e:  # noqa: BLE001 -- tsdate failing to produce the table is a contract failure
        rep.case("mean-equals-exact-kingman", False, key=f"n{n}", input={"n": n},
                 observed=f"ConditionalCoalescentTimes.add raised {type(e).__name__}: {e}", expected="a table")
        return
    rows_g = cct["gamma"][n]
    rows_l = cct["lognorm"][n]
    ex = KingmanExact(n)
    for k in ks:
        key = f"n{n}k{k}"
        inp = {"n": n, "k": k}
        mean_q, var_q = ex.moments(k)
        mean_e, var_e = float(mean_q), float(var_q)
        g, ln = rows_g[k], rows_l[k]
        for name, row in (("gamma", g), ("lognorm", ln)):
            rep.case("mean-equals-exact-kingman", close(row[im], mean_e, RTOL), key=key,
                     input=dict(inp, prior_distr=name), observed=row[im], expected=mean_e)
            rep.case("variance-equals-exact-kingman", close(row[iv], var_e, RTOL), key=key,
                     input=dict(inp, prior_distr=name), observed=row[iv], expected=var_e)
            stats["mean"] = max(stats["mean"], abs(row[im] - mean_e) / mean_e)
            stats["var"] = max(stats["var"], abs(row[iv] - var_e) / var_e)
        rep.case("rows-agree-between-distributions", g[im] == ln[im] and g[iv] == ln[iv], key=key, input=inp,
                 observed=[g[im], g[iv]], expected=[ln[im], ln[iv]])
        # gamma: exact transform of the exact moments, and self-consistency of the stored row
        a_e, b_e = float(mean_q * mean_q / var_q), float(mean_q / var_q)
        ok = (close(g[ia], a_e, RTOL) and close(g[ib], b_e, RTOL)
              and close(g[ia] / g[ib], g[im], RTOL_ROW) and close(g[ia] / g[ib] ** 2, g[iv], RTOL_ROW))
        rep.case("gamma-params-moment-matched", ok, key=key, input=inp, observed=[g[ia], g[ib]],
                 expected=[a_e, b_e])
        # lognormal: beta = log(1 + var/mean^2), alpha = log(mean) - beta/2  (from the exact moments)
        lb_e = math.log1p(float(var_q / (mean_q * mean_q)))
        la_e = math.log(mean_e) - 0.5 * lb_e
        ok = (close(ln[ia], la_e, RTOL, ATOL_LOGN_ALPHA) and close(ln[ib], lb_e, RTOL)
              and close(math.exp(ln[ia] + ln[ib] / 2), ln[im], RTOL_ROW)
              and close(math.expm1(ln[ib]) * math.exp(2 * ln[ia] + ln[ib]), ln[iv], RTOL_ROW))
        rep.case("lognorm-params-moment-matched", ok, key=key, input=inp, observed=[ln[ia], ln[ib]],
                 expected=[la_e, lb_e])
    # free the stored tables: thousands of (n+1) x 4 arrays are not needed again
    for c in cct.values():
        c.prior_store.pop(n, None)


def run(req, rep):
    from tsdate import prior

    tier, seed = req["tier"], req["seed"]
    params = req.get("params") or {}
    rng = np.random.default_rng(seed)
    thorough = tier == "thorough"
    nmax = int(params.get("nmax", 600 if thorough else 300))
    # quick: two rungs well beyond the exhaustive bound (the recursion accumulates over n, so some defects --
    # underflow / overflow of intermediate probabilities -- only show for n in the thousands)
    ladder = [int(x) for x in params.get("ladder", [800, 1000, 1500, 2000, 3000, 5000] if thorough else [1200, 2000])]
    enum_max = int(params.get("enum_max", 9 if thorough else 7))

    rep.space = ("all pairs (n, k), 2 <= k <= n <= nmax, rows of ConditionalCoalescentTimes[n] (exact path) for "
                 "prior_distr in {gamma, lognorm}; thorough adds a ladder of larger n with a k-subset")
    rep.bound = f"nmax={nmax} ({nmax * (nmax - 1) // 2} pairs), ladder={ladder}"
    rep.exhaustive = True  # every pair up to nmax; the ladder is extra

    checked = validate_oracle(enum_max)
    rep.notes.append(f"oracle level weights == brute-force enumeration of all coalescent histories for all "
                     f"{checked} pairs 2<=k<=n<={enum_max} (exact rational arithmetic)")

    cct = {d: prior.ConditionalCoalescentTimes(0, d) for d in ("gamma", "lognorm")}
    stats = {"mean": 0.0, "var": 0.0}
    with np.errstate(divide="ignore", invalid="ignore"):
        for n in range(2, nmax + 1):
            check_n(rep, cct, n, range(2, n + 1), stats)
        for n in ladder:
            check_n(rep, cct, n, ladder_ks(n, rng), stats)
    # history independence of the default (exact for small n) path: one object that owns a lookup table, an
    # approximate add first, then default adds -- the rows must still be the exact moments (second C14 seed)
    import os
    import tempfile
    old_xdg = os.environ.get("XDG_CACHE_HOME")
    with tempfile.TemporaryDirectory(prefix="c14cache") as td:
        os.environ["XDG_CACHE_HOME"] = td
        try:
            from tsdate.prior import PriorParams
            im, iv = PriorParams.field_index("mean"), PriorParams.field_index("var")
            for distr in ("gamma", "lognorm"):
                for first in ((40, True), (12, False), None):
                    import logging
                    logging.disable(logging.WARNING)
                    try:
                        obj = prior.ConditionalCoalescentTimes(60, distr)
                    finally:
                        logging.disable(logging.NOTSET)
                    if first is not None:
                        obj.add(first[0], approximate=first[1])
                    for n2 in (5, 9, 25):
                        obj.add(n2)  # default: exact, since n2 < DEFAULT_APPROX_PRIOR_SIZE
                        ex = KingmanExact(n2)
                        for k in range(2, n2 + 1):
                            mean_q, var_q = ex.moments(k)
                            row = obj[n2][k]
                            rep.case("default-add-is-exact-whatever-was-added-before",
                                     close(row[im], float(mean_q), RTOL) and close(row[iv], float(var_q), RTOL),
                                     key=f"{distr}/first{first}/n{n2}k{k}",
                                     input={"prior_distr": distr, "precalc_approximation_n": 60, "first_add": first, "then_default_add": n2, "k": k},
                                     observed=[float(row[im]), float(row[iv])], expected=[float(mean_q), float(var_q)])
        finally:
            if old_xdg is None:
                os.environ.pop("XDG_CACHE_HOME", None)
            else:
                os.environ["XDG_CACHE_HOME"] = old_xdg
    rep.notes.append(f"max relative deviation from the exact moments: mean {stats['mean']:.2e}, "
                     f"var {stats['var']:.2e}")


if __name__ == "__main__":
    bounded_api.main(run)
