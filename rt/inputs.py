"""
Shared input space for the bounded stand-ins (runs under /venv/bin/python).

Everything here is deterministic given `seed`.  Sizes are kept small so a quick run takes seconds
with NUMBA_DISABLE_JIT=1.
"""
import itertools

import msprime
import numpy as np
import tskit


# ------------------------------------------------------------------ exhaustive small tree shapes
def all_tree_shapes(n_leaves):
    """All rooted leaf-labelled tree shapes on leaves 0..n-1 as nested tuples, polytomies included.

    A tree is either an int (leaf) or a tuple of >= 2 subtrees.  Children are kept in canonical
    order so that each labelled topology appears once."""
    def canon(t):
        if isinstance(t, int):
            return t
        return tuple(sorted((canon(c) for c in t), key=lambda x: (min_leaf(x))))

    def min_leaf(t):
        return t if isinstance(t, int) else min(min_leaf(c) for c in t)

    def set_partitions(items):
        if len(items) == 1:
            yield [items]
            return
        first, rest = items[0], items[1:]
        for part in set_partitions(rest):
            for i in range(len(part)):
                yield part[:i] + [[first] + part[i]] + part[i + 1:]
            yield [[first]] + part

    def trees(leaves):
        if len(leaves) == 1:
            yield leaves[0]
            return
        for part in set_partitions(list(leaves)):
            if len(part) < 2:
                continue
            for combo in itertools.product(*[list(trees(tuple(b))) for b in part]):
                yield canon(tuple(combo))

    seen = set()
    for t in trees(tuple(range(n_leaves))):
        if t not in seen:
            seen.add(t)
            yield t


def tree_to_ts(shape, sequence_length=10.0, mutations=None, site_positions=None):
    """Build a single-tree tree sequence from a nested-tuple shape.  Internal nodes get increasing
    uncalibrated times in post-order.  `mutations`: dict node_id -> count (placed at distinct sites)."""
    tables = tskit.TableCollection(sequence_length)
    n = len(leaves_of(shape))
    for _ in range(n):
        tables.nodes.add_row(flags=tskit.NODE_IS_SAMPLE, time=0)
    counter = [1.0]
    edges = []

    def build(t):
        if isinstance(t, int):
            return t
        kids = [build(c) for c in t]
        u = tables.nodes.add_row(flags=0, time=counter[0])
        counter[0] += 1.0
        for k in kids:
            edges.append((u, k))
        return u

    build(shape)
    for p, c in sorted(edges, key=lambda e: (tables.nodes.time[e[0]], e[0], e[1])):
        tables.edges.add_row(0, sequence_length, p, c)
    if mutations:
        total = sum(mutations.values())
        pos = site_positions or [sequence_length * (k + 0.5) / max(total, 1) for k in range(total)]
        k = 0
        for node, cnt in sorted(mutations.items()):
            for _ in range(cnt):
                s = tables.sites.add_row(position=pos[k], ancestral_state="0")
                tables.mutations.add_row(site=s, node=node, derived_state="1")
                k += 1
    tables.sort()
    tables.build_index()
    tables.compute_mutation_parents()
    return tables.tree_sequence()


def leaves_of(t):
    return [t] if isinstance(t, int) else [x for c in t for x in leaves_of(c)]


# ------------------------------------------------------------------ simulations
def sim(seed, n=4, L=2e4, rec=1e-4, mu=2e-4, ne=100, ploidy=1, model=None):
    ts = msprime.sim_ancestry(n, ploidy=ploidy, sequence_length=L, recombination_rate=rec,
                              population_size=ne, random_seed=seed + 1, model=model)
    return msprime.sim_mutations(ts, rate=mu, random_seed=seed + 7)


def sim_suite(seed, k=6, **kw):
    """A few small simulated inputs: single tree, several trees, diploid individuals."""
    out = []
    for i in range(k):
        out.append((f"sim{i}", sim(seed * 100 + i, n=int(3 + i % 4), rec=(0 if i % 3 == 0 else 1e-4), **kw)))
    return out


def with_polytomy(seed):
    """A star-like / polytomy input (collapsed internal node)."""
    ts = sim(seed, n=5, rec=0)
    tables = ts.dump_tables()
    # collapse the youngest internal node's parent edge
    t = ts.first()
    internal = [u for u in t.nodes(order="timeasc") if not t.is_sample(u) and t.parent(u) != tskit.NULL]
    if not internal:
        return ts
    u = internal[0]
    p = t.parent(u)
    edges = tables.edges.copy()
    tables.edges.clear()
    for e in edges:
        if e.child == u:
            continue
        tables.edges.add_row(e.left, e.right, p if e.parent == u else e.parent, e.child)
    muts = tables.mutations.copy()
    tables.mutations.clear()
    for m in muts:
        if m.node == u:
            continue
        tables.mutations.append(m.replace(parent=tskit.NULL))
    tables.sort()
    tables.build_index()
    tables.compute_mutation_parents()
    return tables.simplify().tree_sequence() if False else tables.tree_sequence()


def historical(seed, n_hist=2):
    """Simulated input with historical (non-zero time) samples."""
    samples = [msprime.SampleSet(3, time=0, ploidy=1), msprime.SampleSet(n_hist, time=20, ploidy=1)]
    ts = msprime.sim_ancestry(samples, sequence_length=2e4, recombination_rate=1e-4, population_size=100,
                              random_seed=seed + 3)
    return msprime.sim_mutations(ts, rate=2e-4, random_seed=seed + 11)


def diploid_unphased(seed, n=3):
    """Diploid individuals (for singletons_phased=False)."""
    return sim(seed, n=n, ploidy=2)


def scale_times(ts, c):
    tables = ts.dump_tables()
    tables.nodes.time = tables.nodes.time * c
    tables.mutations.time = np.full(tables.mutations.num_rows, tskit.UNKNOWN_TIME)
    return tables.tree_sequence()


def renumber_nonsample_nodes(ts, rng):
    """Return (new ts, old->new map) with non-sample node ids permuted."""
    tables = ts.dump_tables()
    n = ts.num_nodes
    nonsample = np.array([u for u in range(n) if not ts.node(u).is_sample()])
    perm = np.arange(n)
    perm[nonsample] = rng.permutation(nonsample)  # old id -> new id
    order = np.argsort(perm)  # new id -> old id
    tables.subset(order)
    tables.sort()
    tables.build_index()
    tables.compute_mutation_parents()
    return tables.tree_sequence(), perm
