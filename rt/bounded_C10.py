"""
Bounded stand-in (G4) for C10 -- "inside-outside is exact on a single tree".

Contract clauses evaluated (on the REAL `tsdate.inside_outside`, public API, observed through
`fit.node_posteriors()` and the value returned for `return_likelihood=True`):

  posterior-equals-exact-marginal[linear]          every non-sample node's posterior row equals the exact
  posterior-equals-exact-marginal[logarithmic]     marginal of the discretised model (row by row, entry by entry)
  likelihood-equals-normalising-constant[linear]   returned likelihood == Z          (linear space)
  likelihood-equals-normalising-constant[logarithmic]  returned likelihood == log Z  (logarithmic space)
  known-...                                        two isolated conditions, see "Known findings" below

The discretised model (written from the property statement, no tsdate code):  every non-sample node u takes
a grid index i_u in 0..K-1; an assignment has weight
        prod_u prior[u][i_u]  *  prod_{edges (p,c)} Poisson(m_pc ; (t[i_p] - t[i_c] + eps) * mu * span_pc)
if i_p >= i_c on every edge (parents no younger than children; equal timepoints allowed) and 0 otherwise; a
sample child sits at grid time t[0] (= 0 for every grid of the main clauses); `eps` is added to every edge
duration as in tsdate's documented "error factor"; `prior[u]` is the un-normalised row of the prior object
handed to tsdate; m_pc = number of mutations whose node is c (mutations above the root belong to no edge).
Z = sum of all weights; marginal(u)[i] = (sum of weights with i_u = i) / Z.
The oracle enumerates ALL K^(#non-sample nodes) assignments as a dense numpy tensor with one cell per assignment
holding its log-weight (so no single assignment underflows; sums are shift-by-max log-sum-exp over the cells; no
message passing, no triangular packing, own Poisson formula); every `SELFCHECK_EVERY`-th case is re-enumerated assignment-by-assignment with itertools
in 40-digit mpmath arithmetic, and a disagreement of the two oracles raises (checker bug, not a violation).

Input space / bound
  trees     all rooted leaf-labelled trees (binary and polytomies) from rt.inputs.all_tree_shapes
            quick: all 31 trees with 2-4 leaves + 30 seeded 5-leaf trees;  thorough: all 267 trees with 2-5 leaves
  mutations per-edge count patterns: all 0; all 1; seeded draws from {0,1,2,3,6} (+1 mutation above the root);
            seeded sparse draws from {0,0,0,1,4}   (quick: 3 patterns/tree; thorough: 6 = all 0, all 1, two draws
            of each seeded kind)
  grids     A [0,100,200,300,400]  B [0,1,10,100,1000]  C [0,30,30.5,120,121,500]  D [0,150] (2 points)
            Q = tsdate's own quantile grid (timepoints=3)
  priors    tsdate.build_prior_grid lognorm / gamma (population_size 100), and a synthetic random prior with
            positive mass at time 0 and one exact zero per row (rows written straight into a NodeTimeValues)
  options   probability_space x {linear, logarithmic} (always both); outside_standardize, cache_inside,
            eps in {1e-8 (default, weight 2), 1e-2, 0}, (sequence_length, mutation_rate) in {(10,1e-3),(3.5,4e-3)}
            drawn per case from default_rng(seed).  eps = 0 cases whose model has Z == 0 (infeasible) are skipped.
  quick: every tree x 3 patterns x 5 (grid, prior) combinations (rotating);  thorough: every tree x 6 patterns x
  all 15 (grid, prior) combinations.  `exhaustive` is True for the thorough tier (all trees of the stated sizes x
  the fixed finite lists above), False for quick (5-leaf trees sampled).

Tolerances
  posterior entries:  |obs - exp| <= 1e-9 * exp + atol,  atol = 1e-280 in logarithmic and 1e-200 in linear space.
  tsdate's sum-product and the enumeration are algebraically identical sums of positive products, so 1e-9
  relative is ~1e6 ulps of slack (largest error observed: 2.3e-13).  The absolute term only exempts entries that
  double precision cannot carry: below 1e-280 neither side has relative precision (subnormals); in linear space
  products of several edge likelihoods of size Poisson(6; eps*mu*span) ~ 1e-63 underflow to 0 before they are
  renormalised (the documented limitation of linear space, and C12's explicit precondition), which zeroes
  posterior entries below ~1e-200 (1 of 15 471 thorough inputs: exact 3.0e-263, linear 0.0, logarithmic exact).
  Every entry >= 1e-200 is compared relatively in both spaces.
  likelihood: linear  |obs - Z| <= 1e-9 Z ;  logarithmic |obs - log Z| <= 1e-9 (absolute on the log = relative
  1e-9 on Z).  Inputs with Z < 1e-250 are skipped (none occurs in the stated space).

Known findings isolated in their own clauses (the generic clauses stay strict on every other input)
  known-node-posterior-entirely-at-first-timepoint-gives-nan   inputs where the EXACT marginal of some node has no
      mass beyond the first timepoint (possible only with a user prior that has mass at t[0]; arises with eps = 0,
      or with a prior row that is a point mass at t[0]): NodeTimeValues.standardize() divides each posterior row
      by its maximum over columns 1.., i.e. by 0, the posterior becomes NaN and inside_outside raises
      tskit.LibraryError "Times must be finite".  A few such inputs are constructed on purpose (prior kind
      "synthetic-pointmass0") so that the clause is populated in every run.
  known-first-timepoint-above-zero-sample-edges-measured-from-first-timepoint   grids whose first timepoint is > 0
      (accepted by build_prior_grid), judged against the model with the samples at their real time 0: tsdate
      measures sample edges from t[0] (timediff = timepoints - timepoints[0] + eps); its output equals the model
      with the samples at t[0] (recorded per case as equals_model_with_samples_at_first_timepoint).

NOT covered: trees with more than 5 leaves; multi-tree inputs (inside-outside is not exact there); grids with
more than ~10 points; mutation counts above 6; underflowing linear-space runs; recombination clock; the
integer-triangular-packing lemmas (G1's job).
"""
import copy
import itertools
import math
import warnings

import numpy as np

from rt import bounded_api, inputs

SELFCHECK_EVERY = 97
RTOL = 1e-9
ATOL = {"logarithmic": 1e-280, "linear": 1e-200}

GRIDS = {
    "A": np.array([0.0, 100.0, 200.0, 300.0, 400.0]),
    "B": np.array([0.0, 1.0, 10.0, 100.0, 1000.0]),
    "C": np.array([0.0, 30.0, 30.5, 120.0, 121.0, 500.0]),
    "D": np.array([0.0, 150.0]),
    "Q": 3,
}
PRIOR_KINDS = ("lognorm", "gamma", "synthetic")
NONZERO_START_GRIDS = {"N1": np.array([5.0, 20.0, 50.0, 200.0]), "N2": np.array([40.0, 100.0, 300.0])}


# ------------------------------------------------------------------------------- specification oracle
def log_poisson(m, lam):
    """log Poisson(m; lam) = m log(lam) - lam - log(m!), vectorised over lam >= 0 (lam = 0: 0 if m = 0 else -inf)."""
    lam = np.asarray(lam, dtype=float)
    out = np.empty_like(lam)
    pos = lam > 0
    out[pos] = m * np.log(lam[pos]) - lam[pos] - math.lgamma(m + 1)
    out[~pos] = 0.0 if m == 0 else -np.inf
    return out


def log_sum_exp(a, axis=None):
    """log(sum(exp(a))) over `axis` (all axes if None), shifted by the maximum; all -inf gives -inf."""
    mx = np.max(a, axis=axis, keepdims=True)
    mx = np.where(np.isfinite(mx), mx, 0.0)
    with np.errstate(divide="ignore"):
        out = np.log(np.sum(np.exp(a - mx), axis=axis, keepdims=True)) + mx
    if axis is None:
        return float(out.ravel()[0])
    return np.squeeze(out, axis=axis)


def tree_structure(ts):
    """(samples, non-sample nodes, [(parent, child, span, mutation count)]) read straight from the tables."""
    samples = set(int(s) for s in ts.samples())
    nodes = [u for u in range(ts.num_nodes) if u not in samples]
    muts_on_node = np.bincount(ts.mutations_node, minlength=ts.num_nodes)
    edges = [(int(e.parent), int(e.child), float(e.right - e.left), int(muts_on_node[e.child])) for e in ts.edges()]
    return samples, nodes, edges


def exact_model(ts, prior_rows, t, mu, eps, sample_time=None):
    """Dense enumeration of ALL assignments (one tensor cell per assignment, log weights so that no assignment
    underflows).  Returns (log Z, {u: marginal row})."""
    samples, nodes, edges = tree_structure(ts)
    K = len(t)
    axis = {u: a for a, u in enumerate(nodes)}
    n = len(nodes)
    logW = np.zeros((K,) * n)

    def along(vec, a):
        shp = [1] * n
        shp[a] = K
        return np.reshape(vec, shp)

    with np.errstate(divide="ignore"):
        for u in nodes:
            logW = logW + along(np.log(np.asarray(prior_rows[u], dtype=float)), axis[u])
    t0 = t[0] if sample_time is None else sample_time
    for p, c, span, m in edges:
        if c in samples:
            logW = logW + along(log_poisson(m, (t - t0 + eps) * mu * span), axis[p])
        else:
            dt = t[:, None] - t[None, :]                      # [i_p, i_c]
            allowed = np.arange(K)[:, None] >= np.arange(K)[None, :]
            M = np.where(allowed, log_poisson(m, (np.maximum(dt, 0.0) + eps) * mu * span), -np.inf)
            shp = [1] * n
            shp[axis[p]] = K
            shp[axis[c]] = K
            logW = logW + np.reshape(M if axis[p] < axis[c] else M.T, shp)
    logZ = log_sum_exp(logW)
    marg = {}
    for u in nodes:
        other = tuple(a for a in range(n) if a != axis[u])
        if np.isfinite(logZ):
            marg[u] = np.exp((log_sum_exp(logW, axis=other) if other else logW) - logZ)
        else:
            marg[u] = np.full(K, np.nan)
    return logZ, marg


def exact_model_mp(ts, prior_rows, t, mu, eps):
    """The same model, one assignment at a time, 40 significant digits (oracle self-check only)."""
    import mpmath
    mp = mpmath.mp.clone()
    mp.dps = 40
    samples, nodes, edges = tree_structure(ts)
    K = len(t)
    tt = [mp.mpf(float(x)) for x in t]
    mu_, eps_ = mp.mpf(mu), mp.mpf(eps)

    def pois(m, lam):
        if lam == 0:
            return mp.mpf(1) if m == 0 else mp.mpf(0)
        return mp.exp(-lam) * lam ** m / mp.factorial(m)

    Z = mp.mpf(0)
    marg = {u: [mp.mpf(0)] * K for u in nodes}
    for assign in itertools.product(range(K), repeat=len(nodes)):
        idx = dict(zip(nodes, assign))
        w = mp.mpf(1)
        for u in nodes:
            w *= mp.mpf(float(prior_rows[u][idx[u]]))
        for p, c, span, m in edges:
            ic = 0 if c in samples else idx[c]
            if idx[p] < ic:
                w = mp.mpf(0)
                break
            w *= pois(m, (tt[idx[p]] - tt[ic] + eps_) * mu_ * mp.mpf(span))
        Z += w
        for u in nodes:
            marg[u][idx[u]] = marg[u][idx[u]] + w
    return Z, {u: [x / Z for x in marg[u]] for u in nodes}


# ------------------------------------------------------------------------------- input construction
def mutation_pattern(kind, ts_plain, rng):
    """dict node -> count.  Edge above node c carries the mutations of node c; the root has no edge."""
    tree = ts_plain.first()
    root = tree.root
    children = [u for u in range(ts_plain.num_nodes) if u != root]
    if kind == "zeros":
        return {}
    if kind == "ones":
        return {u: 1 for u in children}
    kind = kind.rstrip("2")                 # "mixed2"/"sparse2": a second independent draw of the same kind
    if kind == "mixed":
        pat = {u: int(rng.choice([0, 1, 2, 3, 6])) for u in children}
        pat[root] = 1                       # above the root: belongs to no edge, must be ignored
        return {u: k for u, k in pat.items() if k > 0}
    if kind == "sparse":
        pat = {u: int(rng.choice([0, 0, 0, 1, 4])) for u in children}
        return {u: k for u, k in pat.items() if k > 0}
    raise ValueError(kind)


def make_prior(ts, grid, kind, rng):
    import tsdate
    from tsdate.node_time_class import NodeTimeValues
    with warnings.catch_warnings():
        warnings.simplefilter("ignore")
        base = tsdate.build_prior_grid(ts, population_size=100, timepoints=grid,
                                       prior_distribution="gamma" if kind == "gamma" else "lognorm")
    if kind in ("lognorm", "gamma"):
        return base
    t = np.array(base.timepoints, dtype=float)
    pr = NodeTimeValues(ts.num_nodes, np.array(base.nonfixed_nodes), t)
    K = len(t)
    for u in base.nonfixed_nodes:
        row = rng.uniform(0.05, 1.0, size=K)
        if K > 2:                           # one exact zero somewhere except at the oldest timepoint
            row[int(rng.integers(0, K - 1))] = 0.0
        pr[u] = row
    if kind == "synthetic-pointmass0":      # the youngest non-sample node can only sit at the first timepoint
        row = np.zeros(K)
        row[0] = 0.7
        pr[int(base.nonfixed_nodes[0])] = row
    return pr


def prior_rows_of(pr):
    return {int(u): np.array(pr[u], dtype=float) for u in pr.nonfixed_nodes}


def posterior_matrix(fit, K):
    P = fit.node_posteriors()
    return np.array(P.tolist(), dtype=float).reshape(-1, K)


# ------------------------------------------------------------------------------- the check
def rows_close(obs, exp, space):
    obs = np.asarray(obs, float)
    exp = np.asarray(exp, float)
    if not np.all(np.isfinite(obs)):
        return False
    return bool(np.all(np.abs(obs - exp) <= RTOL * np.abs(exp) + ATOL[space]))


KNOWN_NONZERO_START = "known-first-timepoint-above-zero-sample-edges-measured-from-first-timepoint"
KNOWN_MASS_AT_FIRST = "known-node-posterior-entirely-at-first-timepoint-gives-nan"


def lik_close(lik, logZ, space):
    if not np.isfinite(lik):
        return False
    if space == "linear":
        Z = math.exp(logZ)
        return abs(lik - Z) <= RTOL * Z
    return abs(lik - logZ) <= RTOL


def run_case(rep, state, shape, pattern_kind, muts, L, mu, grid_name, grid, prior_kind, eps, opts, rng_prior,
             samples_at_true_zero=False):
    import tsdate
    ts = inputs.tree_to_ts(shape, sequence_length=L, mutations=muts)
    pr = make_prior(ts, grid, prior_kind, rng_prior)
    t = np.array(pr.timepoints, dtype=float)
    K = len(t)
    rows = prior_rows_of(pr)
    logZ, marg = exact_model(ts, rows, t, mu, eps, sample_time=0.0 if samples_at_true_zero else None)
    key = f"{shape}|{pattern_kind}:{sorted(muts.items())}|L{L}|mu{mu}|{grid_name}|{prior_kind}|eps{eps}"
    desc = {"shape": shape, "mutations": {str(k): v for k, v in muts.items()}, "sequence_length": L,
            "mutation_rate": mu, "timepoints": t, "prior": prior_kind,
            "prior_rows": {str(u): r for u, r in rows.items()}, "eps": eps, "options": opts}
    if not np.isfinite(logZ):
        state["skipped_Z0"] += 1            # infeasible model (only with eps = 0): posterior undefined
        return
    if logZ < math.log(1e-250):
        state["skipped_underflow"] += 1     # the linear-space normalising constant itself would underflow
        return
    state["cases"] += 1
    if not samples_at_true_zero and state["cases"] % SELFCHECK_EVERY == 1 and K ** len(rows) <= 20000:
        Zmp, margmp = exact_model_mp(ts, rows, t, mu, eps)
        Z = math.exp(logZ)
        if abs(float(Zmp) - Z) > 1e-11 * Z or any(
                abs(float(a) - b) > 1e-11 * abs(float(a)) + 1e-300 for u in marg for a, b in zip(margmp[u], marg[u])):
            raise RuntimeError(f"oracle self-check failed on {key}")
        state["selfchecks"] += 1
    nontrivial = any(np.max(marg[u]) < 1 - 1e-12 for u in marg)
    # the isolated condition: some node's exact marginal has no mass at all beyond the first timepoint
    mass_at_first = any(np.max(marg[u][1:]) == 0.0 for u in marg)
    for space in ("linear", "logarithmic"):
        d = dict(desc, probability_space=space)
        clause_post = f"posterior-equals-exact-marginal[{space}]"
        clause_lik = f"likelihood-equals-normalising-constant[{space}]"
        if samples_at_true_zero:
            clause_post = clause_lik = KNOWN_NONZERO_START
        elif mass_at_first:
            clause_post = clause_lik = KNOWN_MASS_AT_FIRST
        exp_lik = math.exp(logZ) if space == "linear" else logZ
        exp_all = {"likelihood": exp_lik, "posterior": {str(u): marg[u] for u in marg}}
        try:
            with warnings.catch_warnings():
                warnings.simplefilter("ignore")
                _, fit, lik = tsdate.inside_outside(
                    ts, mutation_rate=mu, priors=copy.deepcopy(pr), eps=eps, probability_space=space,
                    outside_standardize=opts["outside_standardize"], cache_inside=opts["cache_inside"],
                    return_fit=True, return_likelihood=True)
            post = posterior_matrix(fit, K)
        except Exception as e:   # a crash on a feasible model violates both clauses
            err = f"{type(e).__name__}: {e}"
            for cl in sorted({clause_post, clause_lik}):
                rep.case(cl, False, key=key, input=d, observed=err, expected=exp_all, nontrivial=nontrivial)
            continue
        bad = [u for u in marg if not rows_close(post[u], marg[u], space)]
        samples_nan = all(np.all(np.isnan(post[int(s)])) for s in ts.samples())
        ok_post = not bad and samples_nan
        ok_lik = lik_close(lik, logZ, space)
        obs_all = {"likelihood": lik, "posterior": {str(u): post[u] for u in marg}}
        if samples_at_true_zero:
            # for the report: does the run instead agree with the model whose samples sit at t[0]?
            logZ1, marg1 = exact_model(ts, rows, t, mu, eps)
            obs_all["equals_model_with_samples_at_first_timepoint"] = bool(
                all(rows_close(post[u], marg1[u], space) for u in marg1) and lik_close(lik, logZ1, space))
        if clause_post == clause_lik:
            rep.case(clause_post, ok_post and ok_lik, key=key, input=d, observed=obs_all, expected=exp_all,
                     nontrivial=nontrivial)
            continue
        rep.case(clause_post, ok_post, key=key, input=d,
                 observed={str(u): post[u] for u in (bad or list(marg)[:1])},
                 expected={str(u): marg[u] for u in (bad or list(marg)[:1])}, nontrivial=nontrivial)
        rep.case(clause_lik, ok_lik, key=key, input=d, observed=lik, expected=exp_lik, nontrivial=nontrivial)
        if ok_post:      # record the largest relative error among the normal-range entries (reported in notes)
            for u in marg:
                big = marg[u] > 1e-200
                err = float(np.max(np.abs(post[u][big] - marg[u][big]) / marg[u][big]))
                state["max_rel_err"] = max(state["max_rel_err"], err)


def run(req, rep):
    tier, seed = req["tier"], int(req["seed"])
    thorough = tier == "thorough"
    rng = np.random.default_rng(seed)
    trees = [s for n in (2, 3, 4) for s in inputs.all_tree_shapes(n)]
    five = list(inputs.all_tree_shapes(5))
    if thorough:
        trees += five
    else:
        trees += [five[i] for i in sorted(rng.choice(len(five), size=30, replace=False))]
    pattern_kinds = (["zeros", "ones", "mixed", "sparse", "mixed2", "sparse2"] if thorough
                     else ["ones", "mixed", "sparse"])
    combos = [(g, p) for g in GRIDS for p in PRIOR_KINDS]
    eps_choices = [1e-8, 1e-8, 1e-2, 0.0]
    rate_choices = [(10.0, 1e-3), (3.5, 4e-3)]
    opt_choices = [{"outside_standardize": a, "cache_inside": b} for a in (True, False) for b in (False, True)]
    rep.space = ("single-tree inputs: rooted leaf-labelled trees (binary + polytomies) x per-edge mutation-count "
                 "patterns x 5 time grids x 3 prior kinds (lognorm, gamma, synthetic with zeros) x {linear, "
                 "logarithmic} x seeded eps/outside_standardize/cache_inside/(sequence_length, mutation_rate)")
    rep.bound = (f"{len(trees)} trees ({'all with 2-5 leaves' if thorough else 'all with 2-4 leaves + 30 seeded 5-leaf'}"
                 f"), {len(pattern_kinds)} mutation patterns per tree (counts <= 6), grids of 2-10 points, "
                 f"{'all 15' if thorough else '5 rotating'} (grid, prior) combinations per pattern")
    rep.exhaustive = bool(thorough)
    state = {"cases": 0, "selfchecks": 0, "skipped_Z0": 0, "skipped_underflow": 0, "max_rel_err": 0.0}
    for ti, shape in enumerate(trees):
        plain = inputs.tree_to_ts(shape)
        for pi, kind in enumerate(pattern_kinds):
            muts = mutation_pattern(kind, plain, rng)
            if thorough:
                chosen = combos
            else:
                chosen = [combos[(ti * 7 + pi * 4 + j * 8) % len(combos)] for j in range(5)]
            for g, p in chosen:
                L, mu = rate_choices[int(rng.integers(2))]
                eps = eps_choices[int(rng.integers(4))]
                opts = opt_choices[int(rng.integers(4))]
                run_case(rep, state, shape, kind, muts, L, mu, g, GRIDS[g], p, eps, opts, rng)
    small = trees[:31] if thorough else trees[:8]
    # (1) a prior that pins the youngest internal node to the first timepoint (default eps): lands in KNOWN_MASS_AT_FIRST
    for si, shape in enumerate(small):
        plain = inputs.tree_to_ts(shape)
        muts = mutation_pattern("zeros" if si % 2 else "sparse", plain, rng)
        run_case(rep, state, shape, "pinned", muts, 10.0, 1e-3, "A", GRIDS["A"], "synthetic-pointmass0", 1e-8,
                 opt_choices[si % 4], rng)
    # (2) grids that do not start at time 0, judged against the model with the samples at their true time 0
    for gi, (g, grid) in enumerate(NONZERO_START_GRIDS.items()):
        for si, shape in enumerate(small):
            plain = inputs.tree_to_ts(shape)
            muts = mutation_pattern("ones", plain, rng)
            run_case(rep, state, shape, "ones", muts, 10.0, 1e-3, g, grid, ("lognorm", "synthetic")[(gi + si) % 2],
                     1e-8, opt_choices[0], rng, samples_at_true_zero=True)
    rep.notes.append(f"{state['cases']} feasible inputs, each run in both probability spaces; "
                     f"{state['selfchecks']} oracle self-checks against 40-digit assignment-by-assignment "
                     f"enumeration; skipped: {state['skipped_Z0']} infeasible (Z = 0, only with eps = 0), "
                     f"{state['skipped_underflow']} with Z < 1e-250; "
                     f"largest relative posterior error seen in passing rows {state['max_rel_err']:.2e}")


if __name__ == "__main__":
    bounded_api.main(run)
