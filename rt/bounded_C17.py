"""
Bounded stand-in for C17 -- "Population-size time transforms are exact and mutually inverse".

All clauses run the REAL `tsdate.demography.PopulationSizeHistory` (and `tsdate.build_parameter_grid`).
Write I(t) = integral_0^t ds / (2 N(s)) for the piecewise-constant history, evaluated by the oracle in exact
rational arithmetic (the doubles defining the history and t are converted to Fractions; no rounding until the
final comparison), g = I^-1 likewise.  Two specification-side quantities classify the inputs:
      chi(t) = (t / (2 N(t))) / I(t)    relative condition number of I at t (>> 1: t lies in an epoch whose
                                        size is far below the harmonic-mean size over [0, t], a "strong
                                        contraction" going back in time); chi <= max N / min N always
      R      = max_i N_i / min_i N_i    size range of the history
The thresholds (chi <= 1e3, R <= 1e3) were fixed from the error analysis of a double-precision evaluation, not
from the outcome: tsdate's formulas lose a factor chi (to_coalescent) resp. up to R^2 (to_natural, whose stored
coalescent breakpoints come from to_coalescent and are multiplied by differences of epoch sizes) of the 1e-16
unit round-off, so 1e3 leaves a margin of 10 below the 1e-9 tolerance.

  to-coalescent-equals-integral          to_coalescent_timescale(t) == I(t), rel 1e-9, every t with chi(t) <= 1e3
                                         (in histories of any size range)
  to-natural-equals-inverse-integral     to_natural_timescale(c) == g(c), rel 1e-9, every c, histories with R <= 1e3
  round-trip-recovers-input              to_natural(to_coalescent(t)) == t and to_coalescent(to_natural(c)) == c,
                                         rel 1e-9, histories with R <= 1e3
  known-to-coalescent-cancellation-after-strong-contraction
                                         the same strict forward comparison at the points with chi > 1e3: tsdate
                                         evaluates t/(2N_i) + step_i with step_i ~ -t/(2N_i) and loses log10(chi)
                                         digits although I(t) is a sum of positive terms (computable to 1e-16);
                                         exceeds 1e-9 once chi is about 1e7, e.g. sizes [1e8, 1], break 1e4, t = 1e4
  known-to-natural-precision-loss-when-sizes-span-more-than-1e3
                                         the strict to_natural and round-trip comparisons in histories with
                                         R > 1e3: the coalescent breakpoints stored by __init__ carry the error
                                         above and are multiplied by 2(N_{i-1} - N_i), which shifts to_natural by a
                                         constant in every later epoch (observed up to 1e-7 relative); for
                                         t -> c -> t with kappa = 1/chi >> 1 part of the loss is inherent in
                                         rounding c to a double
  maps-fix-zero                          both maps send 0.0 to exactly 0.0
  maps-strictly-increasing               for consecutive test points whose exact images differ by more than 1e-9
                                         relative the computed images are strictly ordered; closer ones (adjacent
                                         doubles) are ordered up to 1e-9 relative (to_coalescent: points with
                                         chi <= 1e3; to_natural: histories with R <= 1e3)
  maps-continuous-at-breakpoints         the values at nextafter(b, -inf), b, nextafter(b, +inf) agree to rel 1e-9
                                         at every breakpoint b (same restrictions)
  as-dict-rebuilds-identical-history     PopulationSizeHistory(**h.as_dict()) has bit-identical time_breaks,
                                         population_size, coalescent_breaks, coalescent_rate, and as_dict()
                                         returns the constructor arguments bit-identically
  gamma-to-natural-matches-mapped-moments   (a', b') = gamma_to_natural(a, b): a', b' > 0, a'/b' == E[g(X)], a'/b'^2
                                         == Var[g(X)], X ~ Gamma(shape a, rate b) in coalescent units
  gamma-to-natural-constant-size-is-rescaled-gamma   single epoch: a' == a, b' == b / (2N)
  known-gamma-to-natural-epoch-masses-by-cdf-differencing
                                         the same comparison for the (history, a, b) whose specification-side noise
                                         bound exceeds a tenth of the tolerance: tsdate obtains the probability
                                         mass of each epoch as a difference of regularised lower incomplete gamma
                                         values (absolute error ~1e-16, also for masses of 1e-18 in the upper tail)
                                         and multiplies it by the squared intercept (b_i - 2 N_i c_i)^2 of g on
                                         that epoch.  noise = 1.1e-16 * max_i(k0_i^2 + 2 k0_i 2N_i E[X] +
                                         (2N_i)^2 E[X^2]) / E[g(X)^2] > 1e-10 selects these cases.  Example:
                                         sizes [10, 1e8], break 800, Gamma(1, 1) returns a NEGATIVE shape and rate
  parameter-grid-rows-are-mapped-gammas  build_parameter_grid(ts, population_size=h)[u] equals the moment-matched
                                         gamma of g(X_u), X_u the node's coalescent-scale gamma prior
                                         (MixturePrior(ts, "gamma").prior_params[u]); the grid has exactly one
                                         (shape, rate) row per non-sample node (rows diverted to the known- clause
                                         by the same noise predicate)

Oracles (no code shared with tsdate): I, g exact in `fractions.Fraction`; E[g(X)], E[g(X)^2] by `mpmath.quad`
(25 digits, pieces split at the coalescent breakpoints and at a ladder of multiples of the gamma mean), cross-
checked on every case against the closed form sum_i of generalised incomplete gamma functions
(`mpmath.gammainc(a + j, b c_i, b c_{i+1})`); if the two oracle evaluations disagree by more than 1e-12 the
module raises (checker error), it is not reported as a violation.

Input space
  histories: 1..6 epochs (quick) / 1..10 (thorough); sizes 10^U(0, w) with w in {1, 2, 3, 3, 6, 9}, breaks
     10^U(0, 5) sorted, 30 % rounded to integers; plus constructor forms (python int, float, list, numpy array,
     integer lists) and hand-built ones (sizes 1e6/1e2 alternating, growth, contraction, 1e8-fold contraction and
     expansion, two breakpoints one ulp apart).  quick: 120 random histories, thorough: 3000.
  times per history: 0, 12 (quick) / 30 log-uniform values in [1e-3, 1e7], every breakpoint b and its two
     neighbouring doubles, midpoints of epochs; coalescent times: the exact images of those (rounded), the
     exact coalescent breakpoints and their neighbouring doubles.
  gamma parameters: shape 10^U(-0.5, 1.7), rate chosen so that the mean shape/rate falls at 10^U(-1.5, 1) times a
     randomly chosen coalescent breakpoint (so the mass straddles epochs); histories of 1..5 epochs with sizes
     10^U(1, 4), breaks 10^U(0, 4); quick: 70 triples, thorough: 1000; plus 4 hand-built tail cases and 12 / 40
     constant-size cases with N = 10^U(0, 7).
  parameter grid: quick 6 / thorough 40 small simulated tree sequences (3..6 samples) x {constant size, 2..4 epochs}.
  All random choices from numpy default_rng(seed).

Tolerances: rel 1e-9 throughout ("algebraically identical" computations).  Variance: the statement's variance
is obtained (by any method) as E[Y^2] - E[Y]^2, so the comparison of a'/b'^2 uses absolute tolerance
1e-9 * E[Y^2] (relative to the second moment); shape/rate are compared through mean and variance only.
as_dict and maps-fix-zero are exact (bitwise).  An exception raised by tsdate on a valid input is a failure.

NOT covered: sizes/breaks outside [1, 1e9] x [1, 1e5] (overflow of 2N for N > 8.9e307, subnormals), more than
10 epochs, non-finite or invalid constructor arguments (C35), gamma shapes outside [0.3, 50]; at inputs outside
the thresholds only the strict comparison is evaluated (and recorded under the known- clauses) -- no weaker,
conditioning-scaled bound is checked there.
"""
import math
from fractions import Fraction

import mpmath
import msprime
import numpy as np

from rt import bounded_api, inputs  # noqa: F401

RTOL = 1e-9
COND_MAX = 1e3


# ---------------------------------------------------------------------------------- exact oracle
class ExactHistory:
    """Piecewise-constant N(t); I(t) and its inverse in exact rationals."""

    def __init__(self, sizes, breaks):
        self.N = [Fraction(float(x)) for x in sizes]
        self.b = [Fraction(0)] + [Fraction(float(x)) for x in breaks]
        assert len(self.N) == len(self.b)
        self.c = [Fraction(0)]
        for i in range(1, len(self.b)):
            self.c.append(self.c[-1] + (self.b[i] - self.b[i - 1]) / (2 * self.N[i - 1]))

    def epoch_of_time(self, t):
        i = 0
        while i + 1 < len(self.b) and self.b[i + 1] <= t:
            i += 1
        return i

    def epoch_of_coal(self, c):
        i = 0
        while i + 1 < len(self.c) and self.c[i + 1] <= c:
            i += 1
        return i

    def I(self, t):  # noqa: E743, E741
        t = Fraction(t)
        i = self.epoch_of_time(t)
        return self.c[i] + (t - self.b[i]) / (2 * self.N[i])

    def Iinv(self, c):
        c = Fraction(c)
        i = self.epoch_of_coal(c)
        return self.b[i] + (c - self.c[i]) * 2 * self.N[i]

    def chi(self, t):
        t = Fraction(t)
        if t == 0:
            return 1.0
        i = self.epoch_of_time(t)
        return float((t / (2 * self.N[i])) / self.I(t))

    @property
    def size_ratio(self):
        return float(max(self.N) / min(self.N))


def rel_close(obs, exact, rtol=RTOL):
    """|obs - exact| <= rtol * |exact| with `exact` a Fraction and obs a finite double (compared exactly)."""
    obs = float(obs)
    if not math.isfinite(obs):
        return False
    return abs(Fraction(obs) - exact) <= Fraction(rtol) * abs(exact)


# ---------------------------------------------------------------------------------- gamma moments oracle
def mapped_gamma_moments(ex, shape, rate, dps=25):
    """E[g(X)], E[g(X)^2] for X ~ Gamma(shape, rate), g = I^-1, by numerical integration; cross-checked with
    the closed form in incomplete gamma functions."""
    cache = ex.__dict__.setdefault("_gamma_cache", {})
    if (shape, rate) in cache:
        return cache[(shape, rate)]
    mpmath.mp.dps = dps
    a, r = mpmath.mpf(shape), mpmath.mpf(rate)
    lognorm = a * mpmath.log(r) - mpmath.loggamma(a)
    memo = {}

    def pdf(x):  # memoised: the two moment integrals use the same quadrature nodes
        if x <= 0:
            return mpmath.mpf(0)
        v = memo.get(x)
        if v is None:
            v = memo[x] = mpmath.exp(lognorm + (a - 1) * mpmath.log(x) - r * x)
        return v

    def mp(fr):
        return mpmath.mpf(fr.numerator) / mpmath.mpf(fr.denominator)

    cb = [mp(x) for x in ex.c] + [mpmath.inf]
    mean_x = a / r
    ladder = [mean_x * f for f in (1e-4, 1e-2, 0.1, 0.3, 0.6, 1, 1.5, 2.5, 4, 7, 12, 25, 60, 200)]
    m1q = m2q = mpmath.mpf(0)
    m1c = m2c = mpmath.mpf(0)
    ga = mpmath.gamma(a)
    for i in range(len(ex.c)):
        lo, hi = cb[i], cb[i + 1]
        b_i, c_i, slope = mp(ex.b[i]), mp(ex.c[i]), 2 * mp(ex.N[i])
        pts = [lo] + sorted(p for p in ladder if lo < p < hi) + [hi]

        def g(x, b_i=b_i, c_i=c_i, slope=slope):
            return b_i + (x - c_i) * slope

        m1q += mpmath.quad(lambda x: g(x) * pdf(x), pts)
        m2q += mpmath.quad(lambda x: g(x) ** 2 * pdf(x), pts)
        # closed form: g(x) = k0 + slope x ; int x^j pdf = gammainc(a + j, r lo, r hi) / (Gamma(a) r^j)
        k0 = b_i - c_i * slope
        p0 = mpmath.gammainc(a, r * lo, r * hi) / ga
        p1 = mpmath.gammainc(a + 1, r * lo, r * hi) / (ga * r)
        p2 = mpmath.gammainc(a + 2, r * lo, r * hi) / (ga * r * r)
        m1c += k0 * p0 + slope * p1
        m2c += k0 * k0 * p0 + 2 * k0 * slope * p1 + slope * slope * p2
    if abs(m1q - m1c) > mpmath.mpf(10) ** -12 * abs(m1c) or abs(m2q - m2c) > mpmath.mpf(10) ** -12 * abs(m2c):
        raise RuntimeError(f"oracle self-check: quadrature {m1q},{m2q} vs closed form {m1c},{m2c} "
                           f"(shape={shape}, rate={rate})")
    cache[(shape, rate)] = (m1q, m2q)
    return m1q, m2q


KNOWN_GAMMA = "known-gamma-to-natural-epoch-masses-by-cdf-differencing"


def differencing_noise(ex, shape, rate, m1, m2):
    """Specification-side size of the error that differencing regularised cdf values (absolute error ~1.1e-16
    per epoch mass) induces in E[g(X)] and E[g(X)^2], relative to those moments.  g(x) = k0_i + 2N_i x on epoch i."""
    mx, mxx = shape / rate, shape * (shape + 1) / rate**2
    n1 = n2 = 0.0
    for i in range(len(ex.N)):
        slope = float(2 * ex.N[i])
        k0 = abs(float(ex.b[i] - ex.c[i] * 2 * ex.N[i]))
        n1 = max(n1, k0 + slope * mx)
        n2 = max(n2, k0 * k0 + 2 * k0 * slope * mx + slope * slope * mxx)
    return 1.1e-16 * max(n1 / float(m1), n2 / float(m2))


def check_gamma(rep, clause, key, inp, got, ex, shape, rate):
    m1, m2 = mapped_gamma_moments(ex, shape, rate)
    var = m2 - m1 * m1
    try:
        a2, b2 = float(got[0]), float(got[1])
        mean_o, var_o = a2 / b2, a2 / (b2 * b2)
        ok = (math.isfinite(mean_o) and math.isfinite(var_o) and a2 > 0 and b2 > 0
              and abs(mean_o - m1) <= RTOL * m1 and abs(var_o - var) <= RTOL * m2)
    except Exception:  # noqa: BLE001
        ok, mean_o, var_o = False, None, None
    noise = differencing_noise(ex, shape, rate, m1, m2)
    if noise > 0.1 * RTOL:  # the differencing noise alone may exceed a tenth of the tolerance
        clause, inp = KNOWN_GAMMA, dict(inp, differencing_noise=noise)
    rep.case(clause, bool(ok), key=key, input=inp, observed={"shape_rate": got, "mean": mean_o, "var": var_o},
             expected={"mean": float(m1), "var": float(var)})


# ---------------------------------------------------------------------------------- input generation
def gen_histories(tier, rng):
    thorough = tier == "thorough"
    hand = [
        ("int", 100, None), ("float", 1234.5, None), ("list1", [5000.0], []), ("array1", np.array([3.0]), None),
        ("alt", [1e6, 1e2, 1e6, 1e2, 1e6], [10.0, 20.0, 5000.0, 5001.0]),
        ("growth", [1e6, 1e5, 1e4, 1e3], [100.0, 1000.0, 10000.0]),
        ("contraction", [1e1, 1e3, 1e5, 1e7], [3.0, 30.0, 3000.0]),
        ("strong-contraction-back-in-time", [1e8, 1.0], [1e4]),
        ("strong-expansion-back-in-time", [1.0, 1e8], [1e2]),
        ("close-breaks", [10.0, 20.0, 30.0], [1.0, float(np.nextafter(1.0, 2.0))]),
        ("ints", [10, 20, 5], [100, 200]),
    ]
    for name, sizes, breaks in hand:
        yield name, sizes, breaks
    nrand = 3000 if thorough else 120
    max_epochs = 10 if thorough else 6
    for i in range(nrand):
        ne = int(rng.integers(1, max_epochs + 1))
        w = float(rng.choice([1, 2, 3, 3, 6, 9]))
        sizes = 10 ** rng.uniform(0, w, ne)
        breaks = np.unique(10 ** rng.uniform(0, 5, ne - 1))
        if breaks.size != ne - 1:
            continue
        if rng.random() < 0.3:  # "round" numbers, as a user would type them
            sizes = np.maximum(np.round(sizes), 1.0)
            breaks = np.unique(np.ceil(breaks))
            if breaks.size != ne - 1:
                continue
        yield f"rand{i}(w={w:g})", sizes, breaks


def as_arrays(sizes, breaks):
    s = np.atleast_1d(np.array(sizes, dtype=float))
    b = np.array([] if breaks is None else breaks, dtype=float)
    return s, b


def test_times(b, rng, nrand):
    ts = [0.0] + list(10 ** rng.uniform(-3, 7, nrand))
    for x in b:
        ts += [float(x), float(np.nextafter(x, np.inf)), float(np.nextafter(x, -np.inf))]
    edges = [0.0] + list(b)
    for lo, hi in zip(edges[:-1], edges[1:]):
        ts.append(0.5 * (lo + hi))
    return np.unique(np.array(ts, dtype=float))


# ---------------------------------------------------------------------------------- per-history checks
def check_history(rep, name, sizes, breaks, rng, nrand, stats):
    from tsdate.demography import PopulationSizeHistory

    s, b = as_arrays(sizes, breaks)
    desc = {"population_size": s, "time_breaks": b}
    ex = ExactHistory(s, b)
    t = test_times(b, rng, nrand)
    c_exact = [ex.I(x) for x in t]
    c_in = np.unique(np.array([float(x) for x in c_exact] + [float(x) for x in ex.c]
                              + [float(np.nextafter(float(x), np.inf)) for x in ex.c[1:]]
                              + [float(np.nextafter(float(x), -np.inf)) for x in ex.c[1:]]))
    # every call into tsdate for this history; an exception on a valid history is a contract failure
    try:
        h = PopulationSizeHistory(sizes) if breaks is None else PopulationSizeHistory(sizes, breaks)
        d = h.as_dict()
        h2 = PopulationSizeHistory(**d)
        c_obs = h.to_coalescent_timescale(t)
        back = h.to_natural_timescale(c_obs)
        zero_nat = float(h.to_natural_timescale(np.array([0.0]))[0])
        n_obs = h.to_natural_timescale(c_in)
        fwd_again = h.to_coalescent_timescale(n_obs)
    except Exception as e:  # noqa: BLE001
        rep.case("to-coalescent-equals-integral", False, key=name, input=desc,
                 observed=f"raised {type(e).__name__}: {e}", expected="time transforms")
        return None, ex

    # ---- as_dict
    same = all(np.array_equal(getattr(h, f), getattr(h2, f)) and getattr(h, f).dtype == getattr(h2, f).dtype
               for f in ("time_breaks", "population_size", "coalescent_breaks", "coalescent_rate"))
    args_back = (np.array_equal(np.array(d["population_size"], dtype=float), s)
                 and np.array_equal(np.array(d.get("time_breaks", []), dtype=float), b)
                 and set(d) <= {"population_size", "time_breaks"})
    rep.case("as-dict-rebuilds-identical-history", bool(same and args_back), key=name, input=desc, observed=d,
             expected={"population_size": s, "time_breaks": b}, nontrivial=len(s) > 1)

    # ---- forward map
    wide = ex.size_ratio > COND_MAX
    stats["wide"] += int(wide)
    known_nat = "known-to-natural-precision-loss-when-sizes-span-more-than-1e3"
    chi = [ex.chi(x) for x in t]
    rep.case("maps-fix-zero", float(c_obs[0]) == 0.0 and zero_nat == 0.0,
             key=name, input=desc, observed=[c_obs[0], zero_nat], expected=0.0, nontrivial=False)
    for j in range(1, len(t)):
        key = f"{name}:t{j}"
        inp = dict(desc, time=t[j])
        strict_fwd = rel_close(c_obs[j], c_exact[j])
        stats["fwd"] = max(stats["fwd"],
                           float(abs(Fraction(float(c_obs[j])) - c_exact[j]) / c_exact[j]) / max(chi[j], 1))
        if chi[j] <= COND_MAX:
            rep.case("to-coalescent-equals-integral", strict_fwd, key=key, input=inp, observed=c_obs[j],
                     expected=float(c_exact[j]))
        else:
            stats["illfwd"] += 1
            rep.case("known-to-coalescent-cancellation-after-strong-contraction", strict_fwd, key=key,
                     input=dict(inp, chi=chi[j]), observed=c_obs[j], expected=float(c_exact[j]))
        rep.case(known_nat if wide else "round-trip-recovers-input", rel_close(back[j], Fraction(float(t[j]))),
                 key=key, input=dict(inp, check="to_natural(to_coalescent(t)) == t"), observed=back[j], expected=t[j])

    # ---- inverse map on rounded exact coalescent times
    n_exact = [ex.Iinv(Fraction(float(x))) for x in c_in]
    for j in range(len(c_in)):
        if c_in[j] == 0:
            continue
        key = f"{name}:c{j}"
        inp = dict(desc, coalescent_time=c_in[j])
        rep.case(known_nat if wide else "to-natural-equals-inverse-integral", rel_close(n_obs[j], n_exact[j]),
                 key=key, input=dict(inp, check="to_natural(c) == I^-1(c)"), observed=n_obs[j],
                 expected=float(n_exact[j]))
        rep.case(known_nat if wide else "round-trip-recovers-input",
                 rel_close(fwd_again[j], Fraction(float(c_in[j]))), key=key,
                 input=dict(inp, check="to_coalescent(to_natural(c)) == c"), observed=fwd_again[j], expected=c_in[j])

    # ---- monotonicity: forward over the points with chi <= 1e3, inverse on histories within the size range
    use_t = [x <= COND_MAX for x in chi]
    use_c = [not wide] * len(c_in)
    for label, xs, ys, exact, use in (("to_coalescent", t, c_obs, c_exact, use_t),
                                      ("to_natural", c_in, n_obs, n_exact, use_c)):
        ok = True
        bad = None
        npairs = 0
        for j in range(1, len(xs)):
            if not (use[j] and use[j - 1]):
                continue
            npairs += 1
            gap = exact[j] - exact[j - 1]
            if gap > Fraction(RTOL) * exact[j]:
                good = ys[j] > ys[j - 1]
            else:  # closer than the tolerance (adjacent doubles): ordered up to the tolerance
                good = ys[j] - ys[j - 1] >= -RTOL * abs(ys[j])
            if not good:
                ok, bad = False, [xs[j - 1], xs[j], ys[j - 1], ys[j]]
                break
        if npairs:
            rep.case("maps-strictly-increasing", ok, key=f"{name}:{label}", input=dict(desc, map=label, points=xs),
                     observed=bad, expected="increasing", nontrivial=len(s) > 1)

    # ---- continuity at breakpoints
    for i in range(1, len(ex.b)):
        bb = float(ex.b[i])
        cc = float(ex.c[i])
        for label, x0, fn in (("to_coalescent", bb, h.to_coalescent_timescale),
                              ("to_natural", cc, h.to_natural_timescale)):
            pts = np.array([np.nextafter(x0, -np.inf), x0, np.nextafter(x0, np.inf)])
            if label == "to_coalescent":
                if max(ex.chi(Fraction(float(q))) for q in pts) > COND_MAX:
                    continue
            elif wide:
                continue
            vals = fn(pts)
            ok = all(abs(vals[q] - vals[1]) <= RTOL * abs(vals[1]) for q in (0, 2))
            rep.case("maps-continuous-at-breakpoints", bool(ok), key=f"{name}:{label}:b{i}",
                     input=dict(desc, map=label, points=pts), observed=vals, expected="equal to rel 1e-9")
    return h, ex


def gamma_cases(rep, rng, tier):
    from tsdate.demography import PopulationSizeHistory

    n = 1000 if tier == "thorough" else 70
    for i in range(n):
        ne = int(rng.integers(1, 6))
        sizes = 10 ** rng.uniform(1, 4, ne)
        breaks = np.unique(10 ** rng.uniform(0, 4, ne - 1))
        if breaks.size != ne - 1:
            continue
        ex = ExactHistory(sizes, breaks)
        shape = float(10 ** rng.uniform(-0.5, 1.7))
        if ne > 1:
            anchor = float(ex.c[int(rng.integers(1, ne))])
        else:
            anchor = float(10 ** rng.uniform(-2, 1))
        mean = anchor * 10 ** rng.uniform(-1.5, 1.0)
        rate = shape / mean
        inp = {"population_size": sizes, "time_breaks": breaks, "shape": shape, "rate": rate}
        key = f"gamma{i}"
        try:
            got = PopulationSizeHistory(sizes, breaks).gamma_to_natural(shape, rate)
        except Exception as e:  # noqa: BLE001
            rep.case("gamma-to-natural-matches-mapped-moments", False, key=key, input=inp,
                     observed=f"raised {type(e).__name__}: {e}", expected="gamma parameters")
            continue
        check_gamma(rep, "gamma-to-natural-matches-mapped-moments", key, inp, got, ex, shape, rate)
        if ne == 1:
            ok = (abs(got[0] - shape) <= RTOL * shape
                  and abs(got[1] - rate / (2 * sizes[0])) <= RTOL * rate / (2 * sizes[0]))
            rep.case("gamma-to-natural-constant-size-is-rescaled-gamma", bool(ok), key=key, input=inp, observed=got,
                     expected=[shape, rate / (2 * sizes[0])])
    # hand-built: a much larger epoch far in the upper tail of the gamma (tail mass e^-40)
    for j, (sizes, breaks, shape, rate) in enumerate([([10.0, 1e7], [800.0], 1.0, 1.0), ([10.0, 1e8], [800.0], 1.0, 1.0),
                                                      ([10.0, 1e4], [800.0], 1.0, 1.0), ([50.0, 1e6], [1500.0], 2.5, 3.0)]):
        inp = {"population_size": sizes, "time_breaks": breaks, "shape": shape, "rate": rate}
        try:
            got = PopulationSizeHistory(sizes, breaks).gamma_to_natural(shape, rate)
        except Exception as e:  # noqa: BLE001
            rep.case("gamma-to-natural-matches-mapped-moments", False, key=f"gamma-hand{j}", input=inp,
                     observed=f"raised {type(e).__name__}: {e}", expected="gamma parameters")
            continue
        check_gamma(rep, "gamma-to-natural-matches-mapped-moments", f"gamma-hand{j}", inp, got,
                    ExactHistory(sizes, breaks), shape, rate)
    # constant size, many magnitudes
    for i in range(40 if tier == "thorough" else 12):
        N = float(10 ** rng.uniform(0, 7))
        shape = float(10 ** rng.uniform(-0.5, 1.7))
        rate = float(10 ** rng.uniform(-2, 2))
        try:
            got = PopulationSizeHistory(N).gamma_to_natural(shape, rate)
        except Exception as e:  # noqa: BLE001
            got = [math.nan, math.nan, f"raised {type(e).__name__}: {e}"]
        ok = abs(got[0] - shape) <= RTOL * shape and abs(got[1] - rate / (2 * N)) <= RTOL * rate / (2 * N)
        rep.case("gamma-to-natural-constant-size-is-rescaled-gamma", bool(ok), key=f"const{i}",
                 input={"population_size": N, "shape": shape, "rate": rate}, observed=got,
                 expected=[shape, rate / (2 * N)])


def grid_cases(rep, rng, tier):
    import tsdate
    from tsdate import prior
    from tsdate.demography import PopulationSizeHistory

    nts = 40 if tier == "thorough" else 6
    for i in range(nts):
        n = int(rng.integers(3, 7))
        ts = msprime.sim_ancestry(n, ploidy=1, sequence_length=50, recombination_rate=0.01, population_size=10,
                                  random_seed=int(rng.integers(1, 2**31)))
        tsj = bounded_api.ts_to_json(ts)
        base = prior.MixturePrior(ts, prior_distribution="gamma").prior_params
        for which in range(2):
            if which == 0:
                sizes, breaks = np.array([float(10 ** rng.uniform(1, 4))]), np.array([])
                pop = float(sizes[0])
            else:
                ne = int(rng.integers(2, 5))
                sizes = 10 ** rng.uniform(1, 4, ne)
                breaks = np.unique(10 ** rng.uniform(0, 3.5, ne - 1))
                if breaks.size != ne - 1:
                    continue
                pop = PopulationSizeHistory(sizes, breaks)
            ex = ExactHistory(sizes, breaks)
            name = f"grid{i}.{which}"
            inp0 = {"ts": tsj, "population_size": sizes, "time_breaks": breaks}
            try:
                grid = tsdate.build_parameter_grid(ts, population_size=pop)
            except Exception as e:  # noqa: BLE001
                rep.case("parameter-grid-rows-are-mapped-gammas", False, key=name, input=inp0,
                         observed=f"raised {type(e).__name__}: {e}", expected="parameter grid")
                continue
            nonsample = [u for u in range(ts.num_nodes) if not ts.node(u).is_sample()]
            ok = sorted(int(x) for x in grid.nonfixed_nodes) == nonsample and grid.grid_data.shape == (len(nonsample), 2)
            rep.case("parameter-grid-rows-are-mapped-gammas", bool(ok), key=name, input=inp0,
                     observed=sorted(int(x) for x in grid.nonfixed_nodes), expected=nonsample, nontrivial=False)
            for u in nonsample:
                shape, rate = float(base[u, 0]), float(base[u, 1])
                check_gamma(rep, "parameter-grid-rows-are-mapped-gammas", f"{name}:u{u}", dict(inp0, node=u),
                            np.array(grid[u]), ex, shape, rate)


def run(req, rep):
    tier, seed = req["tier"], req["seed"]
    rng = np.random.default_rng(seed)
    thorough = tier == "thorough"
    rep.space = ("piecewise-constant histories (hand-built + random, sizes over up to 9 orders of magnitude) x time "
                 "vectors incl. breakpoints and their neighbouring doubles; gamma (shape, rate) x histories; "
                 "build_parameter_grid on small simulated inputs")
    rep.bound = (f"{3000 if thorough else 120} random histories with <= {10 if thorough else 6} epochs, "
                 f"{30 if thorough else 12} random times each; {1000 if thorough else 70} gamma triples; "
                 f"{40 if thorough else 6} tree sequences x 2 histories")
    rep.exhaustive = False
    stats = {"fwd": 0.0, "illfwd": 0, "wide": 0}
    nh = 0
    for name, sizes, breaks in gen_histories(tier, rng):
        check_history(rep, name, sizes, breaks, rng, 30 if thorough else 12, stats)
        nh += 1
    rep.notes.append(f"{nh} histories ({stats['wide']} with max/min size > 1e3); max forward error / max(chi,1) = "
                     f"{stats['fwd']:.2e}; {stats['illfwd']} forward evaluations at chi > 1e3")
    gamma_cases(rep, rng, tier)
    grid_cases(rep, rng, tier)


if __name__ == "__main__":
    bounded_api.main(run)
