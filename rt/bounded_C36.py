"""
Bounded stand-in for C36 -- the precomputed prior cache is crash-safe and exact.

Statement: "When approximate priors are used, the table read back from the on-disk cache is identical to a freshly
computed one.  Whatever point a process writing the cache crashes at, and even when two processes write it
concurrently, later runs either use a complete, correct table or recompute it.  They never silently use a truncated
or interleaved file."

Everything runs on the REAL tsdate.prior.ConditionalCoalescentTimes (constructor = cache lookup + validation +
recomputation + write) in a PRIVATE temporary cache directory: tsdate.cache.get_cache_dir and appdirs.user_cache_dir
are replaced for the duration of the run, the user's real cache is never read or written.

Fault model (A-FS, the assumed file-system contract of DESIGN section 3): a file is written by sequential appends,
so a writer that dies after k bytes leaves the first k bytes; os.replace/os.rename are atomic; a killed process runs
no clean-up code.  File-system operations of the real code are intercepted (tempfile.mkstemp, numpy.savetxt,
numpy.loadtxt/genfromtxt, os.replace/rename/remove, os.path.isfile/exists on paths inside the private directory)
only to inject a crash or a scheduling point; the operations themselves are carried out unchanged (savetxt: the
text produced by the real numpy.savetxt is written to the real target in pieces).
"Correct table" = bitwise equal (np.array_equal on float64 + same shape) to the table the real code computes in
memory when there is no cache (that is what the statement compares with).

Contract clauses
  readback-identical-to-fresh        for each n: first construction (cache absent -> computed, written) and second
                                     construction (read from disk) give bitwise identical approx_priors; the file
                                     is a complete (n,2) table.  End-to-end: tsdate.build_prior_grid(...,
                                     approximate_priors=True, approx_prior_size=n) gives the identical grid with the
                                     cache absent, present, and truncated.
  writer-crash-at-every-byte         the real writer is crashed after every byte offset k = 0..size of its data
                                     write, and before / after its rename, with the final path initially absent,
                                     holding garbage, or holding a complete table.  Both crash kinds: "exception"
                                     (clean-up handlers run) and "kill" (directory restored to the snapshot taken at
                                     the crash instant, so no clean-up ran).  Then (a) the final path is absent or
                                     holds a complete correct table -- never a partial one; (b) a later run gets the
                                     correct table; (c) after that run the final path holds the complete table and a
                                     second later run (which reads it) is correct too.
  truncated-final-file-not-used      defence in depth on the reader: the complete cache file is cut at every byte
                                     offset (as a non-atomic writer or a partial copy would leave it); a later run
                                     must end with the correct table (recompute) and repair the file.  Offsets strictly
                                     inside the LAST number of the file are evaluated in the known- clause below,
                                     every other offset here.
  corrupted-final-file-not-used      same for interleaved / damaged content: two writers' halves concatenated, a line
                                     duplicated or dropped, a table for another n, NaN/inf entries, empty file,
                                     binary junk, one digit changed is NOT included (undetectable without a checksum
                                     and not a truncation or an interleaving).
  two-writers-and-reader-interleaved 2 or 3 concurrent "processes" (greenlets -- OS threads if greenlet is missing --
                                     running the real constructor under a
                                     deterministic scheduler that switches only at the intercepted whole-file
                                     operations; the data write is split in two pieces) for every schedule: every
                                     process ends with the correct table, no process raises, the final path holds
                                     the complete table at the end, no partial file is ever visible under the final
                                     name at any scheduling point, and no temporary file is left behind.
  hook-attached                      bookkeeping (nontrivial=False): the crash / scheduling hooks actually fired
                                     (otherwise the real code no longer writes through the intercepted operations
                                     and the clauses above would be vacuous).
  known-reader-accepts-file-truncated-inside-last-number
                                     DEFECT FOUND WHILE WRITING THIS CHECK (unrepaired): a file under the final name
                                     that is cut strictly inside its last number (e.g. "...1.533333333333333215e-01"
                                     cut to "...1.53") still parses as a finite (n,2) table, passes
                                     read_precalculated_priors' validation and is silently used with a wrong last
                                     variance (21 of the last 24 byte offsets for every n).  Not reachable through a
                                     crash of the current (atomic) writer -- hence its own clause -- but reachable
                                     from a cache left by the pre-fix writer of the same version string or a partial
                                     copy.  The clause holds iff the later run ends with the correct table.

Input space / bound
  quick   : readback n = 2..40, 64, 100, 250 (+ 3 end-to-end grids); crash enumeration n in {2, 3, 6}: every byte
            offset x 3 initial states x 2 crash kinds; truncation n in {2, 3, 6, 9}: every byte offset; 14 corrupted
            variants x 2 n; schedules: ALL interleavings of two processes (5 scheduling points each when the final
            path is absent: 252 sequences; 6 each when it holds garbage: 924; 2 each when complete: 6), plus 150
            seeded random schedules of three processes.
  thorough: readback n = 2..300, 500, 1000, 2000; crash n in {2..8, 12, 20}; truncation n in {2..12, 20, 40};
            schedules: additionally ALL 3150 interleavings of two writers (4 points each, data write as one
            operation) with a third process given 2 scheduled points, 3000 seeded random interleavings of three
            full writers at that granularity (all 34650 were run once while building: no failure) and 6000 random
            fine-grained three-process schedules.
  exhaustive = True for the byte offsets and for the two-process schedules at the stated granularity (given n);
            random schedules are sampled.
Tolerances: none (bitwise comparisons).
NOT covered: durability across power loss / fsync, real OS scheduling and real separate processes (coroutines under a
  scheduler stand in for them), network file systems where rename is not atomic, single-bit corruption, caches of
  other tsdate versions (the version is part of the file name).
"""
import os
import pathlib
import shutil
import tempfile
import threading
import time
import warnings

import numpy as np

from rt import bounded_api, inputs


class SimulatedCrash(BaseException):
    """The process dies here (BaseException so that `except Exception` cannot swallow it)."""


# ------------------------------------------------------------------ interception of file-system operations
class FS:
    """Patches the whole-file operations used for the cache.  mode: None | ("crash", spec) | ("sched", Sched)."""

    def __init__(self, root):
        self.root = os.path.realpath(str(root))
        self.mode = None
        self.fired = {"savetxt": 0, "replace": 0, "mkstemp": 0, "read": 0}
        self.snapshot = None
        import numpy
        self.np = numpy
        self.orig = {
            "savetxt": numpy.savetxt, "loadtxt": numpy.loadtxt, "genfromtxt": numpy.genfromtxt,
            "replace": os.replace, "rename": os.rename, "remove": os.remove, "unlink": os.unlink,
            "isfile": os.path.isfile, "exists": os.path.exists, "mkstemp": tempfile.mkstemp,
        }
        self.sched = None
        self.crash = None  # dict(kind="bytes"|"before-replace"|"after-replace", k=int)

    # ---- helpers
    def inside(self, p):
        try:
            if isinstance(p, int):
                p = os.readlink(f"/proc/self/fd/{p}")
            return os.path.realpath(os.fspath(p)).startswith(self.root + os.sep)
        except (TypeError, OSError, ValueError):
            return False

    def target_path(self, f):
        if isinstance(f, (str, bytes, os.PathLike)):
            return os.fspath(f)
        name = getattr(f, "name", None)
        if isinstance(name, int):
            try:
                return os.readlink(f"/proc/self/fd/{name}")
            except OSError:
                return None
        return name

    def listing(self):
        out = {}
        for fn in sorted(os.listdir(self.root)):
            with open(os.path.join(self.root, fn), "rb") as f:
                out[fn] = f.read()
        return out

    def restore(self, snap):
        for fn in os.listdir(self.root):
            self.orig["remove"](os.path.join(self.root, fn))
        for fn, data in snap.items():
            with open(os.path.join(self.root, fn), "wb") as f:
                f.write(data)

    def point(self, op, path):
        """A scheduling point before a whole-file operation."""
        if self.sched is not None:
            self.sched.sync(op, os.path.basename(str(path)))

    # ---- patched operations
    def install(self):
        fs = self
        o = self.orig

        def savetxt(fname, X, *a, **kw):
            path = fs.target_path(fname)
            if path is None or not fs.inside(path) or (fs.sched is None and fs.crash is None):
                return o["savetxt"](fname, X, *a, **kw)
            fs.fired["savetxt"] += 1
            import io
            buf = io.StringIO()
            o["savetxt"](buf, X, *a, **kw)
            text = buf.getvalue()
            own = isinstance(fname, (str, bytes, os.PathLike))
            if own:
                fs.point("open-for-write", path)
                f = open(path, "w")  # truncates, exactly like numpy.savetxt(filename)
            else:
                f = fname
            try:
                if fs.crash is not None and fs.crash["kind"] == "bytes":
                    k = fs.crash["k"]
                    f.write(text[:k])
                    f.flush()
                    if k < len(text) or fs.crash.get("at_end"):
                        fs.snapshot = fs.listing()
                        raise SimulatedCrash(f"after {k} bytes")
                    return None
                pieces = fs.sched.pieces if fs.sched is not None else 1
                cuts = [len(text) * i // pieces for i in range(pieces + 1)]
                if pieces > 1:
                    cuts[1:-1] = [c + 7 if c + 7 < len(text) else c for c in cuts[1:-1]]  # inside a number
                for i in range(pieces):
                    fs.point(f"write-piece-{i + 1}/{pieces}", path)
                    f.write(text[cuts[i]:cuts[i + 1]])
                    f.flush()
            finally:
                if own:
                    f.close()
            return None

        def reader(name):
            def read(fname, *a, **kw):
                path = fs.target_path(fname)
                if path is not None and fs.inside(path):
                    fs.fired["read"] += 1
                    fs.point("read", path)
                return o[name](fname, *a, **kw)
            return read

        def replace(src, dst, *a, **kw):
            if fs.inside(dst):
                fs.fired["replace"] += 1
                if fs.crash is not None and fs.crash["kind"] == "before-replace":
                    fs.snapshot = fs.listing()
                    raise SimulatedCrash("before rename")
                fs.point("rename-into-place", dst)
                r = o["replace"](src, dst, *a, **kw)
                if fs.crash is not None and fs.crash["kind"] == "after-replace":
                    fs.snapshot = fs.listing()
                    raise SimulatedCrash("after rename")
                return r
            return o["replace"](src, dst, *a, **kw)

        def rename(src, dst, *a, **kw):
            if fs.inside(dst):
                return replace(src, dst, *a, **kw)
            return o["rename"](src, dst, *a, **kw)

        def remove(p, *a, **kw):
            if fs.inside(p):
                fs.point("remove", p)
            return o["remove"](p, *a, **kw)

        def isfile(p):
            if fs.inside(p):
                fs.point("isfile", p)
            return o["isfile"](p)

        def exists(p):
            if fs.inside(p):
                fs.point("exists", p)
            return o["exists"](p)

        def mkstemp(*a, **kw):
            d = kw.get("dir", a[2] if len(a) > 2 else None)
            if d is not None and (fs.inside(os.path.join(str(d), "x"))):
                fs.fired["mkstemp"] += 1
                fs.point("create-temp", "tmp")
            return o["mkstemp"](*a, **kw)

        np_ = self.np
        np_.savetxt, np_.loadtxt, np_.genfromtxt = savetxt, reader("loadtxt"), reader("genfromtxt")
        os.replace, os.rename, os.remove, os.unlink = replace, rename, remove, remove
        os.path.isfile, os.path.exists = isfile, exists
        tempfile.mkstemp = mkstemp

    def uninstall(self):
        o = self.orig
        np_ = self.np
        np_.savetxt, np_.loadtxt, np_.genfromtxt = o["savetxt"], o["loadtxt"], o["genfromtxt"]
        os.replace, os.rename, os.remove, os.unlink = o["replace"], o["rename"], o["remove"], o["unlink"]
        os.path.isfile, os.path.exists = o["isfile"], o["exists"]
        tempfile.mkstemp = o["mkstemp"]


# ------------------------------------------------------------------ deterministic scheduler for "processes"
class ThreadSched:
    """Runs worker threads one at a time; a switch happens only at FS.point().  `schedule` is a sequence of process
    ids: at every decision the next id in the sequence that is waiting at a point is released (finished ones are
    skipped); when the sequence is used up the remaining processes run to completion in id order."""

    def __init__(self, schedule, pieces, observe):
        self.schedule = list(schedule)
        self.pieces = pieces
        self.cond = threading.Condition()
        self.state = {}
        self.granted = None
        self.ids = {}
        self.trace = []
        self.observe = observe  # called at every decision (checks the final path is never partial)

    def registered(self):
        return threading.get_ident() in self.ids

    def sync(self, op, what):
        me = self.ids.get(threading.get_ident())
        if me is None:
            return
        with self.cond:
            self.state[me] = ("waiting", op, what)
            self.cond.notify_all()
            while self.granted != me:
                self.cond.wait()
            self.granted = None
            self.state[me] = ("running",)
            if op != "start":
                self.trace.append(f"P{me}:{op}")

    def run(self, workers):
        """workers: list of callables; returns list of (result | exception)."""
        results = [None] * len(workers)
        threads = []

        def body(i):
            self.ids[threading.get_ident()] = i
            try:
                self.sync("start", "")
                results[i] = ("ok", workers[i]())
            except BaseException as e:  # noqa: BLE001 - the exception is the observation
                results[i] = ("raised", f"{type(e).__name__}: {e}")
            finally:
                with self.cond:
                    self.state[i] = ("done",)
                    self.cond.notify_all()

        for i in range(len(workers)):
            self.state[i] = ("running",)
        for i in range(len(workers)):
            t = threading.Thread(target=body, args=(i,), daemon=True)
            threads.append(t)
            t.start()
        pos = 0
        with self.cond:
            while True:
                # wait until nobody is running
                while any(s[0] == "running" for s in self.state.values()):
                    if not self.cond.wait(timeout=60):
                        raise RuntimeError(f"scheduler stuck: {self.state} {self.trace}")
                waiting = [i for i, s in sorted(self.state.items()) if s[0] == "waiting"]
                if not waiting:
                    break
                starts = [i for i in waiting if self.state[i][1] == "start"]
                if starts:
                    # "start" is not a file operation: released without consuming a schedule entry
                    self.state[starts[0]] = ("running",)
                    self.granted = starts[0]
                    self.cond.notify_all()
                    continue
                self.observe(self.trace)
                nxt = None
                while pos < len(self.schedule):
                    c = self.schedule[pos]
                    pos += 1
                    if c in waiting:
                        nxt = c
                        break
                if nxt is None:
                    nxt = waiting[0]
                self.state[nxt] = ("running",)
                self.granted = nxt
                self.cond.notify_all()
        for t in threads:
            t.join(timeout=60)
        return results


class GreenletSched:
    """Same scheduling discipline with greenlets instead of OS threads (no dependence on OS thread wake-up latency;
    fully deterministic).  Each process runs until its next FS.point() and then hands control back."""

    def __init__(self, schedule, pieces, observe):
        self.schedule = list(schedule)
        self.pieces = pieces
        self.observe = observe
        self.trace = []
        self.ids = {}
        self.pending = {}
        self.main = None

    def registered(self):
        return greenlet.getcurrent() in self.ids

    def sync(self, op, what):
        me = self.ids.get(greenlet.getcurrent())
        if me is None:
            return
        self.pending[me] = op
        self.main.switch()          # back to the scheduler; returns here when this process is released
        self.trace.append(f"P{me}:{op}")

    def run(self, workers):
        self.main = greenlet.getcurrent()
        results = [None] * len(workers)

        def make(i):
            def body():
                try:
                    results[i] = ("ok", workers[i]())
                except BaseException as e:  # noqa: BLE001 - the exception is the observation
                    if isinstance(e, greenlet.GreenletExit):
                        raise
                    results[i] = ("raised", f"{type(e).__name__}: {e}")
            return body

        gs = []
        for i in range(len(workers)):
            g = greenlet.greenlet(make(i), parent=self.main)
            self.ids[g] = i
            gs.append(g)
        for g in gs:
            g.switch()              # run up to the first file operation (nothing shared is touched before it)
        pos = 0
        while True:
            waiting = [i for i, g in enumerate(gs) if not g.dead]
            if not waiting:
                break
            self.observe(self.trace)
            nxt = None
            while pos < len(self.schedule):
                c = self.schedule[pos]
                pos += 1
                if c in waiting:
                    nxt = c
                    break
            if nxt is None:
                nxt = waiting[0]
            gs[nxt].switch()
        return results


try:
    import greenlet
    Sched = GreenletSched
except ImportError:  # pragma: no cover - /venv has greenlet; OS threads are the fall-back
    greenlet = None
    Sched = ThreadSched


def multiset_permutations(counts):
    """All distinct sequences with counts[i] copies of i."""
    total = sum(counts)

    def rec(prefix, left):
        if len(prefix) == total:
            yield tuple(prefix)
            return
        for i, c in enumerate(left):
            if c:
                left[i] -= 1
                prefix.append(i)
                yield from rec(prefix, left)
                prefix.pop()
                left[i] += 1

    yield from rec([], list(counts))


# ------------------------------------------------------------------ the check
def run(req, rep):
    tier, seed = req["tier"], req["seed"]
    quick = tier == "quick"
    import appdirs
    import tsdate
    import tsdate.cache
    from tsdate import prior

    rng = np.random.default_rng(seed)
    root = tempfile.mkdtemp(prefix="bounded_C36_cache_")
    orig_get_cache_dir, orig_user_cache_dir = tsdate.cache.get_cache_dir, appdirs.user_cache_dir
    tsdate.cache.get_cache_dir = lambda: pathlib.Path(root)
    appdirs.user_cache_dir = lambda *a, **kw: root
    fs = FS(root)
    CCT = prior.ConditionalCoalescentTimes

    def later_run(n):
        """A later run of the real constructor.  An exception is an observation (a later run must not fail because
        of what an earlier writer left behind), returned as a string so that every comparison with it is False."""
        with warnings.catch_warnings():
            warnings.simplefilter("ignore")
            try:
                return CCT(n).approx_priors
            except Exception as e:  # noqa: BLE001
                return f"raised {type(e).__name__}: {e}"[:200]

    def grid(ts, **kw):
        with warnings.catch_warnings():
            warnings.simplefilter("ignore")
            try:
                return tsdate.build_prior_grid(ts, **kw).grid_data.copy()
            except Exception as e:  # noqa: BLE001
                return f"raised {type(e).__name__}: {e}"[:200]

    def describe(t):
        return t if isinstance(t, str) else "table"

    def clear():
        for fn in os.listdir(root):
            fs.orig["remove"](os.path.join(root, fn))

    def same(a, b):
        return isinstance(a, np.ndarray) and a.shape == b.shape and a.dtype == b.dtype and np.array_equal(a, b)

    def final_state(n, full):
        """absent | complete | partial (anything else) for the final path."""
        p = CCT.get_precalc_cache(n)
        if not fs.orig["isfile"](p):
            return "absent"
        with open(p, "rb") as f:
            data = f.read()
        return "complete" if data == full else f"partial({len(data)} bytes)"

    try:
        assert os.path.realpath(os.path.dirname(CCT.get_precalc_cache(5))) == os.path.realpath(root), \
            "cache directory was not redirected"
        t_sec = [time.time()]
        # ================= clause 1: read-back identical to fresh
        ns = list(range(2, 41)) + [64, 100, 250] if quick else list(range(2, 301)) + [500, 1000, 2000]
        fresh_tables, full_text = {}, {}
        for n in ns:
            clear()
            a = later_run(n)                    # cache absent: computed in memory, written
            p = CCT.get_precalc_cache(n)
            present = fs.orig["isfile"](p)
            b = later_run(n)                    # read from disk
            if not isinstance(a, np.ndarray) or not present:
                raise RuntimeError(f"cannot establish the fresh table / cache file for n={n}: {describe(a)}")
            with open(p, "rb") as f:
                full_text[n] = f.read()
            fresh_tables[n] = a
            shape_ok = a.shape == (n, 2)
            rep.case("readback-identical-to-fresh", present and shape_ok and same(b, a), key=f"n={n}",
                     input={"n": n}, observed={"file_written": present, "shape": list(a.shape),
                                               "second_run": describe(b),
                                               "max_abs_diff": float(np.max(np.abs(b - a)))
                                               if isinstance(b, np.ndarray) and b.shape == a.shape else None,
                                               "other_files": [x for x in os.listdir(root) if x != os.path.basename(p)][:3]},
                     expected="bitwise identical (n,2) table")
        # end to end through build_prior_grid
        for j, n in enumerate((12, 20, 33) if quick else (12, 20, 33, 50, 80)):
            ts = inputs.sim(seed * 100 + j, n=4 + j % 3, L=200, rec=1e-4, mu=5e-4)
            kw = dict(population_size=100, approximate_priors=True, approx_prior_size=n)
            clear()
            g0 = grid(ts, **kw)
            g1 = grid(ts, **kw)
            p = CCT.get_precalc_cache(n)
            data = b""
            if fs.orig["isfile"](p):
                with open(p, "rb") as f:
                    data = f.read()
            with open(p, "wb") as f:
                f.write(data[:len(data) // 2 + 3])
            g2 = grid(ts, **kw)
            rep.case("readback-identical-to-fresh", isinstance(g0, np.ndarray) and same(g1, g0) and same(g2, g0),
                     key=f"grid n={n}",
                     input={"build_prior_grid": {"approx_prior_size": n, "sim_seed": seed * 100 + j}},
                     observed={"cached_equal": same(g1, g0), "truncated_cache_equal": same(g2, g0),
                               "results": [describe(g0), describe(g1), describe(g2)]},
                     expected="identical prior grids with the cache absent / present / truncated")

        t_sec.append(time.time())
        fs.install()
        # ================= clause 2: crash of the real writer at every byte
        crash_ns = (2, 3, 6) if quick else (2, 3, 4, 5, 6, 7, 8, 12, 20)
        garbage = b"0.0 0.0\n6.6e-01 7.\x00\x00"
        for n in crash_ns:
            full, fresh = full_text[n], fresh_tables[n]
            size = len(full)
            points = [("bytes", k) for k in range(size + 1)] + [("before-replace", size), ("after-replace", size)]
            for init in ("absent", "garbage", "complete"):
                for kind, k in points:
                    clear()
                    p = CCT.get_precalc_cache(n)
                    if init == "garbage":
                        with open(p, "wb") as f:
                            f.write(garbage)
                    elif init == "complete":
                        with open(p, "wb") as f:
                            f.write(full)
                    fs.crash = {"kind": kind, "k": k}
                    fs.snapshot = None
                    crashed = False
                    try:
                        obj = CCT.__new__(CCT)
                        with warnings.catch_warnings():
                            warnings.simplefilter("ignore")
                            CCT.precalculate_priors_for_approximation(obj, n)
                    except SimulatedCrash:
                        crashed = True
                    finally:
                        fs.crash = None
                    if kind == "bytes" and k == size:
                        crashed = True  # whole data written, no crash injected: the writer completed normally
                        fs.snapshot = fs.listing()
                    if not crashed or fs.snapshot is None:
                        rep.case("hook-attached", False, key=f"crash n={n} {init} {kind} {k}",
                                 input={"n": n, "crash": [kind, k]}, observed="no crash could be injected",
                                 expected="the writer goes through numpy.savetxt / os.replace", nontrivial=False)
                        continue
                    after_cleanup = fs.listing()
                    for crash_kind, state in (("exception", after_cleanup), ("kill", fs.snapshot)):
                        fs.restore(state)
                        st0 = final_state(n, full)
                        allowed0 = ("absent", "complete") if init != "garbage" else ("absent", "complete",
                                                                                     f"partial({len(garbage)} bytes)")
                        t1 = later_run(n)
                        st1 = final_state(n, full)
                        t2 = later_run(n)
                        ok = st0 in allowed0 and same(t1, fresh) and st1 == "complete" and same(t2, fresh)
                        rep.case("writer-crash-at-every-byte", ok,
                                 key=f"n={n}|init={init}|{kind}@{k}|{crash_kind}",
                                 input={"n": n, "initial_final_path": init, "crash_point": kind, "bytes_written": k,
                                        "crash_kind": crash_kind, "files_at_crash": {a: len(b) for a, b in state.items()}},
                                 observed={"final_path_after_crash": st0, "later_run_correct": same(t1, fresh),
                                           "final_path_after_later_run": st1, "second_later_run_correct": same(t2, fresh)},
                                 expected="final path absent/complete (or the untouched initial garbage); later runs "
                                          "bitwise correct; file repaired")
        rep.case("hook-attached", fs.fired["savetxt"] > 0 and fs.fired["replace"] > 0, key="crash-hooks",
                 input=None, observed=dict(fs.fired), expected="savetxt and rename hooks fired", nontrivial=False)

        t_sec.append(time.time())
        # ================= clause 3: truncated final file at every offset
        known_cuts = {}
        trunc_ns = (2, 3, 6, 9) if quick else tuple(range(2, 13)) + (20, 40)
        for n in trunc_ns:
            full, fresh = full_text[n], fresh_tables[n]
            body = full.rstrip(b"\n")
            last_tok_start = max(body.rfind(b" "), body.rfind(b"\n")) + 1
            last_tok_end = len(body)
            for k in range(len(full)):
                clear()
                p = CCT.get_precalc_cache(n)
                with open(p, "wb") as f:
                    f.write(full[:k])
                t1 = later_run(n)
                st1 = final_state(n, full)
                inside_last = last_tok_start < k < last_tok_end
                complete_but_newline = k >= last_tok_end
                ok = same(t1, fresh) and (st1 == "complete" or complete_but_newline)
                if inside_last:
                    known_cuts.setdefault(n, {"offsets": 0, "wrong": [], "example": None})
                    known_cuts[n]["offsets"] += 1
                    if not ok:
                        known_cuts[n]["wrong"].append(k)
                        if known_cuts[n]["example"] is None:
                            known_cuts[n]["example"] = {
                                "cut_at_byte": k, "last_line_after_cut": full[:k].split(b"\n")[-1].decode("ascii"),
                                "last_row_used": t1[-1].tolist() if isinstance(t1, np.ndarray) and t1.ndim == 2 and len(t1)
                                else describe(t1), "correct_last_row": fresh[-1].tolist()}
                    continue
                rep.case("truncated-final-file-not-used", ok, key=f"n={n}|cut={k}",
                         input={"n": n, "cut_at_byte": k, "file_size": len(full),
                                "last_line_after_cut": full[:k].split(b"\n")[-1].decode("ascii", "replace")},
                         observed={"later_run_correct": same(t1, fresh), "final_path": st1, "later_run": describe(t1),
                                   "last_row_used": t1[-1].tolist() if isinstance(t1, np.ndarray) and t1.ndim == 2 and len(t1) else None},
                         expected={"last_row": fresh[-1].tolist()})

        for n, d in sorted(known_cuts.items()):
            # one aggregated case per n, so that this known defect cannot crowd the failure list
            rep.case("known-reader-accepts-file-truncated-inside-last-number", not d["wrong"], key=f"n={n}",
                     input={"n": n, "file_size": len(full_text[n]), "cut_offsets_inside_last_number": d["offsets"],
                            "example": d["example"]},
                     observed={"offsets_where_a_wrong_table_was_silently_used": d["wrong"]},
                     expected="recomputed (correct table) at every offset")
        t_sec.append(time.time())
        # ================= clause 4: corrupted / interleaved content
        for n in ((6, 9) if quick else (3, 6, 9, 15, 30)):
            full, fresh = full_text[n], fresh_tables[n]
            lines = full.split(b"\n")[:-1]
            h = len(full) // 2 + 5
            other = full_text[n + 1]
            variants = {
                "empty": b"",
                "two-writers-first-half-twice": full[:h] + full[:h],
                "two-writers-halves-swapped": full[h:] + full[:h],
                "second-writer-restarted-mid-file": full[:h] + full,
                "whole-file-twice": full + full,
                "line-dropped": b"\n".join(lines[:1] + lines[2:]) + b"\n",
                "line-duplicated": b"\n".join(lines[:2] + lines[1:]) + b"\n",
                "table-for-n+1": other,
                "table-for-n+1-truncated-to-n-lines-plus-partial": b"\n".join(other.split(b"\n")[:n]) + b"\n0.9",
                "nan-entry": full.replace(lines[-1].split(b" ")[1], b"nan"),
                "inf-entry": full.replace(lines[-1].split(b" ")[1], b"inf"),
                "nul-bytes-tail": full[:h] + b"\x00" * (len(full) - h),
                "binary-junk": bytes(rng.integers(0, 256, size=len(full), dtype=np.uint8).tolist()),
                "three-columns": b"\n".join(ln + b" 1.0e+00" for ln in lines) + b"\n",
                "one-column": b"\n".join(ln.split(b" ")[0] for ln in lines) + b"\n",
            }
            for vname, data in variants.items():
                clear()
                p = CCT.get_precalc_cache(n)
                with open(p, "wb") as f:
                    f.write(data)
                t1 = later_run(n)
                st1 = final_state(n, full)
                t2 = later_run(n)
                rep.case("corrupted-final-file-not-used", same(t1, fresh) and st1 == "complete" and same(t2, fresh),
                         key=f"n={n}|{vname}", input={"n": n, "variant": vname, "bytes": len(data)},
                         observed={"later_run_correct": same(t1, fresh), "final_path": st1,
                                   "second_later_run_correct": same(t2, fresh)},
                         expected="recomputed, file repaired")

        t_sec.append(time.time())
        # ================= clause 5: interleavings of concurrent processes
        n_sched = [0]
        traces = set()

        def run_schedule(n, nproc, schedule, pieces, init, label):
            full, fresh = full_text[n], fresh_tables[n]
            clear()
            p = CCT.get_precalc_cache(n)
            if init == "garbage":
                with open(p, "wb") as f:
                    f.write(garbage)
            elif init == "complete":
                with open(p, "wb") as f:
                    f.write(full)
            partial_seen = []

            def observe(trace):
                st = final_state(n, full)
                if st not in ("absent", "complete") and not (init == "garbage" and st == f"partial({len(garbage)} bytes)"):
                    partial_seen.append((len(trace), st))

            sched = Sched(schedule, pieces, observe)
            fs.sched = sched
            try:
                with warnings.catch_warnings():
                    warnings.simplefilter("ignore")
                    res = sched.run([lambda: CCT(n).approx_priors for _ in range(nproc)])
            finally:
                fs.sched = None
            n_sched[0] += 1
            st_end = final_state(n, full)
            leftovers = [x for x in os.listdir(root) if x != os.path.basename(p)]
            all_ok = all(r is not None and r[0] == "ok" and same(r[1], fresh) for r in res)
            t_later = later_run(n)
            ok = all_ok and st_end == "complete" and not partial_seen and not leftovers and same(t_later, fresh)
            tr = tuple(sched.trace)
            traces.add((n, init, tr))
            rep.case("two-writers-and-reader-interleaved", ok, key=f"n={n}|{init}|{'/'.join(tr)}",
                     input={"n": n, "processes": nproc, "initial_final_path": init, "schedule": list(schedule),
                            "write_pieces": pieces, "kind": label},
                     observed={"process_results": [("correct" if (r and r[0] == "ok" and same(r[1], fresh)) else
                                                    ("WRONG TABLE" if r and r[0] == "ok" else (r[1] if r else "no result")))
                                                   for r in res],
                               "final_path_at_end": st_end, "partial_final_path_seen_at": partial_seen[:3],
                               "leftover_files": leftovers[:3], "later_run_correct": same(t_later, fresh),
                               "trace": list(tr)},
                     expected="every process correct, final path complete, never partial, no leftovers")

        n = 4
        # two processes, data write in two pieces.  Points per process: isfile [+ read when a file is there] +
        # create-temp + 2 pieces + rename = 5 (absent) / 6 (garbage) / 2 (complete: isfile + read)
        for init, npts in (("absent", 5), ("garbage", 6), ("complete", 2)):
            for sch in multiset_permutations([npts, npts]):
                run_schedule(n, 2, sch, 2, init, "exhaustive-2-processes")
        n_random = 150 if quick else 6000
        for r in range(n_random):
            init = ("absent", "garbage", "complete")[r % 3]
            sch = rng.permutation(np.repeat(np.arange(3), 6)).tolist()
            run_schedule(3 + r % 4, 3, sch, 2, init, "random-3-processes")
        if not quick:
            # two writers (isfile, create-temp, write, rename = 4 points each, data write as ONE operation) and a
            # third process that gets 2 scheduled points (isfile + read, or isfile + create-temp when it finds
            # nothing; whatever it still has to do then runs after the schedule): all 3150 interleavings
            for sch in multiset_permutations([4, 4, 2]):
                run_schedule(n, 3, sch, 1, "absent", "exhaustive-2-writers-1-reader-coarse")
            # three full writers, coarse: 3000 of the 34650 interleavings, seeded (all 34650 were run once while
            # building this check, without a failure; they take ~9 minutes)
            for r in range(3000):
                sch = rng.permutation(np.repeat(np.arange(3), 4)).tolist()
                run_schedule(n, 3, sch, 1, "absent", "random-3-writers-coarse")
        rep.case("hook-attached", fs.fired["mkstemp"] + fs.fired["savetxt"] > 0 and fs.fired["read"] > 0,
                 key="sched-hooks", input=None, observed=dict(fs.fired), expected="scheduling points fired",
                 nontrivial=False)
        rep.space = ("cache files of ConditionalCoalescentTimes(n) in a private directory: crash of the real writer after "
                     "every byte / around the rename x initial state x crash kind; the complete file cut at every byte; "
                     "corrupted variants; schedules of 2-3 concurrent constructors at whole-file-operation granularity")
        rep.bound = (f"readback n in {ns[0]}..{ns[-1]} ({len(ns)} values); crash n in {list(crash_ns)}; truncation n in "
                     f"{list(trunc_ns)}; {n_sched[0]} schedules executed ({len(traces)} distinct traces)")
        rep.exhaustive = True
        t_sec.append(time.time())
        rep.notes.append("seconds per section (readback, crash, truncation, corruption, schedules): "
                         + str([round(b - a, 1) for a, b in zip(t_sec, t_sec[1:])]))
        rep.notes.append("exhaustive for byte offsets and two-process schedules at the stated granularity; "
                         "three-process fine-grained schedules are sampled")
    finally:
        fs.uninstall()
        tsdate.cache.get_cache_dir, appdirs.user_cache_dir = orig_get_cache_dir, orig_user_cache_dir
        shutil.rmtree(root, ignore_errors=True)


if __name__ == "__main__":
    bounded_api.main(run)
