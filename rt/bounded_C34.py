"""
Bounded stand-in for C34 -- the command-line interface is faithful to the Python API.

Statement: "For every combination of supported options, `tsdate date` and `tsdate preprocess` write exactly the tree
sequence that the corresponding Python call with the same option values produces, apart from provenance timing
details.  Every option the parser accepts reaches the API with the value given, including switching boolean options
off.  Invalid option combinations exit with an error and write no output."

How the CLI is exercised: the REAL tsdate.cli.tsdate_main(argv) is called in-process on .trees files in a private
temporary directory (SystemExit / escaping exceptions are the observation of "exit with an error"); a few argv per
run also go through a real `python -m tsdate` subprocess so that the exit STATUS itself is observed.

Oracle (written from the statement and the option help texts; shares no code with tsdate.cli): a table
  option flag(s) -> API keyword, value type, methods it applies to
    -m/--mutation-rate -> mutation_rate (float)          -r/--recombination-rate -> recombination_rate (float)
    -e/--epsilon -> eps (float, discrete-time methods)   -b/--min-branch-length -> min_branch_length (float)
    --method -> method                                   -p/--progress -> progress (flag)
    --rescaling-intervals -> rescaling_intervals (int, variational_gamma)
    --max-iterations -> max_iterations (int, variational_gamma)
    -n/--population_size -> population_size (float, discrete)   -t/--num-threads -> num_threads (int, discrete)
    --probability-space -> probability_space (str, discrete)    -v (consumed by the CLI: must not change the output)
    preprocess: --minimum_gap -> minimum_gap (float), --erase-flanks/--trim_telomeres -> erase_flanks (bool token),
                --split-disjoint -> split_disjoint (bool token)
  bool tokens: true/t/yes/y/1/on -> True, false/f/no/n/0/off -> False in any letter case.
  The "corresponding Python call" is tsdate.date(ts, **kw) / tsdate.preprocess_ts(ts, **kw) on the tree sequence
  loaded from the same file with kw = the option values given on the command line.

Contract clauses
  date-output-equals-api            the written file equals the API result: all tables except provenance bit-identical
                                    (TableCollection.equals(ignore_provenance=True): node times, metadata, mutation
                                    times, time_units ...), same number of provenance rows, earlier rows identical,
                                    and the new row's record identical after removing "resources" (timing) --
                                    the row timestamp is the other timing detail
  preprocess-output-equals-api      same for `tsdate preprocess`
  date-option-reaches-api           spy on tsdate.date as called by the CLI: for every option GIVEN on the command
                                    line the keyword is present with exactly the value given (type and value); for
                                    every applicable option NOT given the keyword is absent, None or the documented
                                    default; the tree sequence passed has the input file's tables
  preprocess-option-reaches-api     same for tsdate.preprocess_ts, every boolean token incl. the off values,
                                    both spellings --erase-flanks / --trim_telomeres
  invalid-exits-with-error-no-output  invalid combinations (options of the other method family, positional
                                    population size, unknown method / probability space, unparsable numbers and
                                    boolean tokens, discrete method without -n, recombination rate, non-positive
                                    rate / min branch length / iterations, missing mutation rate, unreadable input,
                                    input without sites) end in SystemExit with a non-zero status or message, or in
                                    an escaping exception (a non-zero exit status in a real process), and the
                                    output path does not exist afterwards
  subprocess-exit-status            real `python -m tsdate ...` processes: status 0 and output present for a valid
                                    argv (and the file equals the in-process result modulo timing), status != 0 and
                                    no output for an invalid one
  known-epsilon-ignored-for-variational-gamma
                                    KNOWN DEFECT (DESIGN 6-F5, unrepaired): `-e X` with the variational_gamma method
                                    is neither forwarded (the API call date(..., eps=X) raises ValueError) nor
                                    rejected: the CLI exits 0 and writes an output.  The clause holds iff the CLI
                                    rejects the option or forwards it; it is kept apart so that the generic clauses
                                    stay strict (they are evaluated on these argv with -e removed from the
                                    expectation, i.e. the rest of the options must still arrive).

Input space / bound
  quick   : date: 2 small msprime inputs (4-5 samples, <= ~25 nodes, 200 bp) x 44 option combinations
            (all methods, every option in short and long spelling, every option at >= 2 values, 12 random
            mixtures; num_threads only at 1) ;
            preprocess: 2 inputs with flanks and gaps x 40 option combinations (3 minimum_gap values x every
            boolean token for both boolean options x both spellings); 32 invalid argv; 2 subprocess runs.
  thorough: date: 4 inputs x the full product, per method, of the option values
            (variational_gamma: m(2) x b(2) x p(2) x rescaling-intervals(3) x max-iterations(3) x v(2) = 144;
             discrete (x2 methods): m(2) x e(2) x b(2) x n(2) x t(2) x probability-space(3) x p(2) = 192 each,
             plus 4 combinations with -t 2 (real process pool) on the first input, 4 with -e on variational_gamma
             and 60 random mixtures);
            preprocess: 4 inputs x minimum_gap(4) x erase-flanks(13 tokens incl. absent) x split-disjoint(13) sampled
            to the full 13 x 13 grid for one gap value and the diagonal for the others; 32 invalid argv x 2 inputs;
            6 subprocess runs.
  exhaustive = False (option NAMES are complete for both sub-commands; option VALUES are small finite sets).
Tolerances: none.  CLI and API run the same deterministic code on the same input in the same process, so tables are
  compared bit-for-bit.
NOT covered: -V/--version and help output, log text at -v/-vv, very large inputs, tsdate installed entry point
  script (python -m tsdate is used), concurrency of two CLI processes writing the same output path.
"""
import contextlib
import io
import itertools
import json
import os
import shutil
import subprocess
import sys
import tempfile
import time
import warnings

import numpy as np
import tskit

from rt import bounded_api, inputs

TRUE_TOKENS = ["True", "true", "T", "yes", "1", "on"]
FALSE_TOKENS = ["False", "false", "F", "no", "0", "off"]

# oracle option table for `date`: keyword -> (short flag, long flag, converter, methods)
VG, DISC = ("variational_gamma",), ("inside_outside", "maximization")
ALLM = VG + DISC
DATE_OPTS = {
    "mutation_rate": ("-m", "--mutation-rate", float, ALLM),
    "recombination_rate": ("-r", "--recombination-rate", float, ALLM),
    "eps": ("-e", "--epsilon", float, DISC),
    "min_branch_length": ("-b", "--min-branch-length", float, ALLM),
    "rescaling_intervals": (None, "--rescaling-intervals", int, VG),
    "max_iterations": (None, "--max-iterations", int, VG),
    "population_size": ("-n", "--population_size", float, DISC),
    "num_threads": ("-t", "--num-threads", int, DISC),
    "probability_space": (None, "--probability-space", str, DISC),
}
# documented defaults (help texts): what an option that is NOT given may arrive as
DATE_DEFAULTS = {"eps": (None, 1e-8), "min_branch_length": (None, 1e-8), "progress": (None, False),
                 "method": (None, "variational_gamma")}


class Combo:
    """One `date` command line: method (None = not given), {keyword: string token}, progress flag, verbosity."""

    def __init__(self, method, opts, progress=False, verbosity=0, long=False):
        self.method, self.opts, self.progress, self.verbosity, self.long = method, dict(opts), progress, verbosity, long
        self.first_input_only = False

    @property
    def eff_method(self):
        return self.method or "variational_gamma"

    def argv(self, inp, out):
        a = ["date"]
        # options before and after the positionals, alternating, to exercise the parser
        pre, post = [], []
        k = 0
        if self.method is not None:
            pre += ["--method", self.method]
        for kw, tok in self.opts.items():
            short, long_, _, _ = DATE_OPTS[kw]
            flag = long_ if (self.long or short is None) else short
            (pre if k % 2 == 0 else post).extend([flag, tok])
            k += 1
        if self.progress:
            post.append("--progress" if self.long else "-p")
        if self.verbosity:
            pre.append("-" + "v" * self.verbosity)
        return a + pre + [inp, out] + post

    def api_kwargs(self, drop_eps_for_vg=True):
        kw = {}
        for k, tok in self.opts.items():
            kw[k] = DATE_OPTS[k][2](tok)
        kw["method"] = self.eff_method
        kw["progress"] = self.progress
        return kw

    def key(self):
        return f"date|{self.method}|{sorted(self.opts.items())}|p={self.progress}|v={self.verbosity}|long={self.long}"


def date_combos(tier, rng):
    C = []
    if tier == "quick":
        m = "5e-4"
        # variational_gamma, every option at several values, short/long spellings
        for meth in (None, "variational_gamma"):
            C.append(Combo(meth, {"mutation_rate": m}))
            C.append(Combo(meth, {"mutation_rate": "0.001", "min_branch_length": "0.5"}, long=True))
            C.append(Combo(meth, {"mutation_rate": m, "max_iterations": "1"}))
            C.append(Combo(meth, {"mutation_rate": m, "max_iterations": "3", "rescaling_intervals": "0"}))
            C.append(Combo(meth, {"mutation_rate": m, "rescaling_intervals": "2"}, progress=True))
            C.append(Combo(meth, {"mutation_rate": m, "rescaling_intervals": "3", "min_branch_length": "2"},
                           verbosity=1))
            C.append(Combo(meth, {"mutation_rate": m, "max_iterations": "2", "min_branch_length": "1e-3"},
                           progress=True, verbosity=2, long=True))
        for meth in DISC:
            C.append(Combo(meth, {"mutation_rate": m, "population_size": "100"}))
            C.append(Combo(meth, {"mutation_rate": "0.001", "population_size": "37.5"}, long=True))
            C.append(Combo(meth, {"mutation_rate": m, "population_size": "100", "eps": "1e-3"}))
            C.append(Combo(meth, {"mutation_rate": m, "population_size": "100", "eps": "1e-6",
                                  "probability_space": "linear"}, long=True))
            C.append(Combo(meth, {"mutation_rate": m, "population_size": "100", "probability_space": "logarithmic",
                                  "min_branch_length": "0.5"}))
            C.append(Combo(meth, {"mutation_rate": m, "population_size": "250", "num_threads": "1"}, progress=True))
            C.append(Combo(meth, {"mutation_rate": m, "population_size": "100", "min_branch_length": "3",
                                  "eps": "0.01", "probability_space": "linear", "num_threads": "1"}, verbosity=1,
                           long=True))
            C.append(Combo(meth, {"mutation_rate": m, "population_size": "100", "min_branch_length": "1e-2"},
                           progress=True, verbosity=2))
        # (-t 2 starts a process pool, ~5 s per run under NUMBA_DISABLE_JIT: thorough tier only)
        # -e given with variational_gamma (known defect clause) mixed with other options
        C.append(Combo(None, {"mutation_rate": m, "eps": "1e-3"}))
        C.append(Combo("variational_gamma", {"mutation_rate": m, "eps": "0.5", "max_iterations": "2"}, long=True))
        # random pairwise mixtures
        for _ in range(12):
            C.append(random_combo(rng))
        return C
    vals = {"mutation_rate": ["5e-4", "0.001"], "min_branch_length": [None, "0.5"], "progress": [False, True],
            "rescaling_intervals": [None, "0", "3"], "max_iterations": [None, "1", "3"], "verbosity": [0, 1]}
    for mr, b, p, ri, mi, v in itertools.product(*vals.values()):
        o = {"mutation_rate": mr, "min_branch_length": b, "rescaling_intervals": ri, "max_iterations": mi}
        C.append(Combo(None if v else "variational_gamma", {k: x for k, x in o.items() if x is not None}, progress=p,
                       verbosity=v, long=bool(v)))
    dvals = {"mutation_rate": ["5e-4", "0.001"], "eps": [None, "1e-3"], "min_branch_length": [None, "0.5"],
             "population_size": ["100", "37.5"], "num_threads": [None, "1"],
             "probability_space": [None, "linear", "logarithmic"], "progress": [False, True]}
    for meth in DISC:
        for mr, e, b, n, t, ps, p in itertools.product(*dvals.values()):
            o = {"mutation_rate": mr, "eps": e, "min_branch_length": b, "population_size": n, "num_threads": t,
                 "probability_space": ps}
            C.append(Combo(meth, {k: x for k, x in o.items() if x is not None}, progress=p, long=(ps == "linear")))
    # -t 2 starts a real process pool (~5 s per run): 4 combinations, first input only
    for meth, ps in itertools.product(DISC, (None, "linear")):
        o = {"mutation_rate": "5e-4", "population_size": "100", "num_threads": "2", "probability_space": ps}
        c = Combo(meth, {k: x for k, x in o.items() if x is not None})
        c.first_input_only = True
        C.append(c)
    for e in ("1e-3", "0.5"):
        C.append(Combo(None, {"mutation_rate": "5e-4", "eps": e}))
        C.append(Combo("variational_gamma", {"mutation_rate": "5e-4", "eps": e, "max_iterations": "2"}, long=True))
    for _ in range(60):
        C.append(random_combo(rng))
    return C


def random_combo(rng):
    meth = [None, "variational_gamma", "inside_outside", "maximization"][int(rng.integers(4))]
    eff = meth or "variational_gamma"
    pool = {"mutation_rate": ["5e-4", "1e-3", "0.002"], "min_branch_length": ["1e-8", "0.1", "1", "5"],
            "eps": ["1e-8", "1e-4", "0.1"], "rescaling_intervals": ["0", "1", "2", "4"],
            "max_iterations": ["1", "2", "4"], "population_size": ["50", "100", "1e3"], "num_threads": ["1"],
            "probability_space": ["linear", "logarithmic"]}
    o = {"mutation_rate": pool["mutation_rate"][int(rng.integers(3))]}
    if eff in DISC:
        o["population_size"] = pool["population_size"][int(rng.integers(3))]
    for k, v in pool.items():
        if k in o or eff not in DATE_OPTS[k][3]:
            continue
        if rng.random() < 0.5:
            o[k] = v[int(rng.integers(len(v)))]
    return Combo(meth, o, progress=bool(rng.integers(2)), verbosity=int(rng.integers(3)), long=bool(rng.integers(2)))


# ------------------------------------------------------------------ helpers
def call_cli(cli, argv):
    """Run the real CLI in-process.  Returns ("ok"|"exit"|"exception", detail)."""
    err = io.StringIO()
    old_argv = sys.argv
    sys.argv = ["tsdate"] + list(argv)
    try:
        with contextlib.redirect_stderr(err), contextlib.redirect_stdout(io.StringIO()), warnings.catch_warnings():
            warnings.simplefilter("ignore")
            cli.tsdate_main(list(argv))
        return "ok", ""
    except SystemExit as e:
        if e.code in (0, None):
            return "ok", "SystemExit(0)"
        return "exit", str(e.code)[:200]
    except Exception as e:
        return "exception", f"{type(e).__name__}: {e}"[:200]
    finally:
        sys.argv = old_argv


def quiet(f, *a, **kw):
    with contextlib.redirect_stderr(io.StringIO()), contextlib.redirect_stdout(io.StringIO()), \
            warnings.catch_warnings():
        warnings.simplefilter("ignore")
        return f(*a, **kw)


def same_modulo_timing(a, b):
    """a, b: tree sequences.  Returns "" when equal apart from provenance timing details, else a reason."""
    if not a.tables.equals(b.tables, ignore_provenance=True):
        for name in ("nodes", "edges", "sites", "mutations", "individuals", "populations", "migrations"):
            if not getattr(a.tables, name).equals(getattr(b.tables, name)):
                return f"table {name} differs"
        return "tables differ (time_units / metadata schema / sequence length / reference)"
    if a.num_provenances != b.num_provenances:
        return f"provenance rows {a.num_provenances} vs {b.num_provenances}"
    for i in range(a.num_provenances - 1):
        if (a.provenance(i).record, a.provenance(i).timestamp) != (b.provenance(i).record, b.provenance(i).timestamp):
            return f"earlier provenance row {i} differs"
    if a.num_provenances:
        ra = json.loads(a.provenance(a.num_provenances - 1).record)
        rb = json.loads(b.provenance(b.num_provenances - 1).record)
        ra.pop("resources", None)
        rb.pop("resources", None)
        # an option NOT given on the command line may reach the API as None or as its documented default (the parser
        # supplies 1e-8 for -b where the API's own default is None -> 1e-8): the same option value, recorded differently
        pa, pb = ra.get("parameters"), rb.get("parameters")
        if isinstance(pa, dict) and isinstance(pb, dict):
            for k, alts in DATE_DEFAULTS.items():
                if k in pa and k in pb and pa[k] in alts and pb[k] in alts:
                    pa[k] = pb[k] = alts[1]
        if ra != rb:
            diff = {k: (ra.get(k), rb.get(k)) for k in set(ra) | set(rb) if ra.get(k) != rb.get(k)}
            return f"provenance record differs: {json.dumps(diff, default=str)[:300]}"
    return ""


def exact(a, b):
    """same value AND same kind (bool is not int, 3 is not '3'); int/float compare by value."""
    if isinstance(a, bool) or isinstance(b, bool) or isinstance(a, str) or isinstance(b, str) or a is None or b is None:
        return type(a) is type(b) and a == b
    return a == b


def date_inputs(seed, tier):
    k = 2 if tier == "quick" else 4
    out = []
    i = 0
    while len(out) < k:
        ts = inputs.sim(seed * 1000 + 50 + i, n=4 + len(out) % 2, L=200, rec=(0 if len(out) % 2 else 2e-4), mu=5e-4, ne=100)
        i += 1
        if ts.num_mutations >= 5:
            out.append((f"sim(seed={seed * 1000 + 50 + i - 1},n={ts.num_samples},L=200)", ts))
    return out


def preprocess_inputs(seed, tier):
    """Inputs where all three options matter: flanks without sites, site gaps of different widths, nodes that
    span a gap (they become disjoint once the gap is deleted)."""
    k = 2 if tier == "quick" else 4
    out = []
    i = 0
    while len(out) < k:
        base = inputs.sim(seed * 1000 + 90 + i, n=4 + len(out) % 2, L=1000, rec=2e-4, mu=0, ne=100)
        i += 1
        tables = base.dump_tables()
        rng = np.random.default_rng(seed * 1000 + i)
        # sites in three clusters: 100..160, 400..430, 700..820 -> flanks of 100 / 180 and gaps of ~240 / ~270
        pos = sorted(set(np.concatenate([rng.integers(100, 160, 4), rng.integers(400, 430, 3),
                                         rng.integers(700, 820, 4)]).tolist()))
        for p in pos:
            s = tables.sites.add_row(position=float(p), ancestral_state="A")
            tree = base.at(float(p))
            nodes = [u for u in tree.nodes() if tree.parent(u) != tskit.NULL]
            tables.mutations.add_row(site=s, node=int(nodes[int(rng.integers(len(nodes)))]), derived_state="T")
        tables.sort()
        tables.build_index()
        tables.compute_mutation_parents()
        out.append((f"gapsim(seed={seed * 1000 + 90 + i - 1},n={base.num_samples},L=1000,sites={pos})",
                    tables.tree_sequence()))
    return out


def preprocess_combos(tier):
    """(argv tail, expected kwargs given, key)"""
    C = []
    toks = [(t, True) for t in TRUE_TOKENS] + [(t, False) for t in FALSE_TOKENS]
    gaps = ["50", "250", "1e6"] if tier == "quick" else ["50", "250", "260.5", "1e6"]

    def add(gap, ef, sd, alias=False, v=0):
        tail, given = [], {}
        if gap is not None:
            tail += ["--minimum_gap", gap]
            given["minimum_gap"] = float(gap)
        if ef is not None:
            tail += ["--trim_telomeres" if alias else "--erase-flanks", ef[0]]
            given["erase_flanks"] = ef[1]
        if sd is not None:
            tail += ["--split-disjoint", sd[0]]
            given["split_disjoint"] = sd[1]
        if v:
            tail.append("-" + "v" * v)
        C.append((tail, given, f"preprocess|gap={gap}|ef={ef}|sd={sd}|alias={alias}|v={v}"))

    add(None, None, None)
    for g in gaps:
        add(g, None, None)
    # every boolean token for each boolean option, other option absent / opposite
    for j, t in enumerate(toks):
        add(gaps[j % len(gaps)], t, None, alias=(j % 2 == 1))
        add(gaps[(j + 1) % len(gaps)], None, t)
        add("250", t, toks[(j + 6) % 12], v=j % 3)
    if tier != "quick":
        for a in [None] + toks:
            for b in [None] + toks:
                add("250", a, b)
        for g in gaps:
            for a in toks:
                add(g, a, a, alias=True)
    seen, out = set(), []
    for tail, given, key in C:
        if key not in seen:
            seen.add(key)
            out.append((tail, given, key))
    return out


def invalid_argvs(inp, out, nosites, junk):
    m = ["-m", "5e-4"]
    return [
        ("vg+population_size", ["date", inp, out] + m + ["-n", "100"]),
        ("vg+num_threads", ["date", inp, out] + m + ["-t", "1"]),
        ("vg+probability_space", ["date", inp, out] + m + ["--probability-space", "linear"]),
        ("vg-explicit+population_size", ["date", "--method", "variational_gamma", inp, out] + m + ["-n", "100"]),
        ("io+rescaling_intervals", ["date", inp, out, "--method", "inside_outside", "-n", "100"] + m +
         ["--rescaling-intervals", "3"]),
        ("mx+max_iterations", ["date", inp, out, "--method", "maximization", "-n", "100"] + m +
         ["--max-iterations", "3"]),
        ("io+max_iterations", ["date", inp, out, "--method", "inside_outside", "-n", "100"] + m +
         ["--max-iterations", "3"]),
        ("positional-population-size", ["date", inp, out, "100"] + m),
        ("positional-population-size-discrete", ["date", inp, out, "100", "--method", "inside_outside"] + m),
        ("unknown-method", ["date", inp, out, "--method", "bogus"] + m),
        ("unparsable-mutation-rate", ["date", inp, out, "-m", "fast"]),
        ("unparsable-max-iterations", ["date", inp, out] + m + ["--max-iterations", "2.5"]),
        ("io-without-population-size", ["date", inp, out, "--method", "inside_outside"] + m),
        ("mx-without-population-size", ["date", inp, out, "--method", "maximization"] + m),
        ("recombination-rate", ["date", inp, out] + m + ["-r", "1e-8"]),
        ("vg-without-mutation-rate", ["date", inp, out]),
        ("mx-without-mutation-rate", ["date", inp, out, "--method", "maximization", "-n", "100"]),
        ("zero-mutation-rate", ["date", inp, out, "-m", "0"]),
        ("negative-mutation-rate-discrete", ["date", inp, out, "--mutation-rate", "-1e-4", "--method",
                                             "inside_outside", "-n", "100"]),
        ("zero-min-branch-length", ["date", inp, out] + m + ["-b", "0"]),
        ("negative-min-branch-length", ["date", inp, out, "--method", "maximization", "-n", "100"] + m +
         ["--min-branch-length", "-1"]),
        ("zero-max-iterations", ["date", inp, out] + m + ["--max-iterations", "0"]),
        ("unknown-probability-space", ["date", inp, out, "--method", "inside_outside", "-n", "100"] + m +
         ["--probability-space", "cubic"]),
        ("input-not-a-tree-sequence", ["date", junk, out] + m),
        ("unknown-option", ["date", inp, out] + m + ["--no-such-option", "1"]),
        ("missing-output-argument", ["date", inp] + m),
        ("preprocess-bad-boolean", ["preprocess", inp, out, "--erase-flanks", "maybe"]),
        ("preprocess-bad-boolean-split", ["preprocess", inp, out, "--split-disjoint", "2"]),
        ("preprocess-unparsable-gap", ["preprocess", inp, out, "--minimum_gap", "wide"]),
        ("preprocess-no-sites", ["preprocess", nosites, out]),
        ("preprocess-input-not-a-tree-sequence", ["preprocess", junk, out]),
        ("no-subcommand", [inp, out]),
    ]


def run(req, rep):
    tier, seed = req["tier"], req["seed"]
    import tsdate
    from tsdate import cli

    rng = np.random.default_rng(seed)
    tmp = tempfile.mkdtemp(prefix="bounded_C34_")
    real_date, real_pre = tsdate.date, tsdate.preprocess_ts
    procs = []
    try:
        dins = date_inputs(seed, tier)
        pins = preprocess_inputs(seed, tier)
        paths = {}
        for name, ts in dins + pins:
            paths[name] = os.path.join(tmp, f"in{len(paths)}.trees")
            ts.dump(paths[name])
        nosites = os.path.join(tmp, "nosites.trees")
        inputs.sim(seed + 3, n=3, L=100, rec=0, mu=0).dump(nosites)
        junk = os.path.join(tmp, "junk.trees")
        with open(junk, "w") as f:
            f.write("this is not a tree sequence file\n")
        outc = [0]

        def new_out():
            outc[0] += 1
            return os.path.join(tmp, f"out{outc[0]}.trees")

        # ---- subprocess runs are started first and collected at the end
        env = dict(os.environ)
        sub_specs = []
        first = dins[0][0]
        sub_valid = [["date", paths[first], None, "-m", "5e-4", "--max-iterations", "2", "-b", "0.5"],
                     ["preprocess", paths[pins[0][0]], None, "--minimum_gap", "250", "--erase-flanks", "False",
                      "--split-disjoint", "no"],
                     ["date", paths[first], None, "-m", "5e-4", "--method", "maximization", "-n", "100", "-e", "1e-3"]]
        sub_invalid = [["date", paths[first], None, "-m", "5e-4", "-n", "100"],
                       ["date", paths[first], None, "-m", "5e-4", "--method", "inside_outside"],
                       ["preprocess", paths[first], None, "--erase-flanks", "maybe"]]
        nsub = 1 if tier == "quick" else 3
        for valid, lst in ((True, sub_valid[:nsub]), (False, sub_invalid[:nsub])):
            for a in lst:
                o = new_out()
                argv = [o if x is None else x for x in a]
                p = subprocess.Popen([sys.executable, "-W", "ignore", "-m", "tsdate"] + argv, env=env,
                                     stdout=subprocess.DEVNULL, stderr=subprocess.DEVNULL)
                procs.append(p)
                sub_specs.append((valid, argv, o, p))

        t_sec = [time.time()]
        # ---- date: output equality + spy
        combos = date_combos(tier, rng)
        n_date = 0
        for iname, ts in dins:
            ts_file = tskit.load(paths[iname])
            for c in combos:
                if c.first_input_only and iname != dins[0][0]:
                    continue
                out = new_out()
                argv = c.argv(paths[iname], out)
                seen = {}

                def spy(tree_sequence, **kw):
                    seen["ts"], seen["kw"] = tree_sequence, dict(kw)
                    return real_date(tree_sequence, **kw)

                tsdate.date = spy
                try:
                    status, detail = call_cli(cli, argv)
                finally:
                    tsdate.date = real_date
                n_date += 1
                key = f"{iname}|{c.key()}"
                desc = {"input": iname, "argv": argv[:1] + [os.path.basename(a) if a.startswith(tmp) else a
                                                            for a in argv[1:]], "seed": seed}
                kw = c.api_kwargs()
                eps_on_vg = "eps" in kw and c.eff_method in VG
                api_err = None
                if eps_on_vg:
                    # known-defect clause: CLI must reject the option or forward it
                    try:
                        api_full = quiet(real_date, ts_file, **kw)
                    except (ValueError, NotImplementedError) as e:
                        api_full, api_err = None, f"{type(e).__name__}: {e}"[:160]
                    cli_wrote = os.path.exists(out)
                    forwarded = "kw" in seen and "eps" in seen["kw"] and exact(seen["kw"]["eps"], kw["eps"])
                    ok = (status != "ok" and not cli_wrote) or forwarded
                    rep.case("known-epsilon-ignored-for-variational-gamma", ok, key=key, input=desc,
                             observed={"cli_status": status, "cli_wrote_output": cli_wrote,
                                       "eps_forwarded": forwarded, "api_with_eps": api_err or "accepted"},
                             expected="CLI rejects -e for variational_gamma or forwards it as eps")
                    kw.pop("eps")  # the generic clauses are still evaluated on the remaining options
                # (a) output equality
                try:
                    api_out = quiet(real_date, ts_file, **kw)
                    api_res = "ok"
                except (ValueError, NotImplementedError) as e:
                    api_out, api_res = None, f"{type(e).__name__}: {e}"[:160]
                if api_out is not None:
                    if status == "ok" and os.path.exists(out):
                        why = same_modulo_timing(tskit.load(out), api_out)
                    else:
                        why = f"CLI {status}: {detail}; output exists={os.path.exists(out)}"
                    rep.case("date-output-equals-api", why == "", key=key, input=desc, observed=why or "identical",
                             expected="identical apart from provenance timing")
                else:
                    # the API rejects this (valid-looking) combination: the CLI must then fail without output
                    ok = status != "ok" and not os.path.exists(out)
                    rep.case("invalid-exits-with-error-no-output", ok, key=key, input=desc,
                             observed={"cli_status": status, "detail": detail, "output_exists": os.path.exists(out)},
                             expected=f"error and no output (API: {api_res})")
                # (b) spy: options reach the API
                if "kw" in seen:
                    bad = {}
                    for k, v in kw.items():
                        if k not in seen["kw"] or not exact(seen["kw"][k], v):
                            bad[k] = {"given": v, "arrived": seen["kw"].get(k, "<absent>")}
                    for k, (_, _, _, meths) in DATE_OPTS.items():
                        if k in kw or c.eff_method not in meths or (eps_on_vg and k == "eps"):
                            continue
                        allowed = DATE_DEFAULTS.get(k, (None,))
                        if k in seen["kw"] and not any(exact(seen["kw"][k], a) for a in allowed):
                            bad[k] = {"given": "<not given>", "arrived": seen["kw"][k]}
                    if not seen["ts"].tables.equals(ts_file.tables):
                        bad["tree_sequence"] = "not the input file's tables"
                    rep.case("date-option-reaches-api", not bad, key=key, input=desc, observed=bad or "all arrived",
                             expected={k: v for k, v in kw.items()})
                elif api_out is not None:
                    rep.case("date-option-reaches-api", False, key=key, input=desc,
                             observed=f"tsdate.date was not called: {status} {detail}", expected=kw)
                if os.path.exists(out):
                    os.remove(out)

        t_sec.append(time.time())
        # ---- preprocess: output equality + spy
        pcombos = preprocess_combos(tier)
        n_pre = 0
        distinct_outputs = set()
        for iname, ts in pins:
            ts_file = tskit.load(paths[iname])
            for tail, given, ckey in pcombos:
                out = new_out()
                argv = ["preprocess", paths[iname], out] + tail
                if len(tail) % 4 == 2:  # some command lines with the options before the positionals
                    argv = ["preprocess"] + tail + [paths[iname], out]
                seen = {}

                def spy(tree_sequence, **kw):
                    seen["ts"], seen["kw"] = tree_sequence, dict(kw)
                    return real_pre(tree_sequence, **kw)

                tsdate.preprocess_ts = spy
                try:
                    status, detail = call_cli(cli, argv)
                finally:
                    tsdate.preprocess_ts = real_pre
                n_pre += 1
                key = f"{iname}|{ckey}"
                desc = {"input": iname, "argv": ["preprocess", "in.trees", "out.trees"] + tail, "seed": seed}
                api_out = quiet(real_pre, ts_file, **given)
                if status == "ok" and os.path.exists(out):
                    cli_out = tskit.load(out)
                    why = same_modulo_timing(cli_out, api_out)
                    distinct_outputs.add((iname, cli_out.num_nodes, cli_out.num_edges, cli_out.num_trees,
                                          float(cli_out.edges_right.max() - cli_out.edges_left.min())))
                else:
                    why = f"CLI {status}: {detail}; output exists={os.path.exists(out)}"
                rep.case("preprocess-output-equals-api", why == "", key=key, input=desc, observed=why or "identical",
                         expected="identical apart from provenance timing")
                if "kw" in seen:
                    bad = {k: {"given": v, "arrived": seen["kw"].get(k, "<absent>")} for k, v in given.items()
                           if k not in seen["kw"] or not exact(seen["kw"][k], v)}
                    defaults = {"minimum_gap": (None, 1000000), "erase_flanks": (None, True),
                                "split_disjoint": (None, True)}
                    for k, allowed in defaults.items():
                        if k not in given and k in seen["kw"] and not any(exact(seen["kw"][k], a) for a in allowed):
                            bad[k] = {"given": "<not given>", "arrived": seen["kw"][k]}
                    if not seen["ts"].tables.equals(ts_file.tables):
                        bad["tree_sequence"] = "not the input file's tables"
                    rep.case("preprocess-option-reaches-api", not bad, key=key, input=desc,
                             observed=bad or "all arrived", expected=given)
                else:
                    rep.case("preprocess-option-reaches-api", False, key=key, input=desc,
                             observed=f"tsdate.preprocess_ts was not called: {status} {detail}", expected=given)
                if os.path.exists(out):
                    os.remove(out)

        t_sec.append(time.time())
        # ---- invalid combinations
        n_inv = 0
        for iname, ts in (dins[:1] if tier == "quick" else dins[:2]):
            for label, argv in invalid_argvs(paths[iname], "OUT", nosites, junk):
                out = new_out()
                argv = [out if a == "OUT" else a for a in argv]
                status, detail = call_cli(cli, argv)
                n_inv += 1
                exists = os.path.exists(out)
                rep.case("invalid-exits-with-error-no-output", status != "ok" and not exists, key=f"{iname}|{label}",
                         input={"input": iname, "label": label,
                                "argv": [os.path.basename(a) if a.startswith(tmp) else a for a in argv]},
                         observed={"status": status, "detail": detail, "output_exists": exists},
                         expected="non-zero exit (SystemExit / exception) and no output file")
                if exists:
                    os.remove(out)

        t_sec.append(time.time())
        # ---- collect subprocesses
        for valid, argv, o, p in sub_specs:
            try:
                rc = p.wait(timeout=600)
            except subprocess.TimeoutExpired:
                p.kill()
                rc = "timeout"
            exists = os.path.exists(o)
            short = [os.path.basename(a) if a.startswith(tmp) else a for a in argv]
            if valid:
                why = ""
                if rc != 0 or not exists:
                    why = f"exit status {rc}, output exists={exists}"
                else:
                    o2 = new_out()
                    argv2 = [o2 if a == o else a for a in argv]
                    st, det = call_cli(cli, argv2)
                    why = same_modulo_timing(tskit.load(o), tskit.load(o2)) if st == "ok" else f"in-process {st} {det}"
                rep.case("subprocess-exit-status", why == "", key=f"sub|{short}", input={"argv": short},
                         observed=why or "status 0, output identical to in-process run",
                         expected="status 0 and output")
            else:
                rep.case("subprocess-exit-status", rc not in (0, "timeout") and not exists, key=f"sub|{short}",
                         input={"argv": short}, observed={"status": rc, "output_exists": exists},
                         expected="status != 0 and no output")
        rep.space = ("argv of `tsdate date` (method x every option, short and long spellings, option values from small "
                     "sets) and `tsdate preprocess` (minimum_gap x every boolean token for --erase-flanks / "
                     "--trim_telomeres / --split-disjoint) on small simulated .trees files; invalid argv list")
        rep.bound = (f"date: {len(dins)} inputs x {len(combos)} option combinations = {n_date} CLI runs; preprocess: "
                     f"{len(pins)} inputs x {len(pcombos)} combinations = {n_pre} runs ({len(distinct_outputs)} distinct "
                     f"output shapes); {n_inv} invalid argv; {len(sub_specs)} subprocess runs")
        rep.exhaustive = False
        t_sec.append(time.time())
        rep.notes.append("seconds per section (date, preprocess, invalid, subprocess wait): "
                         + str([round(b - a, 1) for a, b in zip(t_sec, t_sec[1:])]))
    finally:
        tsdate.date, tsdate.preprocess_ts = real_date, real_pre
        for p in procs:
            if p.poll() is None:
                p.kill()
        shutil.rmtree(tmp, ignore_errors=True)


if __name__ == "__main__":
    bounded_api.main(run)
