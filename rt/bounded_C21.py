"""
Bounded stand-in (G4) for C21 -- "EP message bookkeeping is consistent after every iteration".

Level: exploration (bounded), never proof.  The REAL tsdate code is run; nothing in /repo is edited.
`tsdate.variational.ExpectationPropagation.iterate` is wrapped *on the class* from this module (the
role of the optional hook in the property's anchors), so that the contract is evaluated after every EP
iteration of real `tsdate.date(..., method="variational_gamma")` calls (`infer` calls `self.iterate`).

Contract clauses evaluated (one obligation per clause name)
-----------------------------------------------------------
posterior-equals-sum-of-messages
    After every iteration, for EVERY node n (free and fixed):
        node_posterior[n] == node[n,MIXPRIOR] + node[n,CONSTRNT]
                             + sum_{edges e: parent(e)=n} edge[e,ROOTWARD] + sum_{edges e: child(e)=n} edge[e,LEAFWARD]
                             + sum_{blocks b: first-parent(b)=n} block[b,0] + sum_{blocks b: second-parent(b)=n} block[b,1]
    The sum is recomputed here with math.fsum from the raw factor arrays; the addresses come from the
    *input tree sequence's* edge table (not from the fit) and, for blocks, from the parents (in the input
    edge table) of the two edges that define the block.  `_assemble_factors` is not called.
scale-reset-to-one
    After every iteration the per-node scale vector is exactly 1 (so the plain sum above, without a scale,
    is the posterior: "internal rescaling of messages" has been folded back into the messages).
iteration-keeps-sample-nodes-fixed
    After every iteration: node_moments() of every sample node is (its input time, variance 0) exactly, the
    posterior row of every sample node is bit-identical to what it was before the iteration, and the
    constraint rows of the sample nodes still equal the input times.
final-sample-posteriors-equal-input-times
    At the end of the real date() call fit.node_posteriors() gives (input time, variance 0) exactly for every
    sample node, every iteration was seen by the wrapper, and every sample WITHOUT children has exactly its
    input time in the returned tree sequence.  (A sample that has children may be pushed older by
    min_branch_length in the output by constraint enforcement; that is C03's permitted exception and is not a
    statement about posteriors, so it is not judged here.)
rescaling-of-messages-never-changes-posteriors
    Gauge invariance.  Two identical ExpectationPropagation objects are advanced k iterations; in one of
    them the internal representation is changed without changing what it represents (scale[n] := g[n],
    every message addressed to n divided by g[n]); both then run one more real iterate().  Posteriors and
    the (scale-folded) messages must agree up to rounding.  Two gauges: (a) g[n] = 2^-532 (below TINY) for a
    random subset of nodes and a small power of two elsewhere -- this forces the in-loop `_rescale_factors`
    call (scale < TINY) that ordinary inputs never reach (the results are still not bit-identical: folding
    the running scale into the messages in the middle of an iteration rounds differently from folding it
    once at the end); (b) g[n] arbitrary in [0.05, 1].
in-loop-rescale-exercised
    Vacuity guard for gauge (a): the wrapped module-level `_rescale_factors` was entered at least once
    more than in the reference run (only evaluated when JIT is disabled, where the inner call is visible).

Input space and bound
---------------------
quick   : 22 inputs  (6 haploid msprime simulations n=3..6 with 1..~8 trees, a polytomy, a two-root forest of
          stars, 2 inputs with historical samples and their variants with an internal sample (sample that is a
          parent of free and of fixed nodes), 2 more internal-sample inputs, 3 diploid inputs, 1 diploid input in
          which the two genomes of an individual are siblings (single-parent singleton block), 4 of the enumerated
          5-leaf shapes (polytomies included) with random 0..3 mutations per edge)
          x max_shape {1.5, 5, 1000} x regularise {T,F} x singletons_phased {T,F where diploid} = 156 real date()
          calls x 4 iterations each checked;  gauge clause: every input x 2 gauges x max_shape {1.5, 1000}
          (x phasing) = 104 twin fits.
thorough: ~200 inputs (same families, more seeds, all 26 four-leaf shapes and 60 five-leaf shapes),
          max_shape {1.5, 2, 5, 50, 1000}, 25 iterations: 2230 date() calls, 55750 checked iterations, 892 twin fits.
Branch coverage (edges with fixed parent / free child, fixed / fixed, free parent over a historical sample,
singleton blocks, single-parent blocks) is counted and reported in the notes.
All inputs have <= ~40 nodes.  Not exhaustive.

Tolerances
----------
posterior-equals-sum-of-messages: |P - S| <= 1e-9 * (|P| + sum |terms|) per natural parameter.  The identity
is algebraic; every update adds a rounding error of a few ulps of the terms involved, and messages can be
of either sign (cancellation), hence the bound relative to the sum of magnitudes.  Observed worst ratio is
~1e-15.
rescaling-of-messages-never-changes-posteriors: rtol 1e-6 on posteriors and (relative to the magnitude of the
messages addressed to the same node) on messages.  The two runs are the same real-arithmetic computation, but in
floating point the products message*scale differ by an ulp, and the projections contain a Newton solver stopped at
relative tolerance sqrt(eps) = 1.5e-8 (approx._KLMIN_RELTOL): measured, the posterior after one iteration moves by
up to ~1.3e-8 relative whether the messages are perturbed by 1e-16 or 1e-10, i.e. the solver tolerance, not the
perturbation, sets the difference.  1e-6 allows for a few such updates per node compounding within an iteration; a
dropped or doubled scale factor (g <= 1, typically < 0.7) changes a message by tens of percent.

NOT covered
-----------
Inputs larger than ~40 nodes; JIT-compiled kernels unless the runner enables JIT (the same Python source
is executed); `allow_unary=True` inputs; the values of the messages themselves (C18/C20); any claim for
inputs outside the enumerated space.
"""
import math

import msprime
import numpy as np
import tskit

from rt import bounded_api, inputs

ROOTWARD, LEAFWARD = 0, 1
RTOL = 1e-9        # algebraic identity (posterior == sum of messages)
GAUGE_RTOL = 1e-6  # two runs through the moment-matching solver, see docstring


# ------------------------------------------------------------------ independent oracle
def message_sums(ts_edges_parent, ts_edges_child, num_nodes, factors_node, factors_edge, factors_block, block_edges):
    """Sum, per node, of prior + constraint factors and of every edge / block message addressed to it.
    Returns (S, M): S[n] the two sums (fsum), M[n] the sums of magnitudes."""
    terms = [([], []) for _ in range(num_nodes)]

    def add(n, v):
        terms[n][0].append(float(v[0]))
        terms[n][1].append(float(v[1]))

    for n in range(num_nodes):
        add(n, factors_node[n, 0])
        add(n, factors_node[n, 1])
    for e in range(len(ts_edges_parent)):
        add(int(ts_edges_parent[e]), factors_edge[e, ROOTWARD])
        add(int(ts_edges_child[e]), factors_edge[e, LEAFWARD])
    for b in range(len(block_edges)):
        e0, e1 = int(block_edges[b][0]), int(block_edges[b][1])
        add(int(ts_edges_parent[e0]), factors_block[b, 0])
        add(int(ts_edges_parent[e1]), factors_block[b, 1])
    S = np.array([[math.fsum(t[0]), math.fsum(t[1])] for t in terms])
    M = np.array([[math.fsum(map(abs, t[0])), math.fsum(map(abs, t[1]))] for t in terms])
    return S, M


def close_rel(P, S, M):
    """max over entries of |P-S| / (|P| + M) (0/0 := 0)."""
    den = np.abs(P) + M
    num = np.abs(P - S)
    with np.errstate(invalid="ignore", divide="ignore"):
        r = np.where(den > 0, num / den, np.where(num == 0, 0.0, np.inf))
    r = np.where(np.isnan(r), np.inf, r)
    return float(r.max()) if r.size else 0.0


# ------------------------------------------------------------------ inputs (own helpers; rt/inputs.py untouched)
def small_sim(seed, n, ploidy=1, L=1e3, rec=1e-5, mu=1e-4):
    return inputs.sim(seed, n=n, L=L, rec=rec, mu=mu, ne=100, ploidy=ploidy)


def small_historical(seed, n0=3, n_hist=2, t_hist=20.0, L=1e3, rec=1e-5, mu=1e-4):
    """Haploid samples at time 0 plus historical samples at time t_hist."""
    samples = [msprime.SampleSet(n0, time=0, ploidy=1), msprime.SampleSet(n_hist, time=t_hist, ploidy=1)]
    ts = msprime.sim_ancestry(samples, sequence_length=L, recombination_rate=rec, population_size=100,
                              random_seed=seed + 3)
    return msprime.sim_mutations(ts, rate=mu, random_seed=seed + 11)


def make_internal_sample(ts, which=0):
    """Mark as a sample one internal node that has a parent and at least one NON-sample child: a sample that
    is an ancestor of a free node (drives the parent-fixed / child-free branch) and whose own parent edge has a
    fixed child of non-zero age."""
    is_sample = [ts.node(u).is_sample() for u in range(ts.num_nodes)]
    has_parent = set(int(c) for c in ts.edges_child)
    cands = sorted(set(int(e.parent) for e in ts.edges() if not is_sample[e.child] and not is_sample[e.parent]
                       and int(e.parent) in has_parent))
    if not cands:
        return None
    # prefer a node that ALSO has a sample child (an edge with both ends fixed)
    both = [u for u in cands if any(is_sample[e.child] for e in ts.edges() if e.parent == u)]
    cands = both or cands
    u = cands[which % len(cands)]
    tables = ts.dump_tables()
    flags = tables.nodes.flags.copy()
    flags[u] |= tskit.NODE_IS_SAMPLE
    tables.nodes.flags = flags
    return tables.tree_sequence()


def has_twin(ts):
    """Some tree has the two nodes of one individual as siblings (single-parent singleton block possible)."""
    for t in ts.trees():
        for ind in ts.individuals():
            if len(ind.nodes) == 2 and t.parent(ind.nodes[0]) != tskit.NULL and t.parent(ind.nodes[0]) == t.parent(ind.nodes[1]):
                return True
    return False


def collapse_internal(ts, which=0):
    """Single-tree input with one non-root internal node removed (its children attached to its parent):
    a polytomy.  Mutations above the removed node are dropped.  The removed node is deleted from the tables."""
    t = ts.first()
    cands = [u for u in t.nodes(order="timeasc") if not t.is_sample(u) and t.parent(u) != tskit.NULL]
    if not cands:
        return None
    u = cands[which % len(cands)]
    p = t.parent(u)
    tables = ts.dump_tables()
    tables.edges.clear()
    for e in ts.edges():
        if e.child == u:
            continue
        tables.edges.add_row(e.left, e.right, p if e.parent == u else e.parent, e.child)
    tables.mutations.clear()
    for m in ts.mutations():
        if m.node != u:
            tables.mutations.add_row(site=m.site, node=m.node, derived_state=m.derived_state)
    tables.sort()
    tables.simplify(filter_sites=False)   # drops the now unreferenced node; keeps the polytomy
    tables.build_index()
    tables.compute_mutation_parents()
    return tables.tree_sequence()


def star_forest():
    """Two trees; in each, two star roots directly above samples (roots differ between trees)."""
    tables = tskit.TableCollection(10.0)
    for _ in range(5):
        tables.nodes.add_row(flags=tskit.NODE_IS_SAMPLE, time=0)
    a = tables.nodes.add_row(time=1.0)
    b = tables.nodes.add_row(time=1.5)
    c = tables.nodes.add_row(time=2.0)
    for (l, r, p, ch) in [(0, 4, a, 0), (0, 4, a, 1), (0, 10, b, 2), (0, 10, b, 3), (0, 10, b, 4),
                          (4, 10, c, 0), (4, 10, c, 1)]:
        tables.edges.add_row(l, r, p, ch)
    pos = [0.5, 1.5, 2.5, 3.5, 4.5, 5.5, 6.5, 7.5, 8.5]
    node = [0, 1, 2, 2, 0, 3, 4, 1, 1]
    for x, u in zip(pos, node):
        s = tables.sites.add_row(position=x, ancestral_state="0")
        tables.mutations.add_row(site=s, node=u, derived_state="1")
    tables.sort()
    tables.build_index()
    tables.compute_mutation_parents()
    return tables.tree_sequence()


def shape_inputs(rng, n_leaves, k):
    shapes = list(inputs.all_tree_shapes(n_leaves))
    idx = np.arange(len(shapes)) if k is None or k >= len(shapes) else rng.choice(len(shapes), size=k, replace=False)
    out = []
    for i in sorted(int(j) for j in idx):
        shape = shapes[i]
        probe = inputs.tree_to_ts(shape)
        muts = {}
        for e in probe.edges():
            muts[int(e.child)] = int(rng.integers(0, 4))
        if sum(muts.values()) == 0:
            muts[0] = 1
        out.append((f"shape{n_leaves}_{i}", inputs.tree_to_ts(shape, mutations=muts)))
    return out


def build_inputs(tier, seed, rng):
    out = []
    nsim = 6 if tier == "quick" else 40
    for i in range(nsim):
        n = 3 + i % 4
        out.append((f"sim_n{n}_s{i}", small_sim(seed * 1000 + i, n, rec=(0 if i % 3 == 0 else 1e-5))))
    for i in range(1 if tier == "quick" else 8):
        ts = collapse_internal(small_sim(seed * 1000 + 30 + i, 5 + i % 2, rec=0), which=i)
        if ts is not None:
            out.append((f"polytomy_{i}", ts))
    out.append(("star_forest", star_forest()))
    nh = 2 if tier == "quick" else 12
    for i in range(nh):
        ts = small_historical(seed * 1000 + i, n0=3 + i % 2, n_hist=1 + i % 3, rec=(0 if i % 2 == 0 else 1e-5))
        out.append((f"historical_{i}", ts))
        ts2 = make_internal_sample(ts, which=i)
        if ts2 is not None:
            out.append((f"historical_internal_sample_{i}", ts2))
    for i in range(2 if tier == "quick" else 12):
        ts = make_internal_sample(small_sim(seed * 1000 + 50 + i, 5, rec=(0 if i % 2 == 0 else 1e-5)), which=i)
        if ts is not None:
            out.append((f"internal_sample_{i}", ts))
    nd = 3 if tier == "quick" else 20
    twins = 0
    for i in range(nd):
        out.append((f"diploid_{i}", small_sim(seed * 1000 + 100 + i, 2 + i % 2, ploidy=2,
                                              rec=(0 if i % 3 == 0 else 1e-5), mu=2e-4)))
        twins += has_twin(out[-1][1])
    # make sure the single-parent ("twin") singleton-block branch is driven: first seeds whose trees have the two
    # genomes of an individual as siblings
    want, j = (1 if tier == "quick" else 6), 0
    while want > 0 and j < 200:
        ts = small_sim(seed * 1000 + 300 + j, 2 + j % 2, ploidy=2, rec=(0 if j % 2 == 0 else 1e-5), mu=4e-4)
        j += 1
        if has_twin(ts):
            out.append((f"diploid_twin_{j - 1}", ts))
            want -= 1
    out += shape_inputs(rng, 5, 4) if tier == "quick" else (shape_inputs(rng, 4, None) + shape_inputs(rng, 5, 60))
    good = []
    for name, ts in out:
        if ts.num_mutations == 0 or ts.num_nodes > 60:
            continue
        good.append((name, ts))
    return good


def is_diploid(ts):
    return ts.num_individuals > 0 and all(len(i.nodes) == 2 for i in ts.individuals())


# ------------------------------------------------------------------ the iterate wrapper
class Observer:
    """Holds the state the wrapped `iterate` needs: current input, report, configuration."""

    def __init__(self):
        self.active = None   # dict(ts=..., rep=..., key=..., desc=...)
        self.rescale_calls = 0
        self.coverage = {"inputs_with_blocks": set(), "inputs_with_single_parent_blocks": set(),
                         "inputs_with_fixed_parent_free_child_edges": set(),
                         "inputs_with_fixed_parent_fixed_child_edges": set(),
                         "inputs_with_free_parent_over_historical_sample": set()}


def install(variational, obs):
    EP = variational.ExpectationPropagation
    orig_iterate = EP.iterate
    orig_rescale = variational._rescale_factors

    def counted_rescale(factors):
        obs.rescale_calls += 1
        return orig_rescale(factors)

    def wrapped(self, **kw):
        ctx = obs.active
        if ctx is None:
            return orig_iterate(self, **kw)
        ts = ctx["ts"]
        samples = ts.samples()
        before = np.array(self.node_posterior[samples], copy=True)
        orig_iterate(self, **kw)
        ctx["iteration"] += 1
        check_state(self, ts, ctx["rep"], ctx["key"], dict(ctx["desc"], after_iteration=ctx["iteration"]), before)

    EP.iterate = wrapped
    # plain-Python global lookup in `iterate` (always) and in `propagate_likelihood` (when JIT is disabled)
    variational._rescale_factors = counted_rescale

    def uninstall():
        EP.iterate = orig_iterate
        variational._rescale_factors = orig_rescale
    return uninstall


def check_state(fit, ts, rep, key, desc, sample_rows_before):
    f = fit.factors
    P = np.array(fit.node_posterior, dtype=float)
    S, M = message_sums(ts.edges_parent, ts.edges_child, ts.num_nodes, np.array(f.node), np.array(f.edge),
                        np.array(f.block), np.array(fit.block_edges))
    worst = close_rel(P, S, M)
    nontrivial = bool(np.any(P != 0))
    rep.case("posterior-equals-sum-of-messages", worst <= RTOL and bool(np.all(np.isfinite(P))), key=key, input=desc,
             observed={"worst_rel": worst, "posterior": P, "sum": S}, expected="posterior == sum of messages (rtol 1e-9)",
             nontrivial=nontrivial)
    scale = np.array(f.scale)
    rep.case("scale-reset-to-one", bool(np.all(scale == 1.0)), key=key, input=desc, observed=scale, expected="all 1.0")
    samples = ts.samples()
    mn, va = fit.node_moments()
    ok = (np.array_equal(mn[samples], ts.nodes_time[samples]) and bool(np.all(va[samples] == 0.0))
          and np.array_equal(np.array(fit.node_posterior[samples]), sample_rows_before)
          and np.array_equal(fit.node_constraints[samples, 0], ts.nodes_time[samples])
          and np.array_equal(fit.node_constraints[samples, 1], ts.nodes_time[samples]))
    rep.case("iteration-keeps-sample-nodes-fixed", ok, key=key, input=desc,
             observed={"mean": mn[samples], "var": va[samples], "rows": fit.node_posterior[samples]},
             expected={"mean": ts.nodes_time[samples], "var": 0, "rows": sample_rows_before})


# ------------------------------------------------------------------ gauge clause
def gauge_case(variational, obs, rep, name, ts, mu, max_shape, regularise, phased, k, kind, rng, jit_disabled):
    EP = variational.ExpectationPropagation
    a = EP(ts, mutation_rate=mu, singletons_phased=phased)
    b = EP(ts, mutation_rate=mu, singletons_phased=phased)
    for _ in range(k):
        a.iterate(max_shape=max_shape, regularise=regularise)
        b.iterate(max_shape=max_shape, regularise=regularise)
    n = ts.num_nodes
    if not phased and a.block_nodes.shape[1] > 0:
        obs.coverage["inputs_with_blocks"].add(name)
        if np.any(a.block_nodes[0] == a.block_nodes[1]):
            obs.coverage["inputs_with_single_parent_blocks"].add(name)
    smp = np.zeros(n, dtype=bool)
    smp[ts.samples()] = True
    if np.any(smp[ts.edges_parent] & ~smp[ts.edges_child]):
        obs.coverage["inputs_with_fixed_parent_free_child_edges"].add(name)
    if np.any(smp[ts.edges_parent] & smp[ts.edges_child]):
        obs.coverage["inputs_with_fixed_parent_fixed_child_edges"].add(name)
    if np.any(~smp[ts.edges_parent] & smp[ts.edges_child] & (ts.nodes_time[ts.edges_child] > 0)):
        obs.coverage["inputs_with_free_parent_over_historical_sample"].add(name)
    if kind == "pow2-below-tiny":
        g = np.where(rng.random(n) < 0.5, 2.0 ** -532, 2.0 ** -rng.integers(0, 6, size=n).astype(float))
        # at least one NON-sample node is below TINY (a sample whose edges are all singleton-block edges is never
        # visited as an edge end, so only a free node guarantees that the in-loop rescale is reached)
        g[int(rng.choice(np.flatnonzero(~smp)))] = 2.0 ** -532
    else:
        g = rng.uniform(0.05, 1.0, size=n)
    # change of representation on b: scale := g, messages addressed to n divided by g[n]
    f = b.factors
    ep, ec = ts.edges_parent, ts.edges_child
    be = np.array(b.block_edges)
    f.edge[:, ROOTWARD] /= g[ep][:, None]
    f.edge[:, LEAFWARD] /= g[ec][:, None]
    if len(be):
        f.block[:, 0] /= g[ep[be[:, 0]]][:, None]
        f.block[:, 1] /= g[ep[be[:, 1]]][:, None]
    f.node[:, 0] /= g[:, None]
    f.node[:, 1] /= g[:, None]
    f.scale[:] = g
    c0 = obs.rescale_calls
    a.iterate(max_shape=max_shape, regularise=regularise)
    c1 = obs.rescale_calls
    b.iterate(max_shape=max_shape, regularise=regularise)
    c2 = obs.rescale_calls
    key = f"gauge/{name}/{kind}/ms{max_shape}/reg{int(regularise)}/ph{int(phased)}/k{k}"
    desc = {"ts": bounded_api.ts_to_json(ts), "mutation_rate": mu, "max_shape": max_shape, "regularise": regularise,
            "singletons_phased": phased, "iterations_before": k, "gauge": kind, "g": g}
    Pa, Pb = np.array(a.node_posterior), np.array(b.node_posterior)
    fa, fb = a.factors, b.factors
    with np.errstate(invalid="ignore", divide="ignore"):
        rel = np.abs(Pa - Pb) / np.maximum(np.abs(Pa), np.abs(Pb))
    rel = np.where((Pa == Pb), 0.0, rel)
    worst = float(np.nanmax(rel)) if rel.size else 0.0
    ok = bool(np.all(np.isfinite(Pb))) and not bool(np.any(np.isnan(rel))) and worst <= GAUGE_RTOL
    # messages: compare relative to the magnitude of all messages addressed to the same node
    _, Ma = message_sums(ep, ec, n, np.array(fa.node), np.array(fa.edge), np.array(fa.block), be)
    mag = np.maximum(Ma, 1e-300)

    def dmax(x, y, nodes):
        return float(np.max(np.abs(np.array(x) - np.array(y)) / mag[nodes], initial=0.0))

    de = max(dmax(fa.edge[:, ROOTWARD], fb.edge[:, ROOTWARD], ep), dmax(fa.edge[:, LEAFWARD], fb.edge[:, LEAFWARD], ec),
             dmax(fa.node[:, 0], fb.node[:, 0], np.arange(n)), dmax(fa.node[:, 1], fb.node[:, 1], np.arange(n)))
    if len(be):
        de = max(de, dmax(fa.block[:, 0], fb.block[:, 0], ep[be[:, 0]]), dmax(fa.block[:, 1], fb.block[:, 1], ep[be[:, 1]]))
    ok = ok and de <= GAUGE_RTOL and bool(np.all(np.array(fb.scale) == 1.0))
    worst = max(worst, de)
    rep.case("rescaling-of-messages-never-changes-posteriors", ok, key=key, input=desc,
             observed={"worst": worst, "posterior_gauged": Pb}, expected={"posterior_reference": Pa})
    if kind == "pow2-below-tiny" and jit_disabled:
        rep.case("in-loop-rescale-exercised", (c2 - c1) > (c1 - c0), key=key, input=desc,
                 observed={"rescale_calls_reference": c1 - c0, "rescale_calls_gauged": c2 - c1},
                 expected="gauged run enters _rescale_factors inside the edge loop", nontrivial=False)


# ------------------------------------------------------------------ driver
def run(req, rep):
    tier, seed = req["tier"], req["seed"]
    rng = np.random.default_rng(seed)
    import numba
    import tsdate
    from tsdate import variational

    jit_disabled = bool(numba.config.DISABLE_JIT)
    quick = tier != "thorough"
    iters = 4 if quick else 25
    shapes = [1.5, 5, 1000] if quick else [1.5, 2, 5, 50, 1000]
    ins = build_inputs("quick" if quick else "thorough", seed, rng)
    rep.space = ("real tsdate.date(method='variational_gamma') calls with ExpectationPropagation.iterate wrapped; "
                 "inputs: small msprime simulations (haploid, diploid, historical, internal samples), polytomy, "
                 "star forest, enumerated 4/5-leaf shapes; x max_shape x regularise_roots x singletons_phased; "
                 "plus gauge-transformed twin fits")
    rep.bound = (f"{len(ins)} inputs (<= 60 nodes), max_shape in {shapes}, regularise in {{T,F}}, "
                 f"singletons_phased in {{T,F}} (F on diploid inputs), {iters} iterations each checked, seed {seed}")
    rep.exhaustive = False

    obs = Observer()
    uninstall = install(variational, obs)
    try:
        for name, ts in ins:
            mu = 1e-4
            phasings = [True, False] if is_diploid(ts) else [True]
            rejected = False
            for max_shape in shapes:
                for regularise in (True, False):
                    for phased in phasings:
                        key = f"{name}/ms{max_shape}/reg{int(regularise)}/ph{int(phased)}"
                        resc = 2 if (regularise and max_shape == 1000) else 0
                        desc = {"ts": bounded_api.ts_to_json(ts), "mutation_rate": mu, "max_shape": max_shape,
                                "regularise_roots": regularise, "singletons_phased": phased, "max_iterations": iters,
                                "rescaling_intervals": resc}
                        obs.active = {"ts": ts, "rep": rep, "key": key, "desc": desc, "iteration": 0}
                        try:
                            out, fit = tsdate.date(ts, mutation_rate=mu, method="variational_gamma", max_iterations=iters,
                                                   max_shape=max_shape, regularise_roots=regularise,
                                                   singletons_phased=phased, rescaling_intervals=resc, return_fit=True)
                        except Exception as e:
                            # A ValueError before the first iteration is a rejected input (outside the property's
                            # quantifier); an exception after all iterations were checked (rescaling stage) is outside
                            # C21's statement; anything else means an iteration did not complete: failure.
                            done = obs.active["iteration"]
                            obs.active = None
                            rep.notes.append(f"{key}: date() raised {type(e).__name__}: {str(e)[:120]} after "
                                             f"{done} checked iteration(s)")
                            if done == 0 and isinstance(e, ValueError):
                                rejected = True
                                continue
                            if done < iters:
                                rep.case("posterior-equals-sum-of-messages", False, key=key + "/exception", input=desc,
                                         observed=f"{type(e).__name__}: {e}", expected=f"{iters} iterations complete")
                            continue
                        done = obs.active["iteration"]
                        obs.active = None
                        samples = ts.samples()
                        post = fit.node_posteriors()
                        childless = np.array([u for u in samples if not np.any(ts.edges_parent == u)], dtype=int)
                        ok = (done == iters and np.array_equal(post["mean"][samples], ts.nodes_time[samples])
                              and bool(np.all(post["variance"][samples] == 0))
                              and np.array_equal(out.nodes_time[childless], ts.nodes_time[childless]))
                        rep.case("final-sample-posteriors-equal-input-times", ok, key=key, input=desc,
                                 observed={"iterations_seen": done, "times": out.nodes_time[samples], "post": post[samples]},
                                 expected={"iterations_seen": iters, "times": ts.nodes_time[samples]})
            if rejected:
                continue
            # gauge clause
            for max_shape in (shapes[0], shapes[-1]):
                for kind in ("pow2-below-tiny", "arbitrary"):
                    for phased in phasings:
                        regularise = bool(rng.integers(0, 2))
                        k = int(rng.integers(1, 4))
                        try:
                            gauge_case(variational, obs, rep, name, ts, 1e-4, max_shape, regularise, phased, k, kind, rng,
                                       jit_disabled)
                        except Exception as e:  # an internal error while iterating a valid state is a failure
                            rep.case("rescaling-of-messages-never-changes-posteriors", False,
                                     key=f"gauge/{name}/{kind}/ms{max_shape}/ph{int(phased)}/exception",
                                     input={"ts": bounded_api.ts_to_json(ts), "max_shape": max_shape, "gauge": kind,
                                            "singletons_phased": phased, "regularise": regularise, "iterations_before": k},
                                     observed=f"{type(e).__name__}: {e}", expected="iterate() completes")
    finally:
        uninstall()
    rep.notes.append("branch coverage (number of inputs): " + ", ".join(f"{k}={len(v)}" for k, v in obs.coverage.items()))


if __name__ == "__main__":
    bounded_api.main(run)
