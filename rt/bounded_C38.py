"""
Bounded stand-in for C38 -- ignore_oldest_root ignores exactly the oldest root.

All clauses run the REAL tsdate.inside_outside(..., ignore_oldest_root=..., return_fit=True) (outside_standardize at
its default True; probability spaces "logarithmic" (default) and "linear") and observe fit.outside (rows divided by
their maximum), the node metadata mean/variance ("mn", "vr") and the output nodes_time.

Contract clauses
  strict (hold on the unchanged code):
    no-flag-ignores-nothing
        ignore_oldest_root=False: outside rows and posterior mean/variance equal the specification oracle with an
        empty ignore set (also validates the oracle on every input it is later used on).
    flag-ignores-exactly-the-oldest-root-when-it-is-the-last-node-id
        inputs whose oldest root (the node with children of greatest input time) has id num_nodes-1, flag on: outside
        rows and posterior mean/variance equal the oracle that drops exactly the messages whose sender is the oldest
        root.  Counted as non-trivial only when the oracle with and without the ignore set differ by > 1e-6.
    renumbering-invariant-without-flag
        flag off: dates of a renumbered input, mapped back, equal those of the original.
    renumbering-invariant-with-flag-when-oldest-root-stays-last
        flag on, renumberings of the other non-sample nodes that leave the oldest root at id num_nodes-1.
  known defect (DESIGN.md 6-F14, pinned by an existing unit test; the code tests `edge.parent == num_nodes - 1`):
    known-ignore-oldest-root-uses-last-node-id
        flag on, renumberings that move the oldest root away from the last id: (key suffix |invariance) dates mapped
        back equal those of the original numbering; (key suffix |oracle) outside rows and posterior mean/variance of
        the renumbered run equal the oracle that drops exactly the oldest root's messages.  Expected to FAIL today.

Specification oracle (own numpy code, shares nothing with tsdate; takes the discretised prior rows and timepoints
produced by tsdate.build_prior_grid as *input data*): sum-product messages of the discretised model --
Poisson(m_e; (t_parent - t_child + eps) * mu * span_e) on every edge with parents no younger than children, messages
raised to the power span_e / total span of the child, inside rows divided by their maximum, outside message of a
node = product over its parent edges e=(p, c), EXCEPT those with p in the ignore set, of
sum_{j>=i} L_e[j,i] * normalised((outside[p] * inside[p] / message_e_to_p)[j] ^ (span_e/span_c)) with 0/0 := 0;
the ignore set is {} or {oldest root} per the statement.  Edge mutation counts are a direct tally of the mutation
table; node spans and single-root spans are direct tallies of the edge table.

Input space
  quick   : all rooted leaf-labelled tree shapes with 3 and 4 leaves incl. polytomies (30 shapes, seeded mutation
            counts 0..3 per node; root = last id by construction) x ALL permutations of the non-sample ids; 24 msprime
            simulations (3..6 samples, 1..~12 trees, <= 30 nodes; the oldest root is the last id in msprime output)
            x {reverse, rotate, swap-last-two, 2 random} renumberings + 2 random renumberings keeping the root last.
  thorough: additionally all 236 shapes with 5 leaves and 80 simulations (up to 8 samples, <= 40 nodes) with 6 random
            renumberings each.
  exhaustive = False (shapes x permutations are exhaustive up to 4 (5) leaves; mutation patterns and simulations are
  sampled).  Inputs whose two oldest nodes-with-children tie in time are excluded (the statement's oldest root must
  be unique); none occurs in practice.

Tolerances: renumbering invariance compares algebraically identical computations (different summation order only):
rtol 1e-9.  Real code vs oracle: the oracle is evaluated in the arithmetic of the run it is compared with (plain
float64 probabilities for "linear", natural logs with scipy.special.logsumexp for "logarithmic") because in linear
space intermediate products below 1e-308 flush to zero -- in the real code and the oracle alike -- and that changes
outside entries at grid points without posterior mass (observed: 2.5 % at two grid points of one simulated input
between the two spaces; a C12 matter, not a C38 one).  Within one arithmetic the code (packed triangular arrays,
streaming log-sum-exp) and the oracle (explicit matrices) perform the same algebra: rtol 1e-8 on outside rows (atol
1e-200 for entries that are zero), rtol 1e-8 on mean/variance (atol 1e-12).  Observed agreement: <= 1e-15.

NOT covered: outside_standardize=False, cache_inside=True, num_threads, inputs with isolated samples / several roots
per tree, inputs with more than ~40 nodes, maximization (has no such flag).
"""
import itertools
import warnings

import numpy as np
import scipy.special
import scipy.stats
import tskit

from rt import bounded_api, inputs

MU = 2e-4
NE = 100
EPS = 1e-8
RTOL_INV = 1e-9
RTOL_ORACLE = 1e-8


# ------------------------------------------------------------------ helpers (own; nothing from tsdate)
def strip_mutation_times(ts):
    tables = ts.dump_tables()
    tables.mutations.time = np.full(tables.mutations.num_rows, tskit.UNKNOWN_TIME)
    return tables.tree_sequence()


def nonsample_ids(ts):
    return np.array([u for u in range(ts.num_nodes) if not ts.node(u).is_sample()], dtype=int)


def apply_perm(ts, perm):
    """perm[old id] = new id."""
    order = np.argsort(np.asarray(perm))
    tables = ts.dump_tables()
    tables.subset(order, record_provenance=False)
    tables.sort()
    tables.build_index()
    tables.compute_mutation_parents()
    return tables.tree_sequence()


def perm_from_assignment(ts, new_ids):
    perm = np.arange(ts.num_nodes)
    perm[nonsample_ids(ts)] = new_ids
    return perm


def oldest_root(ts):
    """The node with children of greatest input time; None if not unique."""
    parents = np.unique(ts.edges_parent)
    t = ts.nodes_time[parents]
    top = parents[t == t.max()]
    return int(top[0]) if len(top) == 1 else None


def edge_mutation_counts(ts):
    cnt = np.zeros(ts.num_edges, dtype=int)
    pos = ts.sites_position[ts.mutations_site]
    for e in range(ts.num_edges):
        cnt[e] = int(np.sum((ts.mutations_node == ts.edges_child[e]) & (pos >= ts.edges_left[e])
                            & (pos < ts.edges_right[e])))
    return cnt


# ------------------------------------------------------------------ specification oracle
def oracle(ts, prior_rows, T, ignore, log):
    """Returns dict(outside=rows/max, mean, var) per non-sample node for the ignore set `ignore`.

    log=False: the algebra is evaluated in plain float64 probabilities; log=True: on natural logarithms with
    scipy.special.logsumexp (no underflow).  Both use the convention 0/0 := 0 for the cavity division.  The real
    code is compared with the oracle evaluated in the arithmetic of its own probability_space, because in linear
    space intermediate products below 1e-308 flush to zero (for real code and oracle alike), which visibly changes
    outside entries at grid points that carry no posterior mass."""
    N, G = ts.num_nodes, len(T)
    left, right, parent, child = ts.edges_left, ts.edges_right, ts.edges_parent, ts.edges_child
    span = right - left
    fixed = np.zeros(N, dtype=bool)
    fixed[ts.samples()] = True
    m = edge_mutation_counts(ts)
    # total span of a node: as a child, plus where it is the single root of the local tree
    total = np.bincount(child, weights=span, minlength=N).astype(float)
    root_span = np.zeros(N)
    breaks = np.unique(np.concatenate([[0.0, ts.sequence_length], left, right]))
    for a, b in zip(breaks[:-1], breaks[1:]):
        cov = (left <= a) & (right > a)
        has_child = np.bincount(parent[cov], minlength=N) > 0
        is_child = np.bincount(child[cov], minlength=N) > 0
        roots = np.flatnonzero(has_child & ~is_child)
        if len(roots) == 1:
            root_span[roots[0]] += b - a
    total += root_span

    # arithmetic
    if log:
        pmf = scipy.stats.poisson.logpmf
        zero, one = -np.inf, 0.0
        mul = lambda a, b: a + b  # noqa: E731
        power = lambda a, f: f * a  # noqa: E731
        norm = lambda a: a - a.max()  # noqa: E731
        up = lambda Lm, v: scipy.special.logsumexp(Lm + v[None, :], axis=1)  # noqa: E731  sum over child index
        down = lambda v, Lm: scipy.special.logsumexp(Lm + v[:, None], axis=0)  # noqa: E731  sum over parent index
        to_lin = np.exp
        enc = np.log

        def divide(a, b):
            with np.errstate(invalid="ignore"):
                r = a - b
            r[np.isnan(r)] = zero
            return r
    else:
        pmf = scipy.stats.poisson.pmf
        zero, one = 0.0, 1.0
        mul = lambda a, b: a * b  # noqa: E731
        power = lambda a, f: a ** f  # noqa: E731
        norm = lambda a: a / a.max()  # noqa: E731
        up = lambda Lm, v: Lm @ v  # noqa: E731
        down = lambda v, Lm: v @ Lm  # noqa: E731
        to_lin = lambda a: a  # noqa: E731
        enc = lambda a: a  # noqa: E731

        def divide(a, b):
            with np.errstate(divide="ignore", invalid="ignore"):
                r = a / b
            r[np.isnan(r)] = zero
            return r

    # edge likelihood matrices L[e][j, i]: parent at T[j], child at T[i], i <= j (zero above the diagonal)
    L = {}
    Lfix = {}
    lower = np.tril(np.ones((G, G), dtype=bool))
    for e in range(ts.num_edges):
        if fixed[child[e]]:
            Lfix[e] = pmf(m[e], (T - T[0] + EPS) * MU * span[e])
        else:
            dt = T[:, None] - T[None, :] + EPS
            mat = pmf(m[e], np.where(lower, dt, 1.0) * MU * span[e])
            L[e] = np.where(lower, mat, zero)
    edges_of_parent = {}
    edges_of_child = {}
    for e in range(ts.num_edges):
        edges_of_parent.setdefault(int(parent[e]), []).append(e)
        edges_of_child.setdefault(int(child[e]), []).append(e)
    inside = {}
    denom = {}
    msg_up = {}
    with np.errstate(divide="ignore"):
        for p in sorted(edges_of_parent, key=lambda u: ts.nodes_time[u]):
            val = enc(np.array(prior_rows[p], dtype=float))
            for e in edges_of_parent[p]:
                c = int(child[e])
                if fixed[c]:
                    lik = Lfix[e]
                else:
                    lik = up(L[e], power(inside[c], span[e] / total[c]))
                msg_up[e] = lik
                val = mul(val, lik)
            denom[p] = val.max()
            inside[p] = norm(val)
        outside = {u: np.full(G, zero) for u in inside}
        for r in np.flatnonzero(root_span > 0):
            outside[int(r)] = np.full(G, enc(root_span[r] / total[r]))
        for c in sorted((u for u in edges_of_child if not fixed[u]), key=lambda u: -ts.nodes_time[u]):
            val = np.full(G, one)
            for e in edges_of_child[c]:
                p = int(parent[e])
                if p in ignore:
                    continue
                g = divide(msg_up[e], np.full(G, denom[c]))
                cavity = divide(inside[p], g)
                pv = norm(power(mul(outside[p], cavity), span[e] / total[c]))
                val = mul(val, down(pv, L[e]))
            outside[c] = norm(val)
    res = {"outside": {}, "mean": {}, "var": {}}
    for u in inside:
        post = to_lin(norm(mul(inside[u], outside[u])))
        post = post / post.sum()
        mean = float(np.sum(post * T))
        res["outside"][u] = to_lin(norm(outside[u]))
        res["mean"][u] = mean
        res["var"][u] = float(np.sum(post * (T - mean) ** 2))
    return res


# ------------------------------------------------------------------ the real code
def real_run(tsdate, ts, flag, space):
    with warnings.catch_warnings():
        warnings.simplefilter("ignore")
        priors = tsdate.build_prior_grid(ts, population_size=NE)
        out, fit = tsdate.inside_outside(ts, mutation_rate=MU, priors=priors, eps=EPS, probability_space=space,
                                         ignore_oldest_root=flag, return_fit=True)
    ns = nonsample_ids(ts)
    rows = {}
    for u in ns:
        row = np.array(fit.outside[u], dtype=float)
        if fit.outside.probability_space == "logarithmic":
            row = np.exp(row - row.max())
        else:
            row = row / row.max()
        rows[int(u)] = row
    mn = {int(u): float(out.node(u).metadata["mn"]) for u in ns}
    vr = {int(u): float(out.node(u).metadata["vr"]) for u in ns}
    return {"outside": rows, "mean": mn, "var": vr, "time": out.nodes_time}


def prior_data(tsdate, ts):
    with warnings.catch_warnings():
        warnings.simplefilter("ignore")
        priors = tsdate.build_prior_grid(ts, population_size=NE)
    T = np.array(priors.timepoints, dtype=float)
    rows = {int(u): np.array(priors[u], dtype=float) for u in nonsample_ids(ts)}
    return rows, T


def agrees_with_oracle(real, spec):
    worst = 0.0
    for u, row in spec["outside"].items():
        r = real["outside"][u]
        if not np.allclose(r, row, rtol=RTOL_ORACLE, atol=1e-200):
            return False, {"node": u, "what": "outside row", "observed": r, "expected": row}
        if not np.isclose(real["mean"][u], spec["mean"][u], rtol=RTOL_ORACLE, atol=0.0):
            return False, {"node": u, "what": "posterior mean", "observed": real["mean"][u],
                           "expected": spec["mean"][u]}
        if not np.isclose(real["var"][u], spec["var"][u], rtol=RTOL_ORACLE, atol=1e-12):
            return False, {"node": u, "what": "posterior variance", "observed": real["var"][u],
                           "expected": spec["var"][u]}
        worst = max(worst, abs(real["mean"][u] / spec["mean"][u] - 1.0))
    return True, {"max_rel_diff_mean": worst}


def same_dates(ts, base, res, perm):
    ns = nonsample_ids(ts)
    a = np.array([base["mean"][int(u)] for u in ns])
    b = np.array([res["mean"][int(perm[u])] for u in ns])
    va = np.array([base["var"][int(u)] for u in ns])
    vb = np.array([res["var"][int(perm[u])] for u in ns])
    ok = (np.allclose(a, b, rtol=RTOL_INV, atol=0.0) and np.allclose(va, vb, rtol=RTOL_INV, atol=1e-12)
          and np.allclose(base["time"][ns], res["time"][perm[ns]], rtol=RTOL_INV, atol=0.0))
    with np.errstate(all="ignore"):
        worst = float(np.max(np.abs(b / a - 1.0)))
    return bool(ok), {"mean_mapped_back": b, "nodes_time_mapped_back": res["time"][perm[ns]],
                      "max_rel_diff_mean": worst}, {"mean": a, "nodes_time": base["time"][ns]}


def differs(spec_a, spec_b):
    return any(abs(spec_a["mean"][u] / spec_b["mean"][u] - 1.0) > 1e-6 for u in spec_a["mean"])


# ------------------------------------------------------------------ inputs
def _count_internal(t):
    return 0 if isinstance(t, int) else 1 + sum(_count_internal(c) for c in t)


def shape_inputs(n_leaves, rng):
    out = []
    for k, shape in enumerate(inputs.all_tree_shapes(n_leaves)):
        n_nodes = n_leaves + _count_internal(shape)
        muts = {u: int(rng.integers(0, 4)) for u in range(n_nodes - 1)}
        muts = {u: c for u, c in muts.items() if c > 0}
        ts = inputs.tree_to_ts(shape, sequence_length=1e3, mutations=muts)
        out.append((f"shape{n_leaves}-{k}", ts, {"shape": repr(shape), "mutations": muts, "sequence_length": 1e3}))
    return out


def small_sims(seed, k, nmax, max_nodes):
    out = []
    i = 0
    while len(out) < k and i < 20 * k:
        n = 3 + (i % (nmax - 2))
        rec = 0.0 if i % 4 == 0 else (1e-5, 2e-5, 4e-5)[i % 3]
        ts = inputs.sim(seed * 1000 + 500 + i, n=n, L=1e3, rec=rec, mu=MU, ne=NE)
        i += 1
        if ts.num_nodes <= max_nodes and ts.num_mutations > 0:
            out.append((f"sim{i - 1}-n{n}-t{ts.num_trees}", strip_mutation_times(ts), None))
    return out


def renumberings(ts, root, rng, exhaustive, n_random):
    """Lists of (label, perm): those moving the oldest root away from the last id, and those keeping it last."""
    ns = nonsample_ids(ts)
    last = ts.num_nodes - 1
    cands = []
    if exhaustive:
        for p in itertools.permutations(ns):
            if list(p) != list(ns):
                cands.append((f"perm{[int(x) for x in p]}", perm_from_assignment(ts, np.array(p))))
    else:
        cands.append(("reverse", perm_from_assignment(ts, ns[::-1])))
        cands.append(("rotate", perm_from_assignment(ts, np.roll(ns, 1))))
        if len(ns) >= 2:
            sw = ns.copy()
            sw[-1], sw[-2] = ns[-2], ns[-1]
            cands.append(("swap-last-two", perm_from_assignment(ts, sw)))
        for r in range(n_random):
            cands.append((f"random{r}", perm_from_assignment(ts, rng.permutation(ns))))
        others = ns[ns != root]
        for r in range(2):
            if root == last and len(others) >= 2:
                perm = np.arange(ts.num_nodes)
                perm[others] = rng.permutation(others)
                if not np.array_equal(perm, np.arange(ts.num_nodes)):
                    cands.append((f"random-keep-root{r}", perm))
    moved = [(lab, p) for lab, p in cands if p[root] != last]
    kept = [(lab, p) for lab, p in cands if p[root] == last]
    return moved, kept


# ------------------------------------------------------------------ main
def run(req, rep):
    import tsdate

    tier, seed = req["tier"], int(req["seed"])
    thorough = tier == "thorough"
    rng = np.random.default_rng(seed)
    cases = []
    for n in ((3, 4, 5) if thorough else (3, 4)):
        for name, ts, desc in shape_inputs(n, rng):
            cases.append((name, ts, desc, True))
    for name, ts, desc in small_sims(seed, 80 if thorough else 24, 8 if thorough else 6, 40 if thorough else 30):
        cases.append((name, ts, desc, False))

    rep.space = ("single-tree shapes (all rooted leaf-labelled shapes incl. polytomies, seeded mutation counts) x all "
                 "permutations of non-sample ids; small msprime simulations x reverse/rotate/swap-last-two/random "
                 "renumberings and renumberings keeping the oldest root last; inside_outside with and without "
                 "ignore_oldest_root in logarithmic and linear space; compared with an independent sum-product oracle")
    rep.bound = (f"tier={tier}: leaves <= {5 if thorough else 4} ({sum(1 for c in cases if c[3])} shapes), "
                 f"{sum(1 for c in cases if not c[3])} simulated inputs with <= {40 if thorough else 30} nodes")
    rep.exhaustive = False

    skipped_ties = 0
    worst_oracle = 0.0
    n_flag_matters = 0
    known = []  # emitted last so that the expected failures do not use up the report's 20 failure slots
    for name, ts, desc, exh in cases:
        root = oldest_root(ts)
        if root is None or len(nonsample_ids(ts)) < 2:
            skipped_ties += root is None
            continue
        in_desc = desc if desc is not None else bounded_api.ts_to_json(ts)
        prior_rows, T = prior_data(tsdate, ts)
        moved, kept = renumberings(ts, root, rng, exh, 6 if thorough else 2)
        for space in ("logarithmic", "linear"):
            spec_none = oracle(ts, prior_rows, T, set(), log=(space == "logarithmic"))
            spec_root = oracle(ts, prior_rows, T, {root}, log=(space == "logarithmic"))
            base_inp = {"input": in_desc, "space": space, "mutation_rate": MU, "population_size": NE, "eps": EPS,
                        "oldest_root": root}
            off = real_run(tsdate, ts, False, space)
            on = real_run(tsdate, ts, True, space)
            ok, det = agrees_with_oracle(off, spec_none)
            worst_oracle = max(worst_oracle, det.get("max_rel_diff_mean", 0.0))
            rep.case("no-flag-ignores-nothing", ok, key=f"{name}|{space}", input=dict(base_inp, flag=False),
                     observed=det, expected="oracle with empty ignore set")
            if root == ts.num_nodes - 1:
                ok, det = agrees_with_oracle(on, spec_root)
                worst_oracle = max(worst_oracle, det.get("max_rel_diff_mean", 0.0))
                flag_matters = differs(spec_none, spec_root)
                n_flag_matters += flag_matters
                rep.case("flag-ignores-exactly-the-oldest-root-when-it-is-the-last-node-id", ok,
                         key=f"{name}|{space}|flag", input=dict(base_inp, flag=True), observed=det,
                         expected="oracle ignoring exactly the oldest root's messages", nontrivial=flag_matters)
            for group, perms in (("moved", moved), ("kept", kept)):
                for label, perm in perms:
                    ts_v = apply_perm(ts, perm)
                    inp = dict(base_inp, renumbering=label, perm_old_to_new=perm.tolist())
                    key = f"{name}|{label}|{space}"
                    r_off = real_run(tsdate, ts_v, False, space)
                    ok, obs, exp = same_dates(ts, off, r_off, perm)
                    rep.case("renumbering-invariant-without-flag", ok, key=key, input=dict(inp, flag=False),
                             observed=obs, expected=exp)
                    r_on = real_run(tsdate, ts_v, True, space)
                    ok, obs, exp = same_dates(ts, on, r_on, perm)
                    if group == "kept":
                        rep.case("renumbering-invariant-with-flag-when-oldest-root-stays-last", ok, key=key,
                                 input=dict(inp, flag=True), observed=obs, expected=exp)
                    else:
                        known.append(dict(ok=ok, key=key + "|invariance", input=dict(inp, flag=True), observed=obs,
                                          expected=exp))
                        # the renumbered run against the oracle (oracle evaluated on the renumbered input itself)
                        rows_v, T_v = prior_data(tsdate, ts_v)
                        spec_v = oracle(ts_v, rows_v, T_v, {int(perm[root])}, log=(space == "logarithmic"))
                        ok, det = agrees_with_oracle(r_on, spec_v)
                        known.append(dict(ok=ok, key=key + "|oracle",
                                          input=dict(inp, flag=True, oldest_root_new_id=int(perm[root])),
                                          observed=det,
                                          expected="oracle ignoring exactly the oldest root's messages"))
    worst_known = 0.0
    for kw in known:
        if not kw["ok"] and kw["key"].endswith("|invariance"):
            worst_known = max(worst_known, kw["observed"].get("max_rel_diff_mean", 0.0))
        rep.case("known-ignore-oldest-root-uses-last-node-id", kw.pop("ok"), **kw)
    if known:
        rep.notes.append(f"known defect: with the flag on, renumbering changes posterior means by up to "
                         f"{100 * worst_known:.3g} % on this input space")
    rep.notes.append(f"largest relative difference real-vs-oracle posterior mean on passing cases: {worst_oracle:.3g}")
    rep.notes.append(f"the flag changes the oracle's dates by > 1e-6 on {n_flag_matters} of the "
                     f"{sum(rep.clauses.get('flag-ignores-exactly-the-oldest-root-when-it-is-the-last-node-id', {}).values())}"
                     " flag-on comparisons")
    if skipped_ties:
        rep.notes.append(f"{skipped_ties} inputs skipped because the oldest root is not unique")


if __name__ == "__main__":
    bounded_api.main(run)
