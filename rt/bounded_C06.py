"""
Bounded stand-in (G4) for C06 -- "changing time units rescales all outputs".

Contract evaluated on the REAL tsdate entry point `tsdate.date` (all three methods):

    let A = date(ts , mutation_rate=mu  , min_branch_length=b  , [population_size=N  , eps=e  , timepoints=tp  ])
        B = date(ts', mutation_rate=mu/c, min_branch_length=b*c, [population_size=N*c, eps=e*c, timepoints=tp*c])
    then   B.nodes_time == c * A.nodes_time, B.mutations_time == c * A.mutations_time,
           every posterior mean (metadata "mn", fit object) scales by c, every posterior variance by c**2.

ts' = ts except for inputs with historical (non-zero time) samples, where the *input* sample ages are
quantities of time as well and are multiplied by c too (all input node times are; that is the only reading
under which the statement can hold for such inputs).  Those inputs report under their own clause so the
literal statement (ts' = ts) is what the generic clauses evaluate.

Clauses (one obligation each)
    same-outcome                         both calls succeed, or both raise the same exception type
    node-times-scale-by-c                returned nodes_time
    mutation-times-scale-by-c            returned mutations_time
    posterior-means-scale-by-c           node/mutation metadata "mn"; fit.node_posteriors()/mutation_posteriors()
                                         means (variational); fit.posterior_mean (maximization); grid timepoints
                                         (inside_outside)
    posterior-variances-scale-by-c-squared   metadata "vr"; fit variances
    dimensionless-outputs-unchanged      posterior grid probabilities (inside_outside); mutation -> node map and
                                         the edge table (exact equality)
    historical-samples-all-outputs-scale all of the above for inputs with non-zero sample ages (input times * c)
    known-rescaling-discontinuous-at-tied-node-times
                                         all of the above, for exactly those variational runs WITH time rescaling in
                                         which two non-fixed nodes have posterior means equal to within 1e-9 relative
                                         (in either run).  There the real code violates the property: see "Known
                                         defect" below.  Every other case stays under the strict generic clauses.

Oracle: none needed beyond the statement -- the expected value of run B is c**k times the observed value of
run A (k = 1 for times/means, 2 for variances, 0 for probabilities).  No tsdate code is used to form it.

Input space
    inputs  : msprime simulations with 3..7 haploid samples, 1..~6 local trees, 5..~60 mutations, <= ~20 nodes;
              single-tree rooted shapes on 4 leaves incl. polytomies (rt.inputs.all_tree_shapes) with mutations;
              diploid individuals (singletons_phased False and True); historical samples (variational only, the
              discrete methods reject them).
    configs : variational_gamma x {plain, match_segregating_sites, no rescaling, regularise_roots=False,
              max_shape=20 (cap active), constr_iterations=3, large min_branch_length (constraint active)};
              inside_outside / maximization x {logarithmic, linear} x {float population_size,
              PopulationSizeHistory dict, user timepoints through build_prior_grid (lognorm, gamma),
              outside_standardize=False, large eps, large min_branch_length}.
    c       : quick {2.9e-10, 977.0, 4.1e9}; thorough adds {1e-3, 1e6, 1/3, 2**-20, 7e-7, 12345.678, 2**30, 3.3e9}
    quick   : 16 inputs (8 sim, 4 shapes, 2 diploid, 2 historical), the first 5 variational and first 7
              discrete configurations, 3 scale factors                                   (not exhaustive)
    thorough: 58 inputs (36 sim, 12 shapes, 6 diploid, 4 historical), every configuration (8-11 variational,
              14 discrete), 9 scale factors                                              (not exhaustive)

Tolerances (the statement says "up to floating-point tolerance")
    discrete methods : rtol 1e-9.  The two runs perform the same operations on operands that differ only by
                       the rounding of x*c and mu/c (c not a power of two); the grid posterior is a ratio of sums
                       of products of Poisson pmfs, so the error stays within a few hundred ulp (observed <1e-14).
    variational      : rtol 1e-6.  EP runs 25 sweeps through a Laplace-approximated 2F1 whose series/Newton loops
                       stop on *relative* tolerances (hypergeo._HYP2F1_TOL = 1e-10, em_reltol = 1e-8 in
                       propagate_prior); rounding of the scaled operands can change an iteration count, so results
                       agree only to about those tolerances (observed <= 2e-10 on 400-node inputs).
    variances        : additionally an absolute allowance of 1e-12 * (scaled mean)**2, because a grid variance is
                       formed as sum((mean - t)**2 * p), whose rounding error is relative to mean**2, not to itself.
    exact (==)       : mutation -> node map, edge table.

Known defect isolated in the known- clause (found by this check on the unchanged /repo)
    rescaling.mutational_timescale computes each interval's factor as z * sum(counts[i:j]) / sum(offset[i:j]) over
    the epochs between *distinct* node times, unweighted by epoch duration.  If two nodes carry identical data
    (e.g. two cherries with the same mutation count and span) their EP means agree up to rounding; whether they
    are bit-equal or one ulp apart decides whether a zero-length epoch exists, and that epoch enters the two sums
    with full weight.  Scaling by a non-power-of-two c changes the rounding, so the outputs jump by O(1-10 %)
    (sim(seed=124474,n=6,rec=6e-06), c=1e-3: node times differ by 10.2 %; direct call with nodes_time
    [0,0,0,0,1,1+d,4]: d=0 -> 10.444, d=2.2e-16 -> 10.222).  Runs without rescaling, and the same inputs with
    c a power of two, satisfy the property.

NOT covered: inputs beyond ~20 nodes; default (None) min_branch_length / eps (the statement scales explicit
values); population-size histories with more than two epochs; approximate (cached) priors; the recombination
clock (unsupported by tsdate); extreme c for which times leave the normal double range; JIT-compiled kernels
(the check runs the same Python source with NUMBA_DISABLE_JIT=1).
"""
import logging
import warnings

import numpy as np

from rt import bounded_api, inputs

warnings.filterwarnings("ignore")
logging.disable(logging.CRITICAL)

MU_SIM = 5e-5


# ---------------------------------------------------------------------------------------------- inputs
def small_inputs(rng, n_sim, n_shape, n_dip, n_hist):
    """List of dicts: name, ts, mu, ne, kind.  Deterministic given rng."""
    import msprime

    out = []
    tries = 0
    while sum(1 for x in out if x["kind"] == "haploid") < n_sim and tries < 50 * n_sim:
        tries += 1
        s = int(rng.integers(1, 2**31 - 1))
        n = int(rng.integers(3, 8))
        rec = [0.0, 3e-6, 6e-6][int(rng.integers(0, 3))]
        ts = inputs.sim(s % 10**6, n=n, L=1e3, rec=rec, mu=MU_SIM, ne=100)
        if ts.num_mutations < 5 or ts.num_mutations > 80 or ts.num_nodes > 24:
            continue
        out.append({"name": f"sim(seed={s % 10**6},n={n},rec={rec})", "ts": ts, "mu": MU_SIM, "ne": 100.0,
                    "kind": "haploid"})
    shapes = list(inputs.all_tree_shapes(4))
    for idx in rng.permutation(len(shapes))[:n_shape]:
        shape = shapes[int(idx)]
        n_nodes = 4 + _count_internal(shape)
        muts = {u: int(rng.integers(0, 4)) for u in range(n_nodes - 1)}
        muts[0] = max(muts[0], 1)
        ts = inputs.tree_to_ts(shape, sequence_length=10.0, mutations=muts)
        out.append({"name": f"shape{shape}/muts{sorted(muts.items())}", "ts": ts, "mu": 0.01, "ne": 20.0,
                    "kind": "shape"})
    tries = 0
    while sum(1 for x in out if x["kind"] == "diploid") < n_dip and tries < 50:
        tries += 1
        s = int(rng.integers(1, 10**6))
        ts = inputs.sim(s, n=int(rng.integers(2, 4)), L=1e3, rec=3e-6, mu=MU_SIM, ne=100, ploidy=2)
        if ts.num_mutations < 5 or ts.num_mutations > 80 or ts.num_nodes > 24:
            continue
        out.append({"name": f"diploid(seed={s})", "ts": ts, "mu": MU_SIM, "ne": 100.0, "kind": "diploid"})
    tries = 0
    while sum(1 for x in out if x["kind"] == "historical") < n_hist and tries < 50:
        tries += 1
        s = int(rng.integers(1, 10**6))
        samples = [msprime.SampleSet(3, time=0, ploidy=1), msprime.SampleSet(2, time=30, ploidy=1)]
        ts = msprime.sim_ancestry(samples, sequence_length=1e3, recombination_rate=3e-6, population_size=100,
                                  random_seed=s)
        ts = msprime.sim_mutations(ts, rate=MU_SIM, random_seed=s + 1)
        if ts.num_mutations < 5 or ts.num_mutations > 80 or ts.num_nodes > 24:
            continue
        out.append({"name": f"historical(seed={s})", "ts": ts, "mu": MU_SIM, "ne": 100.0, "kind": "historical"})
    return out


def _count_internal(shape):
    return 0 if isinstance(shape, int) else 1 + sum(_count_internal(c) for c in shape)


# ---------------------------------------------------------------------------------------------- configurations
def vg_configs(kind, full):
    """(label, kwargs with time-dimension entries marked).  Values are for c = 1."""
    base = {"rescaling_intervals": 3, "min_branch_length": 1e-6}
    cfgs = [
        ("vg/plain", dict(base)),
        ("vg/segsites", dict(base, match_segregating_sites=True)),
        ("vg/mbl-active", dict(base, min_branch_length=25.0)),
        ("vg/max_shape20", dict(base, max_shape=20)),
        ("vg/no-rescale", dict(base, rescaling_iterations=0)),
        ("vg/no-regularise", dict(base, regularise_roots=False)),
        ("vg/constr3", dict(base, constr_iterations=3, min_branch_length=5.0)),
        ("vg/iter3", dict(base, max_iterations=3, rescaling_intervals=2)),
    ]
    if kind == "diploid":
        cfgs = [("vg/unphased", dict(base, singletons_phased=False)),
                ("vg/unphased-segsites", dict(base, singletons_phased=False, match_segregating_sites=True)),
                ("vg/unphased-mbl", dict(base, singletons_phased=False, min_branch_length=25.0))] + cfgs
    return cfgs if full else cfgs[:5]


def discrete_configs(ne, full):
    """(label, method, kwargs, prior_spec).  prior_spec None -> population_size passed to date();
    otherwise dict(timepoints=array|int, prior_distribution=..., population_size=...) for build_prior_grid."""
    tp = np.array([0.0, 0.1, 0.3, 0.7, 1.2, 2.0, 3.5, 6.0, 10.0]) * ne  # user timepoints in time units
    hist = {"population_size": [ne, 3.0 * ne], "time_breaks": [0.8 * ne]}
    cfgs = [
        ("io/log", "inside_outside", dict(eps=1e-6, min_branch_length=1e-6, population_size=ne), None),
        ("max/log", "maximization", dict(eps=1e-6, min_branch_length=1e-6, population_size=ne), None),
        ("io/lin/user-timepoints", "inside_outside",
         dict(eps=1e-3, min_branch_length=1e-6, probability_space="linear"),
         dict(timepoints=tp, prior_distribution="lognorm", population_size=ne)),
        ("io/lin", "inside_outside",
         dict(eps=1e-6, min_branch_length=1e-6, population_size=ne, probability_space="linear"), None),
        ("max/lin", "maximization",
         dict(eps=1e-6, min_branch_length=1e-6, population_size=ne, probability_space="linear"), None),
        ("io/log/two-epoch", "inside_outside", dict(eps=1e-6, min_branch_length=1e-6, population_size=hist), None),
        ("max/log/two-epoch", "maximization", dict(eps=1e-6, min_branch_length=1e-6, population_size=hist), None),
        ("io/log/big-eps", "inside_outside", dict(eps=0.5, min_branch_length=1e-6, population_size=ne), None),
        ("max/log/big-eps", "maximization", dict(eps=0.5, min_branch_length=1e-6, population_size=ne), None),
        ("io/log/mbl-active", "inside_outside", dict(eps=1e-6, min_branch_length=0.6 * ne, population_size=ne),
         None),
        ("max/log/mbl-active", "maximization", dict(eps=1e-6, min_branch_length=0.6 * ne, population_size=ne),
         None),
        ("io/log/unstandardized", "inside_outside",
         dict(eps=1e-6, min_branch_length=1e-6, population_size=ne, outside_standardize=False), None),
        ("max/log/gamma-timepoints", "maximization", dict(eps=1e-4, min_branch_length=1e-6),
         dict(timepoints=tp, prior_distribution="gamma", population_size=ne)),
        ("io/log/8-quantiles", "inside_outside", dict(eps=1e-6, min_branch_length=1e-6),
         dict(timepoints=8, prior_distribution="lognorm", population_size=ne)),
    ]
    return cfgs if full else cfgs[:7]


def scale_popsize(n, c):
    if isinstance(n, dict):
        return {"population_size": [x * c for x in n["population_size"]],
                "time_breaks": [x * c for x in n["time_breaks"]]}
    return n * c


def scale_kwargs(kw, c):
    """Apply the statement's substitution to the time-dimensioned options."""
    out = dict(kw)
    for k in ("min_branch_length", "eps"):
        if k in out:
            out[k] = out[k] * c
    if "population_size" in out:
        out["population_size"] = scale_popsize(out["population_size"], c)
    return out


# ---------------------------------------------------------------------------------------------- running + observing
def run_date(ts, method, mu, kw, prior_spec):
    """Return ("ok", observables) or ("raise", exception type name).  observables: list of
    (name, array, power_of_T, clause_group)."""
    import tsdate

    kw = dict(kw)
    try:
        if prior_spec is not None:
            kw["priors"] = tsdate.build_prior_grid(ts, population_size=prior_spec["population_size"],
                                                   timepoints=prior_spec["timepoints"],
                                                   prior_distribution=prior_spec["prior_distribution"])
        out, fit = tsdate.date(ts, method=method, mutation_rate=mu, return_fit=True, record_provenance=False, **kw)
    except Exception as e:  # noqa: BLE001
        return "raise", type(e).__name__ + ": " + str(e)[:80]
    return "ok", observe(out, fit, method)


def _metadata_moments(table_rows, n):
    mn = np.full(n, np.nan)
    vr = np.full(n, np.nan)
    seen = False
    for i, row in enumerate(table_rows):
        md = row.metadata
        if isinstance(md, dict) and "mn" in md:
            mn[i] = md["mn"]
            vr[i] = md.get("vr", np.nan)
            seen = True
    return (mn, vr) if seen else (None, None)


def observe(out, fit, method):
    obs = [("nodes_time", out.nodes_time.copy(), 1, "node"),
           ("mutations_time", out.mutations_time.copy(), 1, "mut"),
           ("mutations_node", out.mutations_node.copy(), 0, "exact"),
           ("edges", np.column_stack([out.edges_left, out.edges_right, out.edges_parent, out.edges_child]), 0,
            "exact")]
    mn, vr = _metadata_moments(out.nodes(), out.num_nodes)
    if mn is not None:
        obs += [("node_metadata_mn", mn, 1, "mean"), ("node_metadata_vr", vr, 2, "var")]
    mn, vr = _metadata_moments(out.mutations(), out.num_mutations)
    if mn is not None:
        obs += [("mutation_metadata_mn", mn, 1, "mean"), ("mutation_metadata_vr", vr, 2, "var")]
    if method == "variational_gamma":
        npost = fit.node_posteriors()
        mpost = fit.mutation_posteriors()
        obs += [("fit_node_mean", np.array(npost["mean"]), 1, "mean"),
                ("fit_node_variance", np.array(npost["variance"]), 2, "var"),
                ("fit_mutation_mean", np.array(mpost["mean"]), 1, "mean"),
                ("fit_mutation_variance", np.array(mpost["variance"]), 2, "var")]
    elif method == "inside_outside":
        grid = fit.posterior_grid
        obs += [("fit_grid_timepoints", np.array(grid.timepoints, dtype=float), 1, "mean"),
                ("fit_grid_probabilities", np.array(grid.grid_data, dtype=float), 0, "prob")]
    else:
        obs += [("fit_posterior_mean", np.array(fit.posterior_mean, dtype=float), 1, "mean")]
    return obs


def compare(name, got, want, rtol, mean_scale=None):
    """ok, worst relative error.  NaN patterns must coincide.  `mean_scale`: array of scaled means used for
    the absolute allowance on variances."""
    got = np.asarray(got, dtype=float)
    want = np.asarray(want, dtype=float)
    if got.shape != want.shape:
        return False, "shape"
    nan_g, nan_w = np.isnan(got), np.isnan(want)
    if not np.array_equal(nan_g, nan_w):
        return False, "nan-pattern"
    g, w = got[~nan_g], want[~nan_w]
    if g.size == 0:
        return True, 0.0
    if not (np.all(np.isfinite(g)) and np.all(np.isfinite(w))):
        return bool(np.array_equal(g, w)), "non-finite"
    atol = np.zeros_like(w)
    if mean_scale is not None:
        ms = np.asarray(mean_scale, dtype=float)[~nan_w]
        atol = 1e-12 * np.nan_to_num(ms, nan=0.0) ** 2
    err = np.abs(g - w)
    ok = bool(np.all(err <= rtol * np.abs(w) + atol))
    denom = np.where(np.abs(w) > 0, np.abs(w), 1.0)
    return ok, float(np.max(err / denom))


CLAUSE = {"node": "node-times-scale-by-c", "mut": "mutation-times-scale-by-c",
          "mean": "posterior-means-scale-by-c", "var": "posterior-variances-scale-by-c-squared",
          "prob": "dimensionless-outputs-unchanged", "exact": "dimensionless-outputs-unchanged"}


KNOWN_TIES = "known-rescaling-discontinuous-at-tied-node-times"


def near_tied_free_nodes(obs, rel=1e-9):
    """True when two non-fixed nodes have variational posterior means equal up to `rel` (see module docstring:
    the one condition under which rescaling.mutational_timescale is discontinuous)."""
    d = {n: arr for n, arr, _, _ in obs}
    if "fit_node_mean" not in d:
        return False
    free = d["fit_node_variance"] > 0
    t = np.sort(d["fit_node_mean"][free])
    return bool(t.size > 1 and np.any(np.diff(t) <= rel * t[1:]))


def check_pair(rep, key, desc, res_a, res_b, c, rtol, historical, rescaled=False):
    ka, a = res_a
    kb, b = res_b
    same = (ka == kb) and (ka == "ok" or a.split(":")[0] == b.split(":")[0])
    known = None
    if rescaled and ((ka == "ok" and near_tied_free_nodes(a)) or (kb == "ok" and near_tied_free_nodes(b))):
        known = KNOWN_TIES
    rep.case(known or ("historical-samples-all-outputs-scale" if historical else "same-outcome"), same, key=key,
             input=desc,
             observed={"base": ka if ka == "ok" else a, "scaled": kb if kb == "ok" else b},
             expected="both succeed or both raise the same exception type", nontrivial=(ka == "ok"))
    if not same or ka != "ok":
        return
    da = {n: (arr, p, g) for n, arr, p, g in a}
    db = {n: (arr, p, g) for n, arr, p, g in b}
    if set(da) != set(db):
        rep.case(known or "same-outcome", False, key=key, input=desc, observed=sorted(db), expected=sorted(da))
        return
    mean_of = {"node_metadata_vr": "node_metadata_mn", "mutation_metadata_vr": "mutation_metadata_mn",
               "fit_node_variance": "fit_node_mean", "fit_mutation_variance": "fit_mutation_mean"}
    per_clause = {}
    for n, (arr, p, g) in da.items():
        want = arr * (c ** p) if p else arr
        got = db[n][0]
        if g == "exact":
            if n == "edges":  # row order follows the output node times; compare as a set of rows
                got, want = got[np.lexsort(got.T[::-1])], want[np.lexsort(want.T[::-1])]
            ok, err = bool(np.array_equal(got, want)), None
        else:
            ms = da[mean_of[n]][0] * c if n in mean_of else None
            ok, err = compare(n, got, want, rtol, ms)
        cl = known or ("historical-samples-all-outputs-scale" if historical else CLAUSE[g])
        st = per_clause.setdefault(cl, {"ok": True, "worst": {}, "bad": {}})
        st["worst"][n] = err
        if not ok:
            st["ok"] = False
            st["bad"][n] = {"observed": np.asarray(got).ravel()[:12], "expected": np.asarray(want).ravel()[:12],
                            "err": err}
    for cl, st in per_clause.items():
        rep.case(cl, st["ok"], key=key, input=desc, observed=st["bad"] if not st["ok"] else st["worst"],
                 expected=f"run(c) == c**k * run(1) within rtol {rtol}")


# ---------------------------------------------------------------------------------------------- driver
class DeferKnown:
    """Report proxy: cases of known- clauses are emitted after all strict cases, so that the (bounded) failure
    list of the report shows a genuine new failure before it shows repetitions of a known defect."""

    def __init__(self, rep):
        self.rep, self.queue = rep, []

    def case(self, clause, ok, **kw):
        if clause.startswith("known-"):
            if not ok and sum(1 for q in self.queue if not q[1]) >= 5:
                kw = dict(kw, input={k: v for k, v in (kw.get("input") or {}).items() if k != "ts"})
            self.queue.append((clause, ok, kw))
        else:
            self.rep.case(clause, ok, **kw)

    def flush(self):
        for clause, ok, kw in self.queue:
            self.rep.case(clause, ok, **kw)
        self.queue = []


def run(req, rep):
    tier, seed = req["tier"], req["seed"]
    thorough = tier == "thorough"
    rng = np.random.default_rng(seed)
    cs = [2.9e-10, 977.0, 4.1e9]  # extremes first: absolute thresholds (1e-8 tolerances, fixed decimals) only show far from unit scale
    if thorough:
        cs += [1e-3, 1e6, 1.0 / 3.0, 2.0 ** -20, 7e-7, 12345.678, 2.0 ** 30, 3.3e9]
        ins = small_inputs(rng, n_sim=36, n_shape=12, n_dip=6, n_hist=4)
    else:
        ins = small_inputs(rng, n_sim=8, n_shape=4, n_dip=2, n_hist=2)
    rep.space = ("tsdate.date on small simulated / enumerated-shape tree sequences x method configurations x "
                 "time-unit scale factors c; run(c) compared with c**k * run(1)")
    rep.bound = (f"{len(ins)} inputs (<= 24 nodes, <= 80 mutations), c in {cs}, "
                 f"{'all' if thorough else 'first 5 variational / first 7 discrete'} configurations; seed {seed}")
    rep.exhaustive = False
    rep = DeferKnown(rep)
    for item in ins:
        ts, mu, ne, kind = item["ts"], item["mu"], item["ne"], item["kind"]
        historical = kind == "historical"
        jobs = [(lab, "variational_gamma", kw, None) for lab, kw in vg_configs(kind, thorough)]
        if not historical:
            jobs += discrete_configs(ne, thorough)
        for lab, method, kw, prior_spec in jobs:
            rtol = 1e-6 if method == "variational_gamma" else 1e-9
            base = run_date(ts, method, mu, kw, prior_spec)
            for c in cs:
                ts_c = inputs.scale_times(ts, c) if historical else ts
                kw_c = scale_kwargs(kw, c)
                ps_c = None
                if prior_spec is not None:
                    tp = prior_spec["timepoints"]
                    ps_c = dict(prior_spec, population_size=scale_popsize(prior_spec["population_size"], c),
                                timepoints=tp if isinstance(tp, int) else tp * c)
                scaled = run_date(ts_c, method, mu / c, kw_c, ps_c)
                key = f"{item['name']}|{lab}|c={c!r}"
                desc = {"input": item["name"], "config": lab, "method": method, "c": c, "mutation_rate": mu,
                        "kwargs": bounded_api.jsonable(kw), "prior_spec": bounded_api.jsonable(prior_spec),
                        "ts": bounded_api.ts_to_json(ts)}
                rescaled = (method == "variational_gamma" and kw.get("rescaling_iterations", 5) > 0
                            and kw.get("rescaling_intervals", 1000) > 0)
                check_pair(rep, key, desc, base, scaled, c, rtol, historical, rescaled)

    rep.flush()


if __name__ == "__main__":
    bounded_api.main(run)
