"""
Bounded stand-in (G4) for C09 -- "results are deterministic and independent of thread count".

Contract evaluated on the REAL tsdate entry points (`tsdate.date`, `tsdate.build_prior_grid`):

    fingerprint(out) = raw bytes of out.tables.nodes.time, .mutations.time, .mutations.node and of the node and
                       mutation metadata columns (+ offsets)          ("output times, metadata and mutation nodes")

Clauses (one obligation each)
    repeat-call-bit-identical-in-process
        date(ts, **opts) called twice (thorough: three times) in this process: fingerprints equal byte for byte
        (all methods; for the discrete methods each call builds its own prior).
    fresh-process-bit-identical-across-hash-seeds
        the same call executed in freshly started interpreters with PYTHONHASHSEED in {0, 4242, random}
        (thorough: 6 interpreters, two of them `random`) gives the fingerprint of the in-process call, byte for byte.
    discrete-methods-identical-for-every-num-threads
        inside_outside / maximization x {logarithmic, linear}: num_threads in {1, 2, 4} give the fingerprint of
        num_threads=None byte for byte (2 and 4 go through multiprocessing.Pool.imap_unordered); thorough also runs
        num_threads=2 inside a fresh interpreter with a random hash seed (first 48 discrete jobs).
    prior-reuse-matches-fresh-prior
        ONE prior object P = build_prior_grid(ts, ...) is passed to a sequence of calls that alternates probability
        spaces and methods (io/log, io/lin, max/log, io/lin, max/lin, io/log); each result is compared with the same
        call given a freshly built prior.  Compared: node times, metadata mn/vr, posterior grid (inside_outside),
        within floating-point tolerance (below).
    arguments-not-modified
        frame condition behind "called again with the same arguments": population_size passed as a float ndarray, as a
        dict of ndarrays and as a PopulationSizeHistory object is byte-identical after the call, and the repeat clause
        is evaluated with that SAME object passed again (quick: 2 inputs x 3 object forms x {inside_outside,
        maximization}; thorough: 4 inputs).
    same-outcome
        all runs being compared succeed, or all raise the same exception type.

Oracle: the statement itself (equality between runs); no tsdate code is used to form expectations.

Input space
    inputs  : msprime simulations (3..7 haploid samples, 1..~6 trees, 5..80 mutations, <= 24 nodes); rooted 4-leaf
              shapes incl. polytomies with mutations; diploid individuals (variational, singletons_phased=False);
              historical samples (variational only).  Inputs are written to a temporary directory as .trees files and
              loaded by the fresh interpreters, so every process sees the same bytes.
    configs : variational_gamma {plain, match_segregating_sites; unphased for diploids}; inside_outside {log, linear};
              maximization {log, linear}.
    quick   : 9 inputs x 4-6 configs; 3 fresh interpreters; num_threads {None,1,2|4} on 2 inputs x 2 configs; reuse on
              4 inputs                                                                       (not exhaustive)
    thorough: 36 inputs x 4-6 configs; 6 fresh interpreters (+1 with num_threads=2); num_threads on 4 inputs; prior
              reuse on 16 inputs x 2 prior kinds (quantile grid / user timepoints, lognorm / gamma)  (not exhaustive)
    Fresh interpreters inherit this process's environment (PYTHONPATH extended so that they import the same tsdate
    and rt packages, NUMBA_DISABLE_JIT as in the parent) and differ only in PYTHONHASHSEED.

Tolerances
    first three clauses : none (byte equality).
    prior reuse         : rtol 1e-9 (+ 1e-12 * mean**2 absolute on variances).  The statement says "up to
                          floating-point tolerance": the reused prior has been through exp(log(x)) round trips
                          (force_probability_space converts it in place), which perturb entries by an ulp; the grid
                          posterior is a ratio of sums of products of such entries (observed differences < 1e-13).

NOT covered: more than 24 nodes; thread counts above 4; other OS schedulers / start methods than the platform default;
different machines, BLAS builds or numpy versions (the clause is about one installation); JIT-compiled kernels when
the parent runs with NUMBA_DISABLE_JIT=1; provenance records (they contain timestamps by design and are not part of
the fingerprint); the on-disk prior cache (C36).
"""
import hashlib
import json
import logging
import os
import shutil
import subprocess
import sys
import tempfile
import warnings

import numpy as np

warnings.filterwarnings("ignore")
logging.disable(logging.CRITICAL)

MU_SIM = 5e-5


# ---------------------------------------------------------------------------------------------- inputs
def small_inputs(rng, n_sim, n_shape, n_dip, n_hist):
    """List of dicts: name, ts, mu, ne, kind.  Deterministic given rng."""
    import msprime

    from rt import inputs

    out = []
    tries = 0
    while sum(1 for x in out if x["kind"] == "haploid") < n_sim and tries < 50 * n_sim:
        tries += 1
        s = int(rng.integers(1, 2**31 - 1))
        n = int(rng.integers(3, 8))
        rec = [0.0, 3e-6, 6e-6][int(rng.integers(0, 3))]
        ts = inputs.sim(s % 10**6, n=n, L=1e3, rec=rec, mu=MU_SIM, ne=100)
        if ts.num_mutations < 5 or ts.num_mutations > 80 or ts.num_nodes > 24:
            continue
        out.append({"name": f"sim(seed={s % 10**6},n={n},rec={rec})", "ts": ts, "mu": MU_SIM, "ne": 100.0,
                    "kind": "haploid"})
    shapes = list(inputs.all_tree_shapes(4))
    for idx in rng.permutation(len(shapes))[:n_shape]:
        shape = shapes[int(idx)]
        n_nodes = 4 + _count_internal(shape)
        muts = {u: int(rng.integers(0, 4)) for u in range(n_nodes - 1)}
        muts[0] = max(muts[0], 1)
        ts = inputs.tree_to_ts(shape, sequence_length=10.0, mutations=muts)
        out.append({"name": f"shape{shape}/muts{sorted(muts.items())}", "ts": ts, "mu": 0.01, "ne": 20.0,
                    "kind": "shape"})
    tries = 0
    while sum(1 for x in out if x["kind"] == "diploid") < n_dip and tries < 50:
        tries += 1
        s = int(rng.integers(1, 10**6))
        ts = inputs.sim(s, n=int(rng.integers(2, 4)), L=1e3, rec=3e-6, mu=MU_SIM, ne=100, ploidy=2)
        if ts.num_mutations < 5 or ts.num_mutations > 80 or ts.num_nodes > 24:
            continue
        out.append({"name": f"diploid(seed={s})", "ts": ts, "mu": MU_SIM, "ne": 100.0, "kind": "diploid"})
    tries = 0
    while sum(1 for x in out if x["kind"] == "historical") < n_hist and tries < 50:
        tries += 1
        s = int(rng.integers(1, 10**6))
        samples = [msprime.SampleSet(3, time=0, ploidy=1), msprime.SampleSet(2, time=30, ploidy=1)]
        ts = msprime.sim_ancestry(samples, sequence_length=1e3, recombination_rate=3e-6, population_size=100,
                                  random_seed=s)
        ts = msprime.sim_mutations(ts, rate=MU_SIM, random_seed=s + 1)
        if ts.num_mutations < 5 or ts.num_mutations > 80 or ts.num_nodes > 24:
            continue
        out.append({"name": f"historical(seed={s})", "ts": ts, "mu": MU_SIM, "ne": 100.0, "kind": "historical"})
    return out


def _count_internal(shape):
    return 0 if isinstance(shape, int) else 1 + sum(_count_internal(c) for c in shape)


def configs(kind, ne):
    """(label, method, kwargs) -- plain JSON-able kwargs so that a job can be shipped to a fresh interpreter."""
    vg = {"rescaling_intervals": 3, "min_branch_length": 1e-6}
    disc = {"eps": 1e-6, "min_branch_length": 1e-6, "population_size": ne}
    cfgs = [("vg/plain", "variational_gamma", dict(vg)),
            ("vg/segsites", "variational_gamma", dict(vg, match_segregating_sites=True))]
    if kind == "diploid":
        cfgs.append(("vg/unphased", "variational_gamma", dict(vg, singletons_phased=False)))
    if kind != "historical":  # the discrete methods reject non-contemporary samples
        cfgs += [("io/log", "inside_outside", dict(disc)),
                 ("io/lin", "inside_outside", dict(disc, probability_space="linear")),
                 ("max/log", "maximization", dict(disc)),
                 ("max/lin", "maximization", dict(disc, probability_space="linear"))]
    return cfgs


# ---------------------------------------------------------------------------------------------- fingerprints
def fingerprint(out):
    t = out.tables
    return {
        "nodes_time": t.nodes.time.tobytes().hex(),
        "mutations_time": t.mutations.time.tobytes().hex(),
        "mutations_node": t.mutations.node.tobytes().hex(),
        "nodes_metadata": hashlib.sha256(t.nodes.metadata.tobytes() + t.nodes.metadata_offset.tobytes()).hexdigest(),
        "mutations_metadata": hashlib.sha256(t.mutations.metadata.tobytes()
                                             + t.mutations.metadata_offset.tobytes()).hexdigest(),
    }


def run_job(ts, method, mu, kw):
    import tsdate

    try:
        out = tsdate.date(ts, method=method, mutation_rate=mu, **kw)
    except Exception as e:  # noqa: BLE001
        return {"error": type(e).__name__ + ": " + str(e)[:80]}
    return fingerprint(out)


def diff_fields(a, b):
    if "error" in a or "error" in b:
        same_kind = ("error" in a and "error" in b and a["error"].split(":")[0] == b["error"].split(":")[0])
        return [] if same_kind else ["outcome"]
    return [k for k in a if a[k] != b.get(k)]


def decode_times(fp):
    if "error" in fp:
        return fp["error"]
    return np.frombuffer(bytes.fromhex(fp["nodes_time"]), dtype=np.float64).tolist()


# ---------------------------------------------------------------------------------------------- fresh interpreters
def worker(spec_path):
    """Entry point inside a fresh interpreter: run every job of the spec, print {job key: fingerprint}."""
    import tskit

    spec = json.load(open(spec_path))
    res = {}
    loaded = {}
    for job in spec["jobs"]:
        if job["file"] not in loaded:
            loaded[job["file"]] = tskit.load(job["file"])
        res[job["key"]] = run_job(loaded[job["file"]], job["method"], job["mu"], job["kwargs"])
    print("C09-WORKER-RESULT " + json.dumps({"hashseed_env": os.environ.get("PYTHONHASHSEED"),
                                             "hash_of_a": hash("a"), "results": res}))


def launch_worker(spec_path, hashseed):
    import tsdate

    env = dict(os.environ)  # NUMBA_DISABLE_JIT etc. exactly as in the parent
    here = os.path.dirname(os.path.dirname(os.path.abspath(__file__)))
    tsdate_root = os.path.dirname(os.path.dirname(os.path.abspath(tsdate.__file__)))
    env["PYTHONPATH"] = os.pathsep.join([tsdate_root, here] + [p for p in env.get("PYTHONPATH", "").split(os.pathsep)
                                                              if p])
    env["PYTHONHASHSEED"] = str(hashseed)
    return subprocess.Popen([sys.executable, "-m", "rt.bounded_C09", "--worker", spec_path], cwd=here, env=env,
                            stdout=subprocess.PIPE, stderr=subprocess.PIPE, text=True)


def collect_worker(proc, timeout):
    try:
        stdout, stderr = proc.communicate(timeout=timeout)
    except subprocess.TimeoutExpired:
        proc.kill()
        return None, "timeout"
    for line in stdout.splitlines():
        if line.startswith("C09-WORKER-RESULT "):
            return json.loads(line[len("C09-WORKER-RESULT "):]), None
    return None, f"exit {proc.returncode}: {stderr[-400:]}"


# ---------------------------------------------------------------------------------------------- prior reuse
def _metadata_moments(rows, n):
    mn = np.full(n, np.nan)
    vr = np.full(n, np.nan)
    for i, row in enumerate(rows):
        md = row.metadata
        if isinstance(md, dict) and "mn" in md:
            mn[i] = md["mn"]
            vr[i] = md.get("vr", np.nan)
    return mn, vr


def observe_discrete(ts, method, space, mu, prior):
    import tsdate

    try:
        out, fit = tsdate.date(ts, method=method, mutation_rate=mu, priors=prior, probability_space=space, eps=1e-6,
                               min_branch_length=1e-6, return_fit=True)
    except Exception as e:  # noqa: BLE001
        return {"error": type(e).__name__ + ": " + str(e)[:80]}
    mn, vr = _metadata_moments(out.nodes(), out.num_nodes)
    obs = {"nodes_time": out.nodes_time.copy(), "node_metadata_mn": mn, "node_metadata_vr": vr}
    if method == "inside_outside":
        obs["fit_grid_probabilities"] = np.array(fit.posterior_grid.grid_data, dtype=float)
        obs["fit_grid_timepoints"] = np.array(fit.posterior_grid.timepoints, dtype=float)
    else:
        obs["fit_posterior_mean"] = np.array(fit.posterior_mean, dtype=float)
    return obs


def close(got, want, rtol, mean=None):
    if got.shape != want.shape or not np.array_equal(np.isnan(got), np.isnan(want)):
        return False, "shape-or-nan-pattern"
    m = ~np.isnan(want)
    g, w = got[m], want[m]
    if g.size == 0:
        return True, 0.0
    atol = 0.0 if mean is None else 1e-12 * np.nan_to_num(mean[m]) ** 2
    err = np.abs(g - w)
    ok = bool(np.all(err <= rtol * np.abs(w) + atol))
    return ok, float(np.max(err / np.where(np.abs(w) > 0, np.abs(w), 1.0)))


REUSE_SEQUENCE = [("inside_outside", "logarithmic"), ("inside_outside", "linear"), ("maximization", "logarithmic"),
                  ("inside_outside", "linear"), ("maximization", "linear"), ("inside_outside", "logarithmic")]


def check_prior_reuse(rep, item, prior_kw, label, ts_json):
    import tsdate

    ts, mu = item["ts"], item["mu"]

    def build():
        return tsdate.build_prior_grid(ts, **prior_kw)

    try:
        shared = build()
    except Exception as e:  # noqa: BLE001
        rep.case("same-outcome", False, key=f"{item['name']}|reuse|{label}", input={"input": item["name"]},
                 observed=repr(e), expected="prior can be built")
        return
    for step, (method, space) in enumerate(REUSE_SEQUENCE):
        reused = observe_discrete(ts, method, space, mu, shared)
        fresh = observe_discrete(ts, method, space, mu, build())
        key = f"{item['name']}|reuse|{label}|step{step}:{method}/{space}"
        desc = {"input": item["name"], "prior": label, "prior_kwargs": prior_kw, "mutation_rate": mu,
                "sequence": REUSE_SEQUENCE[:step + 1], "ts": ts_json}
        if "error" in reused or "error" in fresh:
            same = ("error" in reused and "error" in fresh
                    and reused["error"].split(":")[0] == fresh["error"].split(":")[0])
            rep.case("same-outcome", same, key=key, input=desc,
                     observed={"reused": reused.get("error", "ok"), "fresh": fresh.get("error", "ok")},
                     expected="both succeed or both raise the same exception type", nontrivial=False)
            continue
        bad, worst = {}, {}
        for n, want in fresh.items():
            mean = fresh["node_metadata_mn"] if n == "node_metadata_vr" else None
            ok, err = close(reused[n], want, 1e-9, mean)
            worst[n] = err
            if not ok:
                bad[n] = {"observed": reused[n].ravel()[:12], "expected": want.ravel()[:12], "err": err}
        rep.case("prior-reuse-matches-fresh-prior", not bad, key=key, input=desc, observed=bad if bad else worst,
                 expected="equal to the run with a freshly built prior within rtol 1e-9")


# ---------------------------------------------------------------------------------------------- driver
def run(req, rep):
    from rt import bounded_api

    import time

    tier, seed = req["tier"], req["seed"]
    thorough = tier == "thorough"
    rng = np.random.default_rng(seed)
    phases, t_last = {}, [time.time()]

    def lap(name):
        phases[name] = round(time.time() - t_last[0], 1)
        t_last[0] = time.time()

    if thorough:
        ins = small_inputs(rng, n_sim=24, n_shape=6, n_dip=4, n_hist=2)
        hashseeds = ["0", "1", "4242", "99999", "random", "random"]
        n_threads_inputs, n_reuse_inputs, n_repeats = 4, 16, 3
    else:
        ins = small_inputs(rng, n_sim=5, n_shape=2, n_dip=1, n_hist=1)
        hashseeds = ["0", "4242", "random"]
        n_threads_inputs, n_reuse_inputs, n_repeats = 2, 4, 2
    rep.space = ("tsdate.date on small tree sequences x method configurations; repeated in process, in fresh "
                 "interpreters with different PYTHONHASHSEED, with different num_threads, and with a reused prior")
    rep.bound = (f"{len(ins)} inputs (<= 24 nodes, <= 80 mutations) x 4-6 configurations; {n_repeats} in-process "
                 f"calls; fresh interpreters with PYTHONHASHSEED in {hashseeds}; num_threads in [None, 1, 2, 4] on "
                 f"{n_threads_inputs} inputs; prior reuse over {len(REUSE_SEQUENCE)} alternating calls on "
                 f"{n_reuse_inputs} inputs; seed {seed}")
    rep.exhaustive = False
    if os.environ.get("NUMBA_DISABLE_JIT") != "1":
        rep.notes.append("parent runs with numba JIT enabled; fresh interpreters inherit that setting")

    lap("inputs")
    tmp = tempfile.mkdtemp(prefix="bounded_C09_")
    try:
        # ---- ship the jobs to the fresh interpreters first, so they run while this process does its own part
        jobs, meta = [], {}
        for k, item in enumerate(ins):
            path = os.path.join(tmp, f"in_{k}.trees")
            item["ts"].dump(path)
            item["ts_json"] = bounded_api.ts_to_json(item["ts"])
            for lab, method, kw in configs(item["kind"], item["ne"]):
                key = f"{item['name']}|{lab}"
                jobs.append({"key": key, "file": path, "method": method, "mu": item["mu"], "kwargs": kw})
                meta[key] = (item, lab, method, kw)
        spec_path = os.path.join(tmp, "spec.json")
        json.dump({"jobs": jobs}, open(spec_path, "w"))
        procs = [(hs, launch_worker(spec_path, hs)) for hs in hashseeds]
        thread_proc = None
        if thorough:
            tjobs = [dict(j, kwargs=dict(j["kwargs"], num_threads=2)) for j in jobs
                     if j["method"] != "variational_gamma"][:48]  # one Pool per job: keep it to a minute or two
            tspec = os.path.join(tmp, "spec_threads.json")
            json.dump({"jobs": tjobs}, open(tspec, "w"))
            thread_proc = launch_worker(tspec, "random")

        lap("launch-workers(+import tsdate)")
        # ---- in-process repeats
        reference = {}
        for key, (item, lab, method, kw) in meta.items():
            runs = [run_job(item["ts"], method, item["mu"], kw) for _ in range(n_repeats)]
            reference[key] = runs[0]
            desc = {"input": item["name"], "config": lab, "method": method, "mutation_rate": item["mu"],
                    "kwargs": kw, "ts": item["ts_json"]}
            d = sorted({f for r in runs[1:] for f in diff_fields(runs[0], r)})
            if any("error" in r for r in runs):
                rep.case("same-outcome", not d, key=key + "|repeat", input=desc,
                         observed=[r.get("error", "ok") for r in runs], expected="same outcome in every repeat",
                         nontrivial=False)
                continue
            rep.case("repeat-call-bit-identical-in-process", not d, key=key + "|repeat", input=desc,
                     observed={"differing_fields": d, "nodes_time": [decode_times(r) for r in runs]} if d
                     else f"{n_repeats} identical fingerprints", expected="byte-identical fingerprints")

        lap("in-process-repeats")
        # ---- repeated calls that share mutable option OBJECTS (arrays, dicts of arrays, history objects)
        from tsdate.demography import PopulationSizeHistory

        def option_objects(ne):
            yield "ne-float-ndarray", lambda: np.array([float(ne)])
            yield "ne-dict-of-ndarrays", lambda: {"population_size": np.array([float(ne), 2.0 * ne]),
                                                  "time_breaks": np.array([float(ne) / 4])}
            yield "ne-history-object", lambda: PopulationSizeHistory(np.array([float(ne), 2.0 * ne]),
                                                                     np.array([float(ne) / 4]))

        def snapshot(o):
            if isinstance(o, np.ndarray):
                return o.tobytes()
            if isinstance(o, dict):
                return {k: snapshot(v) for k, v in o.items()}
            if isinstance(o, PopulationSizeHistory):
                return {k: snapshot(getattr(o, k)) for k in vars(o) if isinstance(getattr(o, k), np.ndarray)}
            return repr(o)

        shared_inputs = [it for it in ins if it["kind"] != "historical"][: (4 if thorough else 2)]
        for item in shared_inputs:
            for olab, make in option_objects(item["ne"]):
                for lab, method in (("io/log", "inside_outside"), ("max/log", "maximization")):
                    obj = make()
                    before = snapshot(obj)
                    kw = {"eps": 1e-6, "min_branch_length": 1e-6, "population_size": obj}
                    runs = [run_job(item["ts"], method, item["mu"], kw) for _ in range(max(n_repeats, 2))]
                    key = f"{item['name']}|{lab}|{olab}"
                    desc = {"input": item["name"], "config": lab, "option_object": olab, "method": method,
                            "mutation_rate": item["mu"], "ts": item["ts_json"]}
                    d = sorted({f for r in runs[1:] for f in diff_fields(runs[0], r)})
                    rep.case("repeat-call-bit-identical-in-process", not d, key=key + "|shared-object", input=desc,
                             observed={"differing_fields": d, "nodes_time": [decode_times(r) for r in runs]} if d
                             else "identical fingerprints", expected="byte-identical fingerprints when the SAME option "
                             "object is passed again")
                    rep.case("arguments-not-modified", snapshot(obj) == before, key=key + "|frame", input=desc,
                             observed="option object changed by the call" if snapshot(obj) != before else "unchanged",
                             expected="date() leaves the caller's option objects byte-identical (frame condition "
                                      "behind 'repeated calls with the same arguments')")

        lap("shared-option-objects")
        # ---- num_threads (in process)
        threaded = [it for it in ins if it["kind"] != "historical"][:n_threads_inputs]
        for idx, item in enumerate(threaded):
            for j, (lab, method, kw) in enumerate(configs(item["kind"], item["ne"])):
                if method == "variational_gamma":
                    continue
                if not thorough and (idx + j) % 2:
                    continue  # quick: alternate, so that both methods and both probability spaces are exercised
                # a Pool costs seconds to tear down: quick alternates between the two pooled values
                counts = (1, 2, 4) if thorough else ((1, 2) if (idx + j // 2) % 2 == 0 else (1, 4))
                key = f"{item['name']}|{lab}"
                ref = reference[key]
                for nt in counts:
                    got = run_job(item["ts"], method, item["mu"], dict(kw, num_threads=nt))
                    d = diff_fields(ref, got)
                    desc = {"input": item["name"], "config": lab, "method": method, "mutation_rate": item["mu"],
                            "kwargs": kw, "num_threads": nt, "ts": item["ts_json"]}
                    rep.case("discrete-methods-identical-for-every-num-threads", not d, key=f"{key}|threads={nt}",
                             input=desc,
                             observed={"differing_fields": d, "num_threads=None": decode_times(ref),
                                       f"num_threads={nt}": decode_times(got)} if d else "identical",
                             expected="byte-identical to num_threads=None", nontrivial="error" not in ref)

        lap("num-threads")
        # ---- prior reuse
        reuse = [it for it in ins if it["kind"] != "historical"][:n_reuse_inputs]
        for item in reuse:
            ne = item["ne"]
            kinds = [("grid12-lognorm", {"population_size": ne, "timepoints": 12, "prior_distribution": "lognorm"})]
            if thorough:
                tp = (np.array([0.0, 0.1, 0.3, 0.7, 1.2, 2.0, 3.5, 6.0, 10.0]) * ne).tolist()
                kinds.append(("user-timepoints-gamma", {"population_size": ne, "timepoints": np.array(tp),
                                                        "prior_distribution": "gamma"}))
            for label, prior_kw in kinds:
                check_prior_reuse(rep, item, prior_kw, label, item["ts_json"])

        lap("prior-reuse")
        # ---- collect the fresh interpreters
        budget = 840 if thorough else 80
        seen_hashes = set()
        for hs, proc in procs:
            res, err = collect_worker(proc, budget)
            if res is None:
                rep.case("fresh-process-bit-identical-across-hash-seeds", False, key=f"worker(PYTHONHASHSEED={hs})",
                         input={"PYTHONHASHSEED": hs}, observed=err, expected="worker finishes and reports")
                continue
            seen_hashes.add(res["hash_of_a"])
            for key, got in res["results"].items():
                item, lab, method, kw = meta[key]
                ref = reference[key]
                d = diff_fields(ref, got)
                desc = {"input": item["name"], "config": lab, "method": method, "mutation_rate": item["mu"],
                        "kwargs": kw, "PYTHONHASHSEED": hs, "ts": item["ts_json"]}
                if "error" in ref or "error" in got:
                    rep.case("same-outcome", not d, key=f"{key}|hashseed={hs}", input=desc,
                             observed={"in_process": ref.get("error", "ok"), "fresh": got.get("error", "ok")},
                             expected="same outcome", nontrivial=False)
                    continue
                rep.case("fresh-process-bit-identical-across-hash-seeds", not d, key=f"{key}|hashseed={hs}",
                         input=desc,
                         observed={"differing_fields": d, "in_process": decode_times(ref),
                                   "fresh": decode_times(got)} if d else "identical",
                         expected="byte-identical to the in-process call")
        # the interpreters really did hash differently (otherwise the clause would be vacuous)
        rep.notes.append(f"distinct values of hash('a') seen in fresh interpreters: {len(seen_hashes)}")
        if len(seen_hashes) < 2:
            rep.case("fresh-process-bit-identical-across-hash-seeds", False, key="hash-seeds-took-effect",
                     input={"hashseeds": hashseeds}, observed=len(seen_hashes),
                     expected="at least two different string-hash functions among the interpreters")
        if thread_proc is not None:
            res, err = collect_worker(thread_proc, budget)
            if res is None:
                rep.case("discrete-methods-identical-for-every-num-threads", False, key="worker(num_threads=2)",
                         input={}, observed=err, expected="worker finishes and reports")
            else:
                for key, got in res["results"].items():
                    item, lab, method, kw = meta[key]
                    d = diff_fields(reference[key], got)
                    rep.case("discrete-methods-identical-for-every-num-threads", not d,
                             key=f"{key}|threads=2|fresh-interpreter",
                             input={"input": item["name"], "config": lab, "method": method, "kwargs": kw,
                                    "num_threads": 2, "PYTHONHASHSEED": "random", "ts": item["ts_json"]},
                             observed={"differing_fields": d} if d else "identical",
                             expected="byte-identical to in-process num_threads=None")
        lap("wait-for-workers")
        rep.notes.append(f"phase seconds: {phases}")
    finally:
        shutil.rmtree(tmp, ignore_errors=True)


if __name__ == "__main__":
    if len(sys.argv) > 2 and sys.argv[1] == "--worker":
        worker(sys.argv[2])
    else:
        from rt import bounded_api

        bounded_api.main(run)
