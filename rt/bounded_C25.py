"""
Bounded stand-in (G4) for C25 -- "Time rescaling is an order-preserving recalibration".

What is run: the REAL tsdate.variational.ExpectationPropagation on small tree sequences.  EP is
run once per input with rescaling switched off; the state is snapshotted, and then the REAL
`rescale()` step is applied for every configuration (rescale_intervals x rescale_iterations x
rescale_segsites x max_shape) from the restored snapshot.  The three rescaling kernels that
`rescale()` calls (mutational_timescale, piecewise_scale_point_estimate, piecewise_scale_posterior)
are observed through recording wrappers installed on the names in tsdate.variational (they call the
unmodified functions and only copy arguments/results, so the observed breakpoints are the ones the
real step used).  A few inputs additionally go through the public tsdate.variational_gamma twice
(rescaling_iterations=0 and >0) and are compared as black boxes.

Contract clauses evaluated (one obligation each)
------------------------------------------------
  map-fixes-zero-with-increasing-breakpoints
      every breakpoint pair the step uses (each mutational_timescale result and the final
      (original_breaks, rescaled_breaks) handed to piecewise_scale_posterior) starts at (0, 0), has
      strictly increasing original breakpoints and non-decreasing rescaled breakpoints.
  map-is-continuous-nondecreasing-piecewise-linear
      the REAL point-estimate kernel AND the REAL posterior kernel, called with the final breakpoints
      on a probe grid (every knot, one ulp either side of it, 3 interior points per segment, points
      beyond the last knot), (i) equal the piecewise-linear interpolant through the knots (own
      two-point-form oracle) inside the knot range, (ii) never decrease along the sorted probes,
      (iii) have no jump at a knot or after the last knot, (iv) map 0 to 0.
  sample-nodes-untouched
      node_posteriors() mean and variance of every sample (fixed) node are bit-identical before and
      after rescale(), and every point-estimate call returns fixed entries bit-identical.
  posterior-mean-order-never-reversed
      for ALL pairs of nodes (samples included): mean_i < mean_j before  =>  mean_i <= mean_j after,
      and equal means stay equal.
      Evaluated on every pair in which neither node is a sample at a time > 0; those pairs go to:
  known-historical-sample-order-reversed                   (found by this check; not in DESIGN section 6)
      pairs with a historical sample node (fixed at its time t > 0, left untouched) and any other
      node.  The map fixes only time 0, so an unconstrained node whose mean was above t can be mapped
      below t (e.g. sample at 20.0, ancestor's mean 26.56 -> 16.56): "leaves sample nodes untouched"
      and "never reverses the order of two nodes' posterior means" cannot both hold for such inputs.
      Expected to FAIL on inputs with historical samples.
  rescaled-posterior-has-mapped-mean
      every non-sample node posterior and every defined mutation posterior has mean
      g(old mean), g = the oracle interpolant through the final breakpoints; undefined (NaN)
      mutation posteriors stay undefined.
  single-iteration-posterior-means-equal-rescaled-point-estimates
      with rescale_iterations = 1 the step is ONE map, so the rescaled posterior means of the
      non-sample nodes equal the rescaled point estimates that the same call computed (this ties the
      "breakpoint recovery" in rescale() to the map that mutational_timescale produced).
      Evaluated on inputs without historical samples; inputs with a sample at time > 0 go to:
  known-historical-sample-breakpoint-recovered-inexactly   (found by this check; not in DESIGN section 6)
      when a changepoint falls on the time of a historical sample, mutational_timescale moves that
      breakpoint (e.g. 20.0 -> 19.67) but rescale() recovers the original breakpoints by interpolating
      through the NON-sample nodes only and obtains 20.51 instead of 20.0; the posteriors are then
      mapped through a different function than the point estimates (node mean 15.227 vs 15.617).
      Expected to FAIL on part of this domain.
  rescaled-shape-at-most-max-shape
      every rescaled node / mutation posterior has finite positive mean and variance and
      shape = mean^2/variance <= max_shape (max_shape 1000 and small caps 1.5 / 3 that bind).
  interval-counts-and-areas-equal-direct-edge-overlap
      mutational_area(nodes_time, likelihoods, edges) -- called with exactly the arguments every
      observed mutational_timescale call received, and on an exhaustive family of small synthetic edge
      tables -- returns per interval k between consecutive distinct node times
          counts[k]*duration[k] = sum_e muts_e * |edge_e ∩ interval_k| / length_e
          offset[k]*duration[k] = sum_e span_e * |edge_e ∩ interval_k|
      over the edges of positive length (direct interval-intersection oracle).
  intervals-lie-between-consecutive-distinct-node-times
      duration = gaps of the sorted distinct node times and nodes_index = rank of each node's time.
  end-to-end-order-samples-and-shape
      tsdate.variational_gamma(..., return_fit=True) with and without rescaling: order of posterior
      means never reversed, sample nodes untouched, shape <= max_shape.
  rescale-step-completes
      rescale() returns without an exception.  The ONE exception that is routed elsewhere:
  known-mutation-free-interval-raises-assertion            (DESIGN 6-F7)
      AssertionError "Use fewer rescaling intervals" raised while an observed rescaled-breakpoint
      vector is not strictly increasing (an interval between changepoints carries no mutations, so
      the map has a flat piece -- allowed by the statement, rejected by an internal assert).
      Recorded as a failing case of this clause only; any other exception fails rescale-step-completes.

Input space and bound per tier
------------------------------
quick   : single-tree inputs: ALL 4 leaf-labelled shapes on 3 leaves and ALL 26 on 4 leaves (polytomies
          included) x 1 of 3 mutation patterns (rotating); 8 seeded msprime simulations (3-6 samples,
          L=1e3, a handful of trees, <= ~20 nodes), 1 larger one (tens of trees), 1 with historical
          samples (time 20), 1 unphased diploid (singletons_phased=False); 2 pinned hand-built trees
          (one with all mutations on a single branch, which triggers 6-F7) with fixed configurations;
          the observed maximum sizes are written to the notes of every run;
          each x 8 of the 16 configurations intervals{1,2,3,1000} x iterations{1,3} x segsites{F,T}
          (rotating so that all 16 occur) with max_shape 1000, 3 or 1.5.  mutational_area synthetic:
          ALL time assignments of 4 nodes over {0,1,2,3} (node 0 at time 0) x ALL edge sets of size <= 2.
          2 end-to-end inputs x 2 configurations.
thorough: ALL shapes on 3, 4 and 5 leaves (4 + 26 + 236) x all 3 mutation patterns,
          40 simulations (up to 8 samples), 4 larger ones, 6 historical, 6 unphased, the pinned trees; each x
          all 16 configurations (max_shape
          rotating over {1000, 3, 1.5}); synthetic tables with 5 nodes, times over {0,1,2.5} and edge sets
          of size <= 3; 10 end-to-end inputs x 4 configurations.
Not exhaustive (rep.exhaustive = False): the tree shapes and synthetic edge tables are enumerated
exhaustively, mutation counts / simulations / configurations are sampled.

Tolerances
----------
* exact (bitwise) for sample nodes.
* rtol 1e-9 (of the largest rescaled breakpoint) for map-vs-interpolant and mapped mean: algebraically
  identical formulas (slope form vs two-point form; (alpha+1)/beta with beta=(alpha+1)/mean).
* order / monotonicity: a reversal must exceed 1e-12 x (largest mean or breakpoint) to count: at a knot the left piece
  resc[k]+s_k*(x-orig[k]) and the knot value resc[k+1] differ by rounding of s_k (a few ulp).
* shape: <= max_shape*(1+1e-9) (shape is recomputed as mean^2/variance from the reported moments).
* mutational_area: absolute 1e-9 * (sum of the added rates): the code builds the interval totals by a
  difference array (+rate at the child, -rate at the parent, cumsum), so rounding is relative to the
  total mass that cancels, not to the individual entry.

NOT covered: inputs on which EP itself fails; node-time vectors whose minimum is not 0 (the kernel
anchors the first interval at 0); whether the flat continuation beyond the last breakpoint is the
intended extension (the statement only requires continuity and monotonicity, which is what is checked
there); tree sequences with more than ~50 nodes; the composite of several iterations is only checked
through the final breakpoints (that is the map applied to the posteriors); the standalone
rescale_tree_sequence (C37).
"""
import math

import numpy as np

from rt import bounded_api, inputs

RTOL = 1e-9
ORDER_TOL = 1e-12


# ------------------------------------------------------------------ oracles (from the statement only)
def spec_map(orig, resc, x):
    """Piecewise-linear interpolant through the knots (orig[k], resc[k]); None beyond the last knot."""
    for k in range(len(orig) - 1):
        if orig[k] <= x <= orig[k + 1]:
            t = (x - orig[k]) / (orig[k + 1] - orig[k])
            return resc[k] + t * (resc[k + 1] - resc[k])
    return None


def spec_area(nodes_time, lik, parent, child):
    """Direct computation: distinct sorted node times are the interval ends; for each interval the
    summed (mutations per unit length) x overlap and span x overlap of every edge of positive length."""
    t = [float(x) for x in nodes_time]
    breaks = sorted(set(t))
    rank = {b: k for k, b in enumerate(breaks)}
    index = [rank[x] for x in t]
    K = len(breaks) - 1
    duration = [breaks[k + 1] - breaks[k] for k in range(K)]
    muts = [0.0] * K
    area = [0.0] * K
    mass_m, mass_a = 0.0, 0.0
    for e in range(len(parent)):
        tp, tc = t[parent[e]], t[child[e]]
        length = tp - tc
        if not length > 0:
            continue  # an edge without extent overlaps nothing
        mass_m += abs(lik[e][0]) / length
        mass_a += abs(lik[e][1])
        for k in range(K):
            if breaks[k + 1] <= tc or breaks[k] >= tp:
                continue  # disjoint (or touching in a point)
            ov = min(tp, breaks[k + 1]) - max(tc, breaks[k])
            if ov > 0:
                muts[k] += lik[e][0] * ov / length
                area[k] += lik[e][1] * ov
    return muts, area, duration, index, mass_m, mass_a


# ------------------------------------------------------------------ observation of the real step
class Spy:
    """Recording wrappers on the names that ExpectationPropagation.rescale looks up in tsdate.variational."""
    NAMES = ("mutational_timescale", "piecewise_scale_point_estimate", "piecewise_scale_posterior")

    def __init__(self, module):
        self.module = module
        self.real = {n: getattr(module, n) for n in self.NAMES}
        self.calls = []

    def __enter__(self):
        def wrap(name, fn):
            def inner(*args):
                saved = tuple(np.array(a, copy=True) if isinstance(a, np.ndarray) else a for a in args)
                out = fn(*args)
                res = tuple(np.array(o, copy=True) for o in out) if isinstance(out, tuple) else np.array(out, copy=True)
                self.calls.append((name, saved, res))
                return out
            return inner
        for n in self.NAMES:
            setattr(self.module, n, wrap(n, self.real[n]))
        return self

    def __exit__(self, *exc):
        for n in self.NAMES:
            setattr(self.module, n, self.real[n])
        return False


def moments(fit):
    nodes = fit.node_posteriors().copy()
    muts = fit.mutation_posteriors().copy()
    return nodes, muts


# ------------------------------------------------------------------ per-case checks
def check_map_shape(rep, key, desc, rescaling, orig, resc, max_shape):
    """Clause map-is-continuous-nondecreasing-piecewise-linear, on both real kernels."""
    orig = [float(x) for x in orig]
    resc = [float(x) for x in resc]
    scale = max(resc[-1], 1e-300)
    probes = set()
    for k, b in enumerate(orig):
        probes.add(b)
        probes.add(float(np.nextafter(b, np.inf)))
        if b > 0:
            probes.add(float(np.nextafter(b, -np.inf)))
        if k + 1 < len(orig):
            for f in (0.25, 0.5, 0.75):
                probes.add(b + f * (orig[k + 1] - b))
    probes.update([orig[-1] * 1.5, orig[-1] * 10.0])
    xs = np.array(sorted(probes))
    none = np.full(xs.size, False)
    try:
        _check_map_shape(rep, key, desc, rescaling, orig, resc, max_shape, xs, none, scale)
    except Exception as ex:  # a kernel that raises on a probe inside/outside the knot range is not a map
        rep.case("map-is-continuous-nondecreasing-piecewise-linear", False, key=key, input=desc,
                 observed=f"{type(ex).__name__}: {ex}", expected="kernels evaluate on the probe grid")


def _check_map_shape(rep, key, desc, rescaling, orig, resc, max_shape, xs, none, scale):
    got_pt = rescaling.piecewise_scale_point_estimate(xs, none, np.array(orig), np.array(resc))
    # posterior kernel: gamma(shape 2, rate 2/x) has mean x; skip x == 0 (no such gamma)
    coarse = set(orig) | {0.5 * (a + b) for a, b in zip(orig[:-1], orig[1:])} | {orig[-1] * 1.5, orig[-1] * 10.0}
    pos = np.array([x > 0 and x in coarse for x in xs])
    post = np.column_stack((np.ones(pos.sum()), 2.0 / xs[pos]))
    new_post = rescaling.piecewise_scale_posterior(post, np.full(post.shape[0], False), np.array(orig),
                                                   np.array(resc), 0.5, float(max_shape))
    got_po = np.full(xs.size, np.nan)
    got_po[pos] = (new_post[:, 0] + 1) / new_post[:, 1]
    problems = []
    for name, got in (("point_estimate", got_pt), ("posterior", got_po)):
        for i, x in enumerate(xs):
            if not np.isfinite(got[i]):
                if name == "posterior" and not pos[i]:
                    continue
                problems.append((name, "not finite", float(x), float(got[i])))
                continue
            want = spec_map(orig, resc, float(x))
            if want is not None and abs(got[i] - want) > RTOL * scale:
                problems.append((name, "differs from interpolant", float(x), float(got[i]), want))
            if want is None and got[i] < resc[-1] - ORDER_TOL * scale:
                problems.append((name, "decreases beyond last knot", float(x), float(got[i]), resc[-1]))
        fin = np.isfinite(got)
        g = got[fin]
        if np.any(np.diff(g) < -ORDER_TOL * scale):
            problems.append((name, "decreasing", g.tolist()))
        for k, b in enumerate(orig):  # continuity: one ulp either side of a knot moves the image by ~0
            for nb in (np.nextafter(b, np.inf), np.nextafter(b, -np.inf)):
                j = np.flatnonzero(xs == nb)
                jb = np.flatnonzero(xs == b)
                if j.size and jb.size and fin[j[0]] and fin[jb[0]] and abs(got[j[0]] - got[jb[0]]) > RTOL * scale:
                    problems.append((name, "jump at knot", b, float(got[j[0]]), float(got[jb[0]])))
    if got_pt[0] != 0.0 or xs[0] != 0.0:
        problems.append(("point_estimate", "g(0) != 0", float(xs[0]), float(got_pt[0])))
    rep.case("map-is-continuous-nondecreasing-piecewise-linear", not problems, key=key, input=desc,
             observed=problems[:5], expected="equals interpolant through knots; monotone; continuous; g(0)=0")


def check_area(rep, key, desc, rescaling, nodes_time, lik, parent, child):
    nodes_time = np.ascontiguousarray(nodes_time, dtype=np.float64)
    lik = np.ascontiguousarray(lik, dtype=np.float64)
    parent = np.ascontiguousarray(parent, dtype=np.int32)
    child = np.ascontiguousarray(child, dtype=np.int32)
    try:
        counts, offset, duration, index = rescaling.mutational_area(nodes_time, lik, parent, child)
    except Exception as ex:
        rep.case("interval-counts-and-areas-equal-direct-edge-overlap", False, key=key, input=desc,
                 observed=f"{type(ex).__name__}: {ex}", expected="returns")
        return
    muts, area, dur, idx, mass_m, mass_a = spec_area(nodes_time, lik.tolist(), parent.tolist(), child.tolist())
    ok_iv = (len(duration) == len(dur) and np.allclose(duration, dur, rtol=RTOL, atol=0)
             and [int(i) for i in index] == idx)
    rep.case("intervals-lie-between-consecutive-distinct-node-times", ok_iv, key=key, input=desc,
             observed={"duration": np.asarray(duration).tolist(), "index": np.asarray(index).tolist()},
             expected={"duration": dur, "index": idx})
    if not ok_iv:
        return
    dur = np.array(dur)
    got_m = np.asarray(counts) * dur
    got_a = np.asarray(offset) * dur
    # absolute tolerance relative to the mass that the difference array adds and removes
    tol_m = RTOL * max(mass_m, 1e-300) * max(dur.max(initial=0.0), 1e-300)
    tol_a = RTOL * max(mass_a, 1e-300) * max(dur.max(initial=0.0), 1e-300)
    ok = (np.all(np.abs(got_m - np.array(muts)) <= tol_m) and np.all(np.abs(got_a - np.array(area)) <= tol_a))
    rep.case("interval-counts-and-areas-equal-direct-edge-overlap", bool(ok), key=key, input=desc,
             observed={"counts*duration": got_m.tolist(), "offset*duration": got_a.tolist()},
             expected={"mutations": muts, "area": area}, nontrivial=len(muts) > 0)


def order_problems(before, after, select=None):
    """Pairs whose order is reversed (or equal means that separate); `select(i, j)` restricts the pairs."""
    bad = []
    n = len(before)
    scale = max(float(np.max(np.abs(after))), 1e-300)
    for i in range(n):
        for j in range(n):
            if select is not None and not select(i, j):
                continue
            if before[i] < before[j] and after[i] > after[j] + ORDER_TOL * scale:
                bad.append((i, j, float(before[i]), float(before[j]), float(after[i]), float(after[j])))
            if i < j and before[i] == before[j] and abs(after[i] - after[j]) > RTOL * scale:
                bad.append((i, j, "equal before", float(after[i]), float(after[j])))
    return bad


def shape_problems(mean, var, mask, max_shape):
    bad = []
    for i in np.flatnonzero(mask):
        m, v = float(mean[i]), float(var[i])
        if not (math.isfinite(m) and math.isfinite(v) and m > 0 and v > 0):
            bad.append((int(i), "not finite positive", m, v))
        elif m * m / v > max_shape * (1 + RTOL):
            bad.append((int(i), "shape", m * m / v))
    return bad


def run_rescale_case(rep, variational, rescaling, fit, snap, cfg, key, desc):
    iv, it, seg, max_shape = cfg
    fit.node_posterior[:] = snap["node_posterior"]
    fit.mutation_posterior[:] = snap["mutation_posterior"]
    fit.edge_likelihoods[:] = snap["edge_likelihoods"]
    fit.sizebiased_likelihoods[:] = snap["sizebiased_likelihoods"]
    nodes0, muts0 = moments(fit)
    fixed = fit.node_constraints[:, 0] == fit.node_constraints[:, 1]
    exc = None
    with Spy(variational) as spy:
        try:
            fit.rescale(rescale_intervals=iv, rescale_iterations=it, rescale_segsites=seg, max_shape=max_shape)
        except Exception as ex:  # noqa: BLE001
            exc = ex
    calls = spy.calls
    breaks = [(c[2][0], c[2][1]) for c in calls if c[0] == "mutational_timescale"]

    # the area clause does not depend on the step completing
    for n, c in enumerate(calls):
        if c[0] == "mutational_timescale":
            nt, lk, _, ep, ec, _ = c[1]
            check_area(rep, f"{key}|area{n}", {**desc, "call": n, "nodes_time": nt.tolist(),
                                               "likelihoods": lk.tolist(), "parent": ep.tolist(),
                                               "child": ec.tolist()}, rescaling, nt, lk, ep, ec)

    if exc is not None:
        flat = any(np.any(np.diff(r) <= 0) for _, r in breaks)
        msg = f"{type(exc).__name__}: {exc}"
        if isinstance(exc, AssertionError) and "Use fewer rescaling intervals" in str(exc) and flat:
            rep.case("known-mutation-free-interval-raises-assertion", False, key=key, input=desc, observed=msg,
                     expected="a map with a flat piece (or a clean ValueError), not an internal assertion")
        else:
            rep.case("rescale-step-completes", False, key=key, input=desc, observed=msg, expected="returns")
        return "raised"
    rep.case("rescale-step-completes", True, key=key, input=desc)

    post_calls = [c for c in calls if c[0] == "piecewise_scale_posterior"]
    orig, resc = post_calls[0][1][2], post_calls[0][1][3]
    all_breaks = breaks + [(c[1][2], c[1][3]) for c in post_calls]
    ok = all(len(o) == len(r) >= 2 and o[0] == 0 and r[0] == 0 and np.all(np.diff(o) > 0) and np.all(np.diff(r) >= 0)
             for o, r in all_breaks)
    rep.case("map-fixes-zero-with-increasing-breakpoints", bool(ok), key=key, input=desc,
             observed=[(np.asarray(o).tolist(), np.asarray(r).tolist()) for o, r in all_breaks][-2:],
             expected="first knot (0,0); original strictly increasing; rescaled non-decreasing")
    if not ok:
        return "bad-breaks"
    check_map_shape(rep, key, desc, rescaling, orig, resc, max_shape)

    nodes1, muts1 = moments(fit)
    # sample nodes untouched
    same = (np.array_equal(nodes0["mean"][fixed], nodes1["mean"][fixed])
            and np.array_equal(nodes0["variance"][fixed], nodes1["variance"][fixed]))
    for c in calls:
        if c[0] == "piecewise_scale_point_estimate" and c[1][0].size == fixed.size:
            same = same and np.array_equal(c[1][0][c[1][1]], c[2][c[1][1]])
    rep.case("sample-nodes-untouched", bool(same), key=key, input=desc,
             observed={"before": nodes0["mean"][fixed].tolist(), "after": nodes1["mean"][fixed].tolist()},
             expected="bit-identical")

    ancient = fixed & (fit.node_constraints[:, 0] > 0)  # sample nodes that are not at time 0
    bad = order_problems(nodes0["mean"], nodes1["mean"], lambda i, j: not (ancient[i] or ancient[j]))
    rep.case("posterior-mean-order-never-reversed", not bad, key=key, input=desc, observed=bad[:5],
             expected="no reversed pair", nontrivial=bool(np.any(nodes0["mean"][~fixed] != nodes1["mean"][~fixed])))
    if np.any(ancient):
        bad = order_problems(nodes0["mean"], nodes1["mean"], lambda i, j: bool(ancient[i] or ancient[j]))
        rep.case("known-historical-sample-order-reversed", not bad, key=key, input=desc, observed=bad[:5],
                 expected="no reversed pair (i, j, mean_i before, mean_j before, mean_i after, mean_j after)")

    # mapped mean
    scale = max(float(resc[-1]), 1e-300)
    o_l, r_l = [float(x) for x in orig], [float(x) for x in resc]
    bad = []
    for label, b, a, mask in (("node", nodes0["mean"], nodes1["mean"], ~fixed),
                              ("mutation", muts0["mean"], muts1["mean"], np.isfinite(muts0["mean"]))):
        for i in np.flatnonzero(mask):
            want = spec_map(o_l, r_l, float(b[i]))
            if want is None:
                if not (a[i] >= r_l[-1] - ORDER_TOL * scale):
                    bad.append((label, int(i), float(b[i]), float(a[i]), ">= last knot image"))
            elif not abs(a[i] - want) <= RTOL * scale:
                bad.append((label, int(i), float(b[i]), float(a[i]), want))
        if label == "mutation" and not np.array_equal(np.isnan(b), np.isnan(a)):
            bad.append((label, "undefined set changed"))
    rep.case("rescaled-posterior-has-mapped-mean", not bad, key=key, input=desc, observed=bad[:5],
             expected="new mean = interpolant(old mean)")

    if it == 1:
        # one iteration = one map: the posteriors must move exactly as the point estimates did
        pt = [c for c in calls if c[0] == "piecewise_scale_point_estimate" and c[1][0].size == fixed.size][0][2]
        dev = np.abs(nodes1["mean"][~fixed] - pt[~fixed])
        has_ancient = bool(np.any(fixed & (fit.node_constraints[:, 0] > 0)))
        rep.case("known-historical-sample-breakpoint-recovered-inexactly" if has_ancient else
                 "single-iteration-posterior-means-equal-rescaled-point-estimates",
                 bool(np.all(dev <= RTOL * scale)), key=key, input=desc,
                 observed={"posterior_mean": nodes1["mean"][~fixed].tolist(), "point_estimate": pt[~fixed].tolist()},
                 expected="equal (rtol 1e-9)")

    bad = shape_problems(nodes1["mean"], nodes1["variance"], ~fixed, max_shape) + \
        shape_problems(muts1["mean"], muts1["variance"], np.isfinite(muts0["mean"]), max_shape)
    rep.case("rescaled-shape-at-most-max-shape", not bad, key=key, input=desc, observed=bad[:5],
             expected=f"finite positive moments, shape <= {max_shape}")
    return "ok"


# ------------------------------------------------------------------ input space
def small_sim(seed, n, rec, ploidy=1):
    return inputs.sim(seed, n=n, L=1e3, rec=rec, mu=1e-4, ne=100, ploidy=ploidy)


def small_historical(seed):
    import msprime
    samples = [msprime.SampleSet(3, time=0, ploidy=1), msprime.SampleSet(2, time=20, ploidy=1)]
    ts = msprime.sim_ancestry(samples, sequence_length=1e3, recombination_rate=1e-5, population_size=100,
                              random_seed=seed + 3)
    return msprime.sim_mutations(ts, rate=1e-4, random_seed=seed + 11)


def mutation_pattern(shape_ts, which, rng):
    """Mutation counts on the non-root nodes of a single-tree input."""
    tree = shape_ts.first()
    nodes = [u for u in tree.nodes() if tree.parent(u) != -1]
    if which == 0:
        return {u: 2 for u in nodes}
    if which == 1:
        return {u: 1 + (3 * u) % 5 for u in nodes}
    counts = {u: int(rng.integers(0, 4)) for u in nodes}  # sparse: zeros allowed
    if sum(counts.values()) == 0:
        counts[nodes[0]] = 1
    return counts


def build_inputs(tier, seed, rng):
    """[(name, ts, mutation_rate, singletons_phased)]"""
    out = []
    thorough = tier == "thorough"
    leaves = (3, 4, 5) if thorough else (3, 4)
    s = 0
    for nl in leaves:
        for shape in inputs.all_tree_shapes(nl):
            base = inputs.tree_to_ts(shape)
            for which in ((0, 1, 2) if thorough else ((s % 3),)):
                ts = inputs.tree_to_ts(shape, mutations=mutation_pattern(base, which, rng))
                out.append((f"shape{nl}:{shape}:m{which}", ts, 0.1, True))
            s += 1
    nsim, nhist, ndip = (40, 6, 6) if thorough else (8, 1, 1)
    for i in range(nsim):
        n = 3 + i % (6 if thorough else 4)
        ts = small_sim(seed * 1000 + i, n, 0 if i % 3 == 0 else 1e-5)
        out.append((f"sim{i}", ts, 1e-4, True))
    for i in range(4 if thorough else 1):  # a few larger inputs (tens of trees, up to ~100 nodes)
        out.append((f"mid{i}", small_sim(seed * 1000 + 900 + i, 4 + i, 1e-4), 1e-4, True))
    for i in range(nhist):
        out.append((f"hist{i}", small_historical(seed * 1000 + i), 1e-4, True))
    for i in range(ndip):
        out.append((f"dip{i}", small_sim(seed * 1000 + 500 + i, 3, 1e-5, ploidy=2), 1e-4, False))
    return out


def pinned_cases():
    """Hand-built inputs that are always run with a fixed configuration (both tiers)."""
    # all mutations on one leaf branch: with one interval per gap between node times, some interval
    # carries no mutation (DESIGN 6-F7)
    shape = (((0, 3, 4), 2), 1)
    sparse = inputs.tree_to_ts(shape, mutations={2: 3})
    dense = inputs.tree_to_ts(shape, mutations={0: 4, 1: 9, 2: 3, 3: 1, 4: 2, 5: 6, 6: 2})
    return [("pinned-sparse", sparse, 0.1, True, (1000, 1, False, 1000.0)),
            ("pinned-sparse", sparse, 0.1, True, (1, 1, False, 1000.0)),
            ("pinned-dense", dense, 0.1, True, (1000, 3, True, 3.0)),
            ("pinned-dense", dense, 0.1, True, (2, 1, False, 1.5))]


ALL_CONFIGS = [(iv, it, sg) for iv in (1, 2, 3, 1000) for it in (1, 3) for sg in (False, True)]


def configs_for(tier, k):
    if tier == "thorough":  # all 16, max_shape rotating with input and configuration
        return [(iv, it, sg, (1000.0, 3.0, 1.5)[(k + j) % 3]) for j, (iv, it, sg) in enumerate(ALL_CONFIGS)]
    out = []
    for j in range(8):  # 8 of the 16, rotating with the input number so that all occur
        iv, it, sg = ALL_CONFIGS[(3 * k + 5 * j) % 16]
        out.append((iv, it, sg, (1000.0, 3.0, 1.5)[(k + j) % 3]))
    return list(dict.fromkeys(out))


def synthetic_area_cases(tier):
    """Exhaustive small edge tables: node 0 at time 0, other node times over a small alphabet (ties and
    reversed edges included), all edge sets up to a size bound; fixed distinct weights per edge slot."""
    import itertools
    nn, alphabet, max_edges = (5, (0, 1, 2, 3), 3) if tier == "thorough" else (4, (0, 1, 2, 3), 2)
    if tier == "thorough":
        alphabet = (0, 1, 2.5)
    pairs = [(p, c) for p in range(nn) for c in range(nn) if p != c]
    for times in itertools.product(alphabet, repeat=nn - 1):
        nodes_time = (0.0,) + tuple(float(t) for t in times)
        for m in range(0, max_edges + 1):
            for es in itertools.combinations(pairs, m):
                lik = [[float(1 + 2 * e), float(3 + e * e) * 0.5] for e in range(m)]
                yield nodes_time, lik, [p for p, _ in es], [c for _, c in es]


def run_end_to_end(rep, tsdate, name, ts, mu, phased, cfg, key):
    iv, it, seg, max_shape = cfg
    desc = {"input": name, "ts": bounded_api.ts_to_json(ts), "mutation_rate": mu, "singletons_phased": phased,
            "rescaling_intervals": iv, "rescaling_iterations": it, "match_segregating_sites": seg,
            "max_shape": max_shape}
    kw = dict(mutation_rate=mu, max_iterations=5, match_segregating_sites=seg, max_shape=max_shape,
              singletons_phased=phased, return_fit=True)
    try:
        ts0, fit0 = tsdate.variational_gamma(ts, rescaling_intervals=iv, rescaling_iterations=0, **kw)
        ts1, fit1 = tsdate.variational_gamma(ts, rescaling_intervals=iv, rescaling_iterations=it, **kw)
    except Exception as ex:  # noqa: BLE001
        if isinstance(ex, AssertionError) and "Use fewer rescaling intervals" in str(ex):
            rep.case("known-mutation-free-interval-raises-assertion", False, key=key, input=desc,
                     observed=f"AssertionError: {ex}", expected="no internal assertion")
        else:
            rep.case("end-to-end-order-samples-and-shape", False, key=key, input=desc,
                     observed=f"{type(ex).__name__}: {ex}", expected="returns")
        return
    n0, n1 = fit0.node_posteriors(), fit1.node_posteriors()
    m1 = fit1.mutation_posteriors()
    fixed = fit1.node_constraints[:, 0] == fit1.node_constraints[:, 1]
    bad = order_problems(n0["mean"], n1["mean"])
    if not (np.array_equal(n0["mean"][fixed], n1["mean"][fixed])
            and np.array_equal(ts1.nodes_time[fixed], ts.nodes_time[fixed])):
        bad.append(("sample nodes moved", n1["mean"][fixed].tolist()))
    bad += shape_problems(n1["mean"], n1["variance"], ~fixed, max_shape)
    bad += shape_problems(m1["mean"], m1["variance"], np.isfinite(m1["mean"]), max_shape)
    rep.case("end-to-end-order-samples-and-shape", not bad, key=key, input=desc, observed=bad[:5],
             expected="order kept, samples untouched, shape <= max_shape",
             nontrivial=bool(np.any(n0["mean"] != n1["mean"])))


def keep_strict_failures_visible(rep):
    """The protocol keeps only the first 20 failing cases.  Failing cases of known-* clauses are expected
    and numerous, so at most 2 of them per clause stay in that list (all are still counted in the clause
    totals); the first failing example of EVERY clause is also copied to the notes."""
    examples = {}
    plain_case = rep.case

    def case(clause, ok, key=None, input=None, observed=None, expected=None, nontrivial=True):  # noqa: A002
        before = len(rep.failures)
        plain_case(clause, ok, key=key, input=input, observed=observed, expected=expected, nontrivial=nontrivial)
        if not ok:
            if clause not in examples:
                examples[clause] = {"key": str(key), "input": input, "observed": observed, "expected": expected}
            if (clause.startswith("known-") and len(rep.failures) > before
                    and sum(1 for f in rep.failures if f["clause"] == clause) > 2):
                rep.failures.pop()

    rep.case = case
    return examples, plain_case


def run(req, rep):
    tier, seed = req["tier"], req["seed"]
    rng = np.random.default_rng(seed)
    import tsdate
    from tsdate import rescaling, variational

    thorough = tier == "thorough"
    rep.space = ("real ExpectationPropagation.rescale() on exhaustively enumerated single-tree shapes (with sampled "
                 "mutation counts) and seeded msprime simulations (incl. historical samples and unphased diploids) "
                 "x rescale_intervals x rescale_iterations x rescale_segsites x max_shape; mutational_area on the "
                 "observed calls and on exhaustively enumerated small edge tables; a few public-API runs")
    rep.bound = ("all leaf-labelled shapes with <=5 leaves x 3 mutation patterns, 56 simulations "
                 "(<=8 samples, L=1e3), 16 configurations each; synthetic tables: 5 nodes, times over {0,1,2.5}, "
                 "<=3 edges") if thorough else \
                ("all leaf-labelled shapes with <=4 leaves x 1 mutation pattern, 11 simulations (<=6 samples, L=1e3), "
                 "8 of 16 configurations each (all 16 occur); synthetic tables: 4 nodes, times over {0,1,2,3}, <=2 edges")
    rep.exhaustive = False

    examples, plain_case = keep_strict_failures_visible(rep)

    # --- synthetic mutational_area (exhaustive over the stated family)
    for n, (nt, lik, ep, ec) in enumerate(synthetic_area_cases(tier)):
        check_area(rep, f"area-syn|{n}", {"fn": "mutational_area", "nodes_time": list(nt), "likelihoods": lik,
                                          "parent": ep, "child": ec}, rescaling, nt,
                   np.array(lik).reshape(-1, 2), ep, ec)

    # --- real rescale step
    outcome = {}
    ep_failed = []
    all_inputs = build_inputs(tier, seed, rng)
    pinned = pinned_cases()
    work = [(name, ts, mu, phased, None) for name, ts, mu, phased in all_inputs] + \
        [(name, ts, mu, phased, [cfg]) for name, ts, mu, phased, cfg in pinned]
    sizes = {"max_nodes": 0, "max_edges": 0, "max_trees": 0, "max_mutations": 0}
    for k, (name, ts, mu, phased, forced) in enumerate(work):
        for f, v in (("max_nodes", ts.num_nodes), ("max_edges", ts.num_edges), ("max_trees", ts.num_trees),
                     ("max_mutations", ts.num_mutations)):
            sizes[f] = max(sizes[f], int(v))
        try:
            fit = variational.ExpectationPropagation(ts, mutation_rate=mu, singletons_phased=phased)
            fit.infer(ep_iterations=5, max_shape=1000.0, rescale_intervals=0, rescale_iterations=0,
                      regularise=True, rescale_segsites=False)
        except Exception as ex:  # EP itself is out of scope here (C05/C35)
            ep_failed.append((name, f"{type(ex).__name__}: {ex}"))
            continue
        snap = {"node_posterior": fit.node_posterior.copy(), "mutation_posterior": fit.mutation_posterior.copy(),
                "edge_likelihoods": fit.edge_likelihoods.copy(),
                "sizebiased_likelihoods": fit.sizebiased_likelihoods.copy()}
        tsj = bounded_api.ts_to_json(ts)
        for cfg in (forced or configs_for(tier, k)):
            desc = {"input": name, "ts": tsj, "mutation_rate": mu, "singletons_phased": phased, "ep_iterations": 5,
                    "rescale_intervals": cfg[0], "rescale_iterations": cfg[1], "rescale_segsites": cfg[2],
                    "max_shape": cfg[3]}
            res = run_rescale_case(rep, variational, rescaling, fit, snap, cfg, f"{name}|{cfg}", desc)
            outcome[res] = outcome.get(res, 0) + 1

    # --- public API, black box
    e2e = [x for x in all_inputs if x[0].startswith(("sim", "hist", "dip"))][: (10 if thorough else 2)]
    e2e_cfgs = [(2, 1, False, 1000.0), (3, 3, True, 3.0), (1000, 1, False, 1000.0), (1, 2, True, 1.5)]
    for name, ts, mu, phased in e2e:
        for cfg in e2e_cfgs[: (4 if thorough else 2)]:
            run_end_to_end(rep, tsdate, name, ts, mu, phased, cfg, f"e2e|{name}|{cfg}")

    rep.case = plain_case
    rep.notes.append({"first_failing_example_per_clause": examples})
    rep.notes.append({"rescale_outcomes": outcome, "inputs": len(work), "sizes": sizes, "ep_failed": ep_failed[:10]})


if __name__ == "__main__":
    bounded_api.main(run)
