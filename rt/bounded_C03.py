"""
Bounded stand-in for C03 -- "Sample times are kept, except for the minimal push above dated children".

Contract clauses (evaluated on the tree sequence returned by the real tsdate.date, one obligation each):
  childless-sample-keeps-exact-input-time   every sample node that is the parent of no edge has
                                            out.time == in.time  (bitwise-equal doubles)
  sample-never-moved-younger                every sample node has out.time >= in.time
  sample-with-descendants-moved-minimally   every sample node that is the parent of some edge has
                                            out.time == max(in.time, B(max over its child edges of out.time[child]))
                                            where B(x) is the least double y with  y > x  and  y >= fl(x + mbl)
                                            ("exactly as far as needed ... and no further": the two C01 constraints
                                            define "needed"; mbl None = documented default 1e-8)
  constrain_ages:...                        the same three clauses evaluated directly on the real
                                            util.constrain_ages (the function that moves nodes), with adversarial
                                            unconstrained ages (random, ties, reversed, valid) in which the sample
                                            nodes carry their tree-sequence times, max_iterations in {0, 1, 3, 100}.
All comparisons are exact (==, >=) on doubles; no tolerance: the statement says "exact input times" and "no further".
B is computed from its definition (fl(x+mbl), else the next double above x), not from tsdate code.

Input space (deterministic given the seed):
  * the shared suite of rt.bounded_C01.suite (all tree shapes with 3-4 leaves [thorough: 5], haploid/diploid sims,
    ancient leaf samples, internal sample nodes, polytomy, multiroot, unary, [tsinfer-inferred in thorough]) dated with all
    accepting methods: exercises the childless clause for every method;
  * dedicated inputs with samples that have descendants: msprime sims (4..8 samples, 1..~10 trees) in which 1..3
    internal nodes (incl. parent-child chains, roots) are flagged as samples, ancient-sample sims with
    additionally flagged ancestors; each dated with variational_gamma (the only method accepting non-zero sample
    times) with the mutation rate mis-specified by a factor in {1, 0.1, 0.02} (children's posterior means overshoot
    the fixed sample time, so the push really happens) or {10, 50} (parents of ancient samples are dated younger
    than the sample, so the least-squares phase meets fixed children) x constr_iterations in {None, 0, 1, 3, 100}
    x min_branch_length in {None, 1e-3, 5, 50}(x scale) x 2 time scales of {1e-3, 1, 1e6, 1e12}.
  quick: ~53 suite inputs x accepting methods (1 option draw) + 16 dedicated inputs x 2 scales x half of the
         (4 rate factors x 5 constr_iterations) grid, one min_branch_length each (~430 date() calls) + 320 direct
         constrain_ages calls (8 inputs x 2 scales x 5 age vectors x 2 epsilons x max_iterations {0, 3});
  thorough: 5-leaf shapes, 4x the shared simulations, inferred inputs; 32 dedicated inputs x all 4 scales x full
         (4-5 rate factors x 5 constr_iterations) grid x 2 min_branch_length values (~5 800 + ~1 700 date() calls) +
         ~3 800 direct calls (max_iterations {0, 1, 100}).
Not exhaustive (seeded sampling), bound as stated in rep.bound.

NOT covered: discrete methods with non-contemporaneous samples (rejected by tsdate); inputs above ~40 nodes; the claim
is relative to the children's OUTPUT times, so how far children themselves move is not examined here (C27).
"""
import logging

import numpy as np
import tskit

from rt import bounded_api, inputs
from rt.bounded_C01 import (Case, _ancient_sim, _mark_internal_samples, _sim, call_date, describe, method_configs,
                            suite)

DEFAULT_MBL = 1e-8


# ---------------------------------------------------------------------------------------------------- oracle
def least_allowed_parent(x, mbl):
    """B(x): least double strictly above x that is also >= fl(x + mbl)."""
    x = np.float64(x)
    y = x + np.float64(mbl)
    if not y > x:
        y = np.nextafter(x, np.inf)
    return y


def expected_sample_times(ts, t_in, t_out, mbl):
    """{sample id: (has_children, expected out time)} from the statement."""
    exp = {}
    oldest_child = {}
    for p, c in zip(ts.edges_parent, ts.edges_child):
        oldest_child[int(p)] = max(oldest_child.get(int(p), -np.inf), t_out[c])
    for s in ts.samples():
        s = int(s)
        if s in oldest_child:
            exp[s] = (True, max(np.float64(t_in[s]), least_allowed_parent(oldest_child[s], mbl)))
        else:
            exp[s] = (False, np.float64(t_in[s]))
    return exp


def check(rep, prefix, ts, t_in, t_out, mbl, key, desc):
    exp = expected_sample_times(ts, t_in, t_out, mbl)
    bad_leaf, bad_younger, bad_push, pushed = [], [], [], 0
    n_leaf = n_anc = 0
    for s, (has_children, e) in exp.items():
        o = np.float64(t_out[s])
        if o < t_in[s]:
            bad_younger.append((s, float(t_in[s]), float(o)))
        if has_children:
            n_anc += 1
            pushed += int(o != t_in[s])
            if not o == e:
                bad_push.append((s, float(t_in[s]), float(o), float(e)))
        else:
            n_leaf += 1
            if not o == e:
                bad_leaf.append((s, float(t_in[s]), float(o)))
    rep.case(prefix + "childless-sample-keeps-exact-input-time", not bad_leaf, key=key, input=desc,
             observed=bad_leaf[:5], expected="out.time == in.time", nontrivial=n_leaf > 0)
    rep.case(prefix + "sample-never-moved-younger", not bad_younger, key=key, input=desc, observed=bad_younger[:5],
             expected="out.time >= in.time")
    if n_anc:
        rep.case(prefix + "sample-with-descendants-moved-minimally", not bad_push, key=key, input=desc,
                 observed=bad_push[:5], expected="(sample, in, out, max(in, B(oldest child out)))")
    return n_anc, pushed


# ---------------------------------------------------------------------------------------------------- inputs
def dedicated_cases(seed, tier):
    rng = np.random.default_rng([seed, 303])
    out = []
    reps = 2 if tier == "thorough" else 1
    for r in range(reps):
        s = seed * 1000 + 31 * r
        for i in range(8):
            base = _sim(s + i, n=4 + i % 5, L=150, rec=(0 if i % 2 == 0 else 3e-4), mu=8e-4)
            out.append(Case(f"anc-sample{r}.{i}", _mark_internal_samples(base, rng, k=1 + i % 3), mu=8e-4, ne=100.0))
        for i in range(4):
            base = _ancient_sim(s + 20 + i, n0=3, n1=1 + i % 2, t1=15.0, rec=(0 if i % 2 else 2e-4))
            out.append(Case(f"ancient+anc{r}.{i}", _mark_internal_samples(base, rng, k=1 + i % 2), mu=5e-4, ne=100.0))
        for i in range(2):  # the root itself is a sample
            base = _sim(s + 30 + i, n=4 + i, L=150, rec=0, mu=8e-4)
            tables = base.dump_tables()
            flags = tables.nodes.flags
            flags[base.first().root] |= tskit.NODE_IS_SAMPLE
            tables.nodes.flags = flags
            out.append(Case(f"root-sample{r}.{i}", tables.tree_sequence(), mu=8e-4, ne=100.0))
        for i in range(2):  # parent-child chain of sample nodes
            base = _sim(s + 40 + i, n=5 + i, L=150, rec=0, mu=8e-4)
            t = base.first()
            chain = [u for u in t.nodes() if not t.is_sample(u) and t.parent(u) != tskit.NULL
                     and t.parent(t.parent(u)) != tskit.NULL]
            tables = base.dump_tables()
            flags = tables.nodes.flags
            if chain:
                flags[chain[0]] |= tskit.NODE_IS_SAMPLE
                flags[t.parent(chain[0])] |= tskit.NODE_IS_SAMPLE
            tables.nodes.flags = flags
            out.append(Case(f"sample-chain{r}.{i}", tables.tree_sequence(), mu=8e-4, ne=100.0))
    return [c for c in out if c.ts.num_mutations > 0]


def direct(rep, cases, rng, thorough):
    import tsdate.util
    n = 0
    for case in cases:
        ts0 = case.ts
        is_sample = (ts0.nodes_flags & tskit.NODE_IS_SAMPLE) != 0
        for scale in ((1e-3, 1.0, 1e6, 1e12) if thorough else (1.0, 1e12)):
            ts = ts0 if scale == 1.0 else inputs.scale_times(ts0, scale)
            base = ts.nodes_time
            top = max(float(base.max()), scale)
            variants = {
                "random": np.where(is_sample, base, rng.uniform(0, 2 * top, size=base.size)),
                "ties": np.where(is_sample, base, top),
                "reversed": np.where(is_sample, base, top - base),
                "inflated": np.where(is_sample, base, base * 10),
                "valid": base.copy(),
            }
            for vname, times in variants.items():
                for eps in (1e-8, 5.0 * scale):
                    for iters in ((0, 1, 100) if thorough else (0, 3)):
                        key = f"direct|{case.name}|x{scale:g}|{vname}|eps={eps:g}|it={iters}"
                        desc = {"function": "tsdate.util.constrain_ages", "case": case.name, "time_scale": scale,
                                "nodes_time": times.tolist(), "epsilon": eps, "max_iterations": iters,
                                "ts": bounded_api.ts_to_json(ts)}
                        n += 1
                        try:
                            out = tsdate.util.constrain_ages(ts, times.astype(np.float64), eps, iters)
                        except Exception as e:  # noqa: BLE001  precondition holds (samples carry valid ts times)
                            rep.case("constrain_ages:returns-without-internal-error", False, key=key, input=desc,
                                     observed=f"{type(e).__name__}: {e}", expected="constrained ages")
                            continue
                        rep.case("constrain_ages:returns-without-internal-error", True, key=key, input=desc)
                        check(rep, "constrain_ages:", ts, base, out, eps, key, desc)
    return n


def run(req, rep):
    tier, seed = req["tier"], int(req["seed"])
    thorough = tier == "thorough"
    rng = np.random.default_rng([seed, 3])
    logging.getLogger("tsdate").setLevel(logging.ERROR)
    rep.space = ("real tsdate.date(): shared suite (all methods; childless samples) + sims with internal/root/chained/"
                 "ancient sample nodes (variational_gamma) x mis-specified mutation rate x constr_iterations x "
                 "min_branch_length x time scale; plus direct util.constrain_ages calls with adversarial ages")
    rep.exhaustive = False
    raised, calls, anc_cases, pushed_cases = {}, 0, 0, 0

    def one(case, method, mu, ne, kw, scale, ts):
        nonlocal calls, anc_cases, pushed_cases
        calls += 1
        out, err = call_date(ts, method, mu, ne, **kw)
        if err is not None:
            raised[err[:70]] = raised.get(err[:70], 0) + 1
            return
        key = f"{case.name}|{method}|x{scale:g}|mu={mu:g}|{sorted(kw.items())}"
        mbl = kw.get("min_branch_length", DEFAULT_MBL)
        n_anc, pushed = check(rep, "", ts, ts.nodes_time, out.nodes_time, mbl, key,
                              describe(case, method, mu, ne, kw, scale))
        anc_cases += int(n_anc > 0)
        pushed_cases += int(pushed > 0)

    # (a) shared suite, every accepting method
    shared = suite(seed, tier, want_inferred=thorough)
    for ci, case in enumerate(shared):
        for method in case.methods():
            for j, kw in enumerate(method_configs(case, method, rng, 2 if thorough else 1)):
                it = [None, 0, 3, 100][(ci + j) % 4]
                if it is not None:
                    kw["constr_iterations"] = it
                if (ci + j) % 3 == 0:
                    kw["min_branch_length"] = [1e-3, 5.0][(ci + j) % 2]
                one(case, method, case.mu, case.ne, kw, 1.0, case.ts)
    # (b) dedicated inputs: samples with descendants
    ded = dedicated_cases(seed, tier)
    all_scales = (1e-3, 1.0, 1e6, 1e12)
    for ci, case in enumerate(ded):
        scales = all_scales if thorough else (1.0, all_scales[ci % 4])
        for scale in dict.fromkeys(scales):
            ts = case.ts if scale == 1.0 else inputs.scale_times(case.ts, scale)
            for fi, factor in enumerate((1.0, 0.1, 0.02, 10.0, 50.0)[:5 if thorough and ci % 2 else 4]):
                for ii, it in enumerate((None, 0, 1, 3, 100)):
                    if not thorough and (ci + fi + ii + (scale != 1.0)) % 2:
                        continue  # quick: half of the (rate factor, constr_iterations) grid, rotating over inputs
                    mbls = (None, 1e-3 * scale, 5.0 * scale, 50.0 * scale)
                    for mbl in ((mbls[(ci + fi + ii) % 4], mbls[(ci + fi + ii + 2) % 4]) if thorough
                                else (mbls[(ci + fi + ii) % 4],)):
                        kw = {}
                        if it is not None:
                            kw["constr_iterations"] = it
                        if mbl is not None:
                            kw["min_branch_length"] = mbl
                        if factor > 1:  # the default 1000 intervals mostly trips the known rescaling assertion here
                            kw["rescaling_intervals"] = [0, 3][(ci + ii) % 2]
                        elif (ci + fi + ii) % 4:  # default (1000 intervals) in a quarter of the calls only
                            kw["rescaling_intervals"] = [3, 0, 5][(ci + fi + ii) % 3]
                        if not thorough or (ci + fi) % 2:
                            kw["max_iterations"] = 5  # fewer EP sweeps: the property does not depend on convergence
                        one(case, "variational_gamma", case.mu * factor / scale, case.ne, kw, scale, ts)
    ndirect = direct(rep, ded if thorough else ded[::2], np.random.default_rng([seed, 4]), thorough)
    rep.bound = (f"{len(shared)} shared + {len(ded)} dedicated inputs (<= "
                 f"{max(c.ts.num_nodes for c in shared + ded)} nodes), {calls} date() calls, {ndirect} direct "
                 f"constrain_ages calls")
    rep.notes.append(f"date() calls that raised (not cases of this property): {raised}")
    rep.notes.append(f"returned date() calls with a sample that has descendants: {anc_cases}; of these with at least "
                     f"one such sample actually pushed older: {pushed_cases}")


if __name__ == "__main__":
    bounded_api.main(run)
