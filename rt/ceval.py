"""
Concrete evaluation of contract clauses (the same strings the symbolic engine interprets).

Runs under /venv/bin/python (numpy available, z3 not).  Used for replay of solver models on the
real function, for the function-level bounded stand-in, and as the encoder cross-check.
"""
import ast
import math

import numpy as np


class _Rewrite(ast.NodeTransformer):
    """forall/exists/implies/old/ite -> plain python with lazy evaluation."""

    approx = False  # mode 'real' contracts: float comparisons up to rounding (the proof is about reals)

    def visit_Compare(self, node):
        self.generic_visit(node)
        if not self.approx or len(node.ops) != 1:
            return node
        fn = {ast.Eq: "__eq", ast.LtE: "__le", ast.GtE: "__ge", ast.Lt: "__lt", ast.Gt: "__gt", ast.NotEq: None}.get(type(node.ops[0]))
        if fn is None:
            return node
        return ast.Call(func=ast.Name(id=fn, ctx=ast.Load()), args=[node.left, node.comparators[0]], keywords=[])

    def visit_Call(self, node):
        self.generic_visit(node)
        f = node.func.id if isinstance(node.func, ast.Name) else None
        if f in ("forall", "exists"):
            var, lo, hi, body = node.args
            gen = ast.GeneratorExp(
                elt=body,
                generators=[ast.comprehension(target=ast.Name(id=var.id, ctx=ast.Store()),
                                              iter=ast.Call(func=ast.Name(id="range", ctx=ast.Load()),
                                                            args=[_int(lo), _int(hi)], keywords=[]),
                                              ifs=[], is_async=0)])
            return ast.Call(func=ast.Name(id="all" if f == "forall" else "any", ctx=ast.Load()),
                            args=[gen], keywords=[])
        if f == "implies":
            a, b = node.args
            return ast.BoolOp(op=ast.Or(), values=[ast.UnaryOp(op=ast.Not(), operand=_bool(a)), _bool(b)])
        if f == "ite":
            c, a, b = node.args
            return ast.IfExp(test=c, body=a, orelse=b)
        if f == "old":
            (x,) = node.args
            if isinstance(x, ast.Name):
                return ast.Name(id="__old_" + x.id, ctx=ast.Load())
            raise ValueError("old() of a non-name")
        return node

    def visit_Name(self, node):
        if node.id == "inf":
            return ast.Attribute(value=ast.Name(id="math", ctx=ast.Load()), attr="inf", ctx=ast.Load())
        return node


def _int(n):
    return ast.Call(func=ast.Name(id="int", ctx=ast.Load()), args=[n], keywords=[])


def _bool(n):
    return ast.Call(func=ast.Name(id="bool", ctx=ast.Load()), args=[n], keywords=[])


def compile_clause(expr, approx=False):
    tree = ast.parse(expr, mode="eval")
    rw = _Rewrite()
    rw.approx = approx
    tree = rw.visit(tree)
    ast.fix_missing_locations(tree)
    return compile(tree, "<clause>", "eval")


def base_env():
    def feq(a, b):
        return bool(a == b)

    def same(a, b):
        a, b = np.float64(a), np.float64(b)
        return bool((np.isnan(a) and np.isnan(b)) or (a == b and np.signbit(a) == np.signbit(b)))

    return {"math": math, "np": np, "isfinite": lambda x: bool(np.isfinite(x)),
            "isnan": lambda x: bool(np.isnan(x)), "feq": feq, "same": same, "abs": abs, "len": len,
            "min": min, "max": max, "range": range, "all": all, "any": any, "int": int, "bool": bool,
            "float": float, "True": True, "False": False, "NULL": -1}


def _close(a, b):
    if isinstance(a, (bool, np.bool_)) or isinstance(b, (bool, np.bool_)):
        return bool(a) == bool(b)
    if isinstance(a, (int, np.integer)) and isinstance(b, (int, np.integer)):
        return a == b
    a, b = float(a), float(b)
    return a == b or abs(a - b) <= 1e-9 * max(abs(a), abs(b)) + 1e-12


def eval_clause(expr, env, approx=False):
    code = compile_clause(expr, approx)
    env = dict(env)
    env.update({"__eq": _close, "__le": lambda a, b: a <= b or _close(a, b), "__ge": lambda a, b: a >= b or _close(a, b),
                "__lt": lambda a, b: a < b or _close(a, b), "__gt": lambda a, b: a > b or _close(a, b)})
    with np.errstate(all="ignore"):
        g = dict(env)
        g["__builtins__"] = {}
        return bool(eval(code, g))  # noqa: S307 (contract language only; names resolve in one scope)


def make_env(args, old_args, result=None, spec_src=None, consts=None):
    env = base_env()
    env.update(consts or {})
    env.update(args)
    for k, v in old_args.items():
        env["__old_" + k] = v
    if result is not None or True:
        env["result"] = result
    for name, src in (spec_src or {}).items():
        fn = eval(src, {"np": np, "math": math})  # noqa: S307
        env[name] = (lambda f: (lambda *a: f(env, *a)))(fn)
    return env
