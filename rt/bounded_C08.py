"""
Bounded stand-in (G4) for C08 -- "dates depend only on topology, sample times and mutation placement".

Contract evaluated on the REAL tsdate entry point `tsdate.date` (all three methods):

    let ts' = perturb(ts) where the perturbation leaves edges, node times, the sample flag of every node, and
              every mutation's (position, node) untouched
        A = date(ts, <options>),  B = date(ts', <the same options>)
    then B.nodes_time, B.mutations_time, the mutation -> node map, the fit object's posteriors, and (whenever both
    outputs carry them) the metadata fields "mn"/"vr" are IDENTICAL to those of A (bit for bit: the statement says
    "do not change" / "dated identically", and no arithmetic operand differs between the two runs).

Clauses (one obligation each; each evaluates all of the observables above)
    metadata-ignored                  raw-bytes metadata without schema on nodes/sites/mutations/individuals/
                                      populations and top level; permissive-JSON-schema metadata with extra keys on
                                      nodes/sites/mutations/top level (then mn/vr are compared too); edge metadata
                                      (bytes or JSON) for the variational method
    allele-states-ignored             ancestral and derived states replaced by random strings (empty, multi-letter,
                                      derived == ancestral included)
    population-information-ignored    population table grown/replaced, nodes.population randomised
    monomorphic-sites-ignored         extra sites without mutations inserted at new positions
    provenance-ignored                provenance records cleared or added
    individuals-ignored-when-phased   individuals table cleared / re-drawn and nodes.individual randomised
                                      (only for runs with singletons_phased=True, the default; also for the discrete
                                      methods)
    agreeing-inputs-dated-identically other columns outside the statement's list: mutation times (known <-> unknown),
                                      non-sample bits of node flags, input time_units; and all perturbations at once
    same-outcome                      both calls succeed, or both raise the same exception type
    known-edge-metadata-makes-discrete-methods-raise-LibraryError
                                      edge metadata (bytes or JSON) x inside_outside / maximization: same contract as
                                      metadata-ignored + same-outcome, isolated because the real code violates it --
                                      see "Known defect" below.  Every other case stays under the strict clauses.

Oracle: the statement itself; B's observables are expected to equal A's.  Perturbations are applied here to the
tables with tskit only.  A perturbation is checked to preserve the statement's invariants (edges, node times, sample
flags, mutation positions and nodes) before it is used -- a violated invariant is a checker error, not a case.

Input space
    inputs  : msprime simulations (3..7 haploid samples, 1..~6 trees, 5..80 mutations, <= 24 nodes); rooted 4-leaf
              shapes incl. polytomies with mutations; diploid individuals; historical samples (variational only).
    configs : variational_gamma {plain, match_segregating_sites, no rescaling}; inside_outside {log, linear};
              maximization {log}; thorough adds maximization linear, user timepoints, two-epoch population size,
              variational max_shape=20 / regularise_roots=False.  Diploid inputs add variational with
              singletons_phased=False for every perturbation that leaves individuals alone.
    perturbations: 13 kinds listed above (four metadata kinds, alleles, populations, monomorphic sites, provenance,
              individuals, mutation times, flag bits, time units, everything), random content drawn from seed.
    quick   : 12 inputs x 6 configs x 13 perturbations (1 draw each)          (not exhaustive)
    thorough: 36 inputs x 11 configs x 13 perturbations x 2 draws             (not exhaustive)

Known defect isolated in the known- clause (found by this check on the unchanged /repo)
    With ANY non-empty edge metadata, inside_outside and maximization (and tsdate.build_prior_grid) raise
    tskit.LibraryError TSK_ERR_CANT_PROCESS_EDGES_WITH_METADATA: prior.MixturePrior.__init__ calls
    util.reduce_to_contemporaneous -> ts.simplify(...), which tskit refuses for edges carrying metadata.  The same
    input without the edge metadata is dated normally, so the output depends on metadata (and the failure is an
    internal library error, not a ValueError).  variational_gamma is unaffected.

Tolerance: none (exact equality, NaNs in equal places).

NOT covered: whether mn/vr CAN be written under the perturbed metadata schema (that is C32; with schema-less bytes
metadata the output legitimately has no mn/vr, so only times and fit posteriors are compared there); struct-codec
schemas; singletons_phased=False with changed individuals (individuals are then relevant by the statement);
migrations and reference sequences; inputs beyond 24 nodes; JIT-compiled kernels.
"""
import json
import logging
import warnings

import numpy as np
import tskit

from rt import bounded_api, inputs

warnings.filterwarnings("ignore")
logging.disable(logging.CRITICAL)

MU_SIM = 5e-5


# ---------------------------------------------------------------------------------------------- inputs
def small_inputs(rng, n_sim, n_shape, n_dip, n_hist):
    """List of dicts: name, ts, mu, ne, kind.  Deterministic given rng."""
    import msprime

    out = []
    tries = 0
    while sum(1 for x in out if x["kind"] == "haploid") < n_sim and tries < 50 * n_sim:
        tries += 1
        s = int(rng.integers(1, 2**31 - 1))
        n = int(rng.integers(3, 8))
        rec = [0.0, 3e-6, 6e-6][int(rng.integers(0, 3))]
        ts = inputs.sim(s % 10**6, n=n, L=1e3, rec=rec, mu=MU_SIM, ne=100)
        if ts.num_mutations < 5 or ts.num_mutations > 80 or ts.num_nodes > 24:
            continue
        out.append({"name": f"sim(seed={s % 10**6},n={n},rec={rec})", "ts": ts, "mu": MU_SIM, "ne": 100.0,
                    "kind": "haploid"})
    shapes = list(inputs.all_tree_shapes(4))
    for idx in rng.permutation(len(shapes))[:n_shape]:
        shape = shapes[int(idx)]
        n_nodes = 4 + _count_internal(shape)
        muts = {u: int(rng.integers(0, 4)) for u in range(n_nodes - 1)}
        muts[0] = max(muts[0], 1)
        ts = inputs.tree_to_ts(shape, sequence_length=10.0, mutations=muts)
        out.append({"name": f"shape{shape}/muts{sorted(muts.items())}", "ts": ts, "mu": 0.01, "ne": 20.0,
                    "kind": "shape"})
    tries = 0
    while sum(1 for x in out if x["kind"] == "diploid") < n_dip and tries < 50:
        tries += 1
        s = int(rng.integers(1, 10**6))
        ts = inputs.sim(s, n=int(rng.integers(2, 4)), L=1e3, rec=3e-6, mu=MU_SIM, ne=100, ploidy=2)
        if ts.num_mutations < 5 or ts.num_mutations > 80 or ts.num_nodes > 24:
            continue
        out.append({"name": f"diploid(seed={s})", "ts": ts, "mu": MU_SIM, "ne": 100.0, "kind": "diploid"})
    tries = 0
    while sum(1 for x in out if x["kind"] == "historical") < n_hist and tries < 50:
        tries += 1
        s = int(rng.integers(1, 10**6))
        samples = [msprime.SampleSet(3, time=0, ploidy=1), msprime.SampleSet(2, time=30, ploidy=1)]
        ts = msprime.sim_ancestry(samples, sequence_length=1e3, recombination_rate=3e-6, population_size=100,
                                  random_seed=s)
        ts = msprime.sim_mutations(ts, rate=MU_SIM, random_seed=s + 1)
        if ts.num_mutations < 5 or ts.num_mutations > 80 or ts.num_nodes > 24:
            continue
        out.append({"name": f"historical(seed={s})", "ts": ts, "mu": MU_SIM, "ne": 100.0, "kind": "historical"})
    return out


def _count_internal(shape):
    return 0 if isinstance(shape, int) else 1 + sum(_count_internal(c) for c in shape)


# ---------------------------------------------------------------------------------------------- configurations
def configs(kind, ne, full):
    """(label, method, kwargs, prior_spec)"""
    vg = {"rescaling_intervals": 3, "min_branch_length": 1e-6}
    disc = {"eps": 1e-6, "min_branch_length": 1e-6, "population_size": ne}
    tp = np.array([0.0, 0.1, 0.3, 0.7, 1.2, 2.0, 3.5, 6.0, 10.0]) * ne
    hist = {"population_size": [ne, 3.0 * ne], "time_breaks": [0.8 * ne]}
    cfgs = [
        ("vg/plain", "variational_gamma", dict(vg), None),
        ("vg/segsites", "variational_gamma", dict(vg, match_segregating_sites=True), None),
        ("vg/no-rescale", "variational_gamma", dict(vg, rescaling_iterations=0), None),
    ]
    if full:
        cfgs += [("vg/max_shape20", "variational_gamma", dict(vg, max_shape=20), None),
                 ("vg/no-regularise", "variational_gamma", dict(vg, regularise_roots=False), None)]
    if kind == "diploid":  # individuals matter here, so the individual-changing perturbations are skipped (driver)
        cfgs += [("vg/unphased", "variational_gamma", dict(vg, singletons_phased=False), None)]
    if kind != "historical":  # the discrete methods reject non-contemporary samples
        cfgs += [("io/log", "inside_outside", dict(disc), None),
                 ("io/lin", "inside_outside", dict(disc, probability_space="linear"), None),
                 ("max/log", "maximization", dict(disc), None)]
        if full:
            cfgs += [("max/lin", "maximization", dict(disc, probability_space="linear"), None),
                     ("io/log/user-timepoints", "inside_outside", dict(eps=1e-3, min_branch_length=1e-6),
                      dict(timepoints=tp, prior_distribution="gamma", population_size=ne)),
                     ("io/log/two-epoch", "inside_outside", dict(disc, population_size=hist), None)]
    return cfgs


# ---------------------------------------------------------------------------------------------- perturbations
def _rand_bytes_list(rng, n, maxlen=6):
    return [rng.bytes(int(rng.integers(0, maxlen + 1))) for _ in range(n)]


def p_metadata_bytes(tables, rng):
    for name in ("nodes", "sites", "mutations", "individuals", "populations"):
        t = getattr(tables, name)
        t.metadata_schema = tskit.MetadataSchema(None)
        if t.num_rows:
            t.packset_metadata(_rand_bytes_list(rng, t.num_rows))
    tables.metadata_schema = tskit.MetadataSchema(None)
    tables.metadata = rng.bytes(5)


def p_metadata_json(tables, rng):
    schema = tskit.MetadataSchema({"codec": "json"})
    for name in ("nodes", "sites", "mutations"):
        t = getattr(tables, name)
        t.metadata_schema = schema
        rows = [json.dumps({"x": int(rng.integers(0, 100)), "tag": "q" * int(rng.integers(0, 4))}).encode()
                for _ in range(t.num_rows)]
        if t.num_rows:
            t.packset_metadata(rows)
    tables.metadata_schema = schema
    tables.metadata = {"note": int(rng.integers(0, 100))}


def p_edge_metadata_bytes(tables, rng):
    tables.edges.metadata_schema = tskit.MetadataSchema(None)
    tables.edges.packset_metadata([rng.bytes(int(rng.integers(1, 6))) for _ in range(tables.edges.num_rows)])


def p_edge_metadata_json(tables, rng):
    tables.edges.metadata_schema = tskit.MetadataSchema({"codec": "json"})
    tables.edges.packset_metadata([json.dumps({"x": int(rng.integers(0, 100))}).encode()
                                   for _ in range(tables.edges.num_rows)])


def p_alleles(tables, rng):
    alphabet = ["", "A", "C", "G", "T", "0", "1", "ACGT", "-", "N"]
    anc = [alphabet[int(rng.integers(0, len(alphabet)))] for _ in range(tables.sites.num_rows)]
    der = [alphabet[int(rng.integers(0, len(alphabet)))] for _ in range(tables.mutations.num_rows)]
    tables.sites.packset_ancestral_state(anc)
    tables.mutations.packset_derived_state(der)


def p_populations(tables, rng):
    tables.populations.metadata_schema = tskit.MetadataSchema(None)
    for _ in range(int(rng.integers(1, 4))):
        tables.populations.add_row(metadata=rng.bytes(3))
    npop = tables.populations.num_rows
    tables.nodes.population = rng.integers(-1, npop, size=tables.nodes.num_rows).astype(np.int32)


def p_monomorphic(tables, rng):
    existing = set(tables.sites.position.tolist())
    L = tables.sequence_length
    added = 0
    while added < 5:
        x = float(rng.uniform(0, L))
        if rng.random() < 0.5:
            x = float(np.floor(x))
        if x in existing or not (0 <= x < L):
            continue
        existing.add(x)
        tables.sites.add_row(position=x, ancestral_state="A")
        added += 1
    tables.sort()


def p_provenance(tables, rng):
    if tables.provenances.num_rows and rng.random() < 0.5:
        tables.provenances.clear()
    else:
        for k in range(2):
            tables.provenances.add_row(record=json.dumps({"software": {"name": f"x{int(rng.integers(0, 99))}"},
                                                          "k": k}),
                                       timestamp="2001-01-01T00:00:00")


def p_individuals(tables, rng):
    tables.individuals.clear()
    tables.individuals.metadata_schema = tskit.MetadataSchema(None)
    n = tables.nodes.num_rows
    if rng.random() < 0.3:
        tables.nodes.individual = np.full(n, -1, dtype=np.int32)
        return
    k = int(rng.integers(1, 5))
    for i in range(k):
        tables.individuals.add_row(flags=int(rng.integers(0, 8)), location=rng.uniform(0, 1, size=2),
                                   parents=[-1, -1] if i == 0 else [int(rng.integers(-1, i)), -1])
    ind = rng.integers(-1, k, size=n).astype(np.int32)
    tables.nodes.individual = ind


def p_mutation_times(tables, rng):
    if np.all(tskit.is_unknown_time(tables.mutations.time)):
        tables.build_index()
        tables.compute_mutation_times()
    else:
        tables.mutations.time = np.full(tables.mutations.num_rows, tskit.UNKNOWN_TIME)


def p_flag_bits(tables, rng):
    extra = (rng.integers(0, 2, size=tables.nodes.num_rows).astype(np.uint32) << 17) | \
            (rng.integers(0, 2, size=tables.nodes.num_rows).astype(np.uint32) << 20)
    tables.nodes.flags = tables.nodes.flags | extra


def p_time_units(tables, rng):
    tables.time_units = ["years", "uncalibrated", "generations", "ticks"][int(rng.integers(0, 4))]


def p_everything(tables, rng):
    for f in (p_alleles, p_populations, p_monomorphic, p_provenance, p_individuals, p_mutation_times, p_flag_bits,
              p_time_units, p_metadata_json):
        f(tables, rng)


PERTURBATIONS = [
    ("metadata-bytes", "metadata-ignored", p_metadata_bytes),
    ("metadata-json", "metadata-ignored", p_metadata_json),
    ("edge-metadata-bytes", "metadata-ignored", p_edge_metadata_bytes),
    ("edge-metadata-json", "metadata-ignored", p_edge_metadata_json),
    ("alleles", "allele-states-ignored", p_alleles),
    ("populations", "population-information-ignored", p_populations),
    ("monomorphic-sites", "monomorphic-sites-ignored", p_monomorphic),
    ("provenance", "provenance-ignored", p_provenance),
    ("individuals", "individuals-ignored-when-phased", p_individuals),
    ("mutation-times", "agreeing-inputs-dated-identically", p_mutation_times),
    ("flag-bits", "agreeing-inputs-dated-identically", p_flag_bits),
    ("time-units", "agreeing-inputs-dated-identically", p_time_units),
    ("everything", "agreeing-inputs-dated-identically", p_everything),
]


def perturb(ts, fn, rng):
    tables = ts.dump_tables()
    fn(tables, rng)
    tables.build_index()
    new = tables.tree_sequence()
    # the statement's invariants -- a perturbation that breaks them is a bug in this checker
    same = (np.array_equal(new.edges_left, ts.edges_left) and np.array_equal(new.edges_right, ts.edges_right)
            and np.array_equal(new.edges_parent, ts.edges_parent) and np.array_equal(new.edges_child, ts.edges_child)
            and np.array_equal(new.nodes_time, ts.nodes_time)
            and np.array_equal(new.nodes_flags & tskit.NODE_IS_SAMPLE, ts.nodes_flags & tskit.NODE_IS_SAMPLE)
            and np.array_equal(new.mutations_node, ts.mutations_node)
            and np.array_equal(new.sites_position[new.mutations_site], ts.sites_position[ts.mutations_site])
            and np.array_equal(new.samples(), ts.samples()) and new.sequence_length == ts.sequence_length)
    if not same:
        raise RuntimeError(f"checker error: perturbation {fn.__name__} changed data the model may read")
    return new


# ---------------------------------------------------------------------------------------------- running + observing
def run_date(ts, method, mu, kw, prior_spec):
    import tsdate

    kw = dict(kw)
    try:
        if prior_spec is not None:
            kw["priors"] = tsdate.build_prior_grid(ts, population_size=prior_spec["population_size"],
                                                   timepoints=prior_spec["timepoints"],
                                                   prior_distribution=prior_spec["prior_distribution"])
        out, fit = tsdate.date(ts, method=method, mutation_rate=mu, return_fit=True, record_provenance=False, **kw)
    except Exception as e:  # noqa: BLE001
        return "raise", type(e).__name__ + ": " + str(e)[:80]
    return "ok", observe(out, fit, method)


def _metadata_moments(rows, n):
    mn = np.full(n, np.nan)
    vr = np.full(n, np.nan)
    seen = False
    for i, row in enumerate(rows):
        md = row.metadata
        if isinstance(md, dict) and "mn" in md:
            mn[i] = md["mn"]
            vr[i] = md.get("vr", np.nan)
            seen = True
    return (mn, vr) if seen else (None, None)


def observe(out, fit, method):
    obs = {"nodes_time": out.nodes_time.copy(), "mutations_time": out.mutations_time.copy(),
           "mutations_node": out.mutations_node.copy(),
           "mutations_position": out.sites_position[out.mutations_site],
           "edges": np.column_stack([out.edges_left, out.edges_right, out.edges_parent, out.edges_child])}
    mn, vr = _metadata_moments(out.nodes(), out.num_nodes)
    if mn is not None:
        obs["node_metadata_mn"], obs["node_metadata_vr"] = mn, vr
    mn, vr = _metadata_moments(out.mutations(), out.num_mutations)
    if mn is not None:
        obs["mutation_metadata_mn"], obs["mutation_metadata_vr"] = mn, vr
    if method == "variational_gamma":
        npost, mpost = fit.node_posteriors(), fit.mutation_posteriors()
        obs["fit_node_mean"], obs["fit_node_variance"] = np.array(npost["mean"]), np.array(npost["variance"])
        obs["fit_mutation_mean"] = np.array(mpost["mean"])
        obs["fit_mutation_variance"] = np.array(mpost["variance"])
    elif method == "inside_outside":
        obs["fit_grid_timepoints"] = np.array(fit.posterior_grid.timepoints, dtype=float)
        obs["fit_grid_probabilities"] = np.array(fit.posterior_grid.grid_data, dtype=float)
    else:
        obs["fit_posterior_mean"] = np.array(fit.posterior_mean, dtype=float)
    return obs


METADATA_KEYS = ("node_metadata_mn", "node_metadata_vr", "mutation_metadata_mn", "mutation_metadata_vr")


KNOWN_EDGE_MD = "known-edge-metadata-makes-discrete-methods-raise-LibraryError"


def check_pair(rep, clause, key, desc, res_a, res_b, metadata_may_be_absent, known=None):
    ka, a = res_a
    kb, b = res_b
    same = (ka == kb) and (ka == "ok" or a.split(":")[0] == b.split(":")[0])
    clause = known or clause
    rep.case(known or "same-outcome", same, key=key, input=desc,
             observed={"a": ka if ka == "ok" else a, "b": kb if kb == "ok" else b},
             expected="both succeed or both raise the same exception type", nontrivial=(ka == "ok"))
    if not same or ka != "ok":
        return
    bad = {}
    for n, want in a.items():
        if n not in b:
            # mn/vr cannot be written into schema-less bytes metadata (C32's territory); anything else missing fails
            if not (n in METADATA_KEYS and metadata_may_be_absent):
                bad[n] = "missing in perturbed run"
            continue
        got = b[n]
        if got.shape != want.shape or not np.array_equal(got, want, equal_nan=True):
            diff = None
            if got.shape == want.shape:
                with np.errstate(all="ignore"):
                    diff = float(np.nanmax(np.abs(got - want) / np.where(want != 0, np.abs(want), 1.0)))
            bad[n] = {"observed": got.ravel()[:12], "expected": want.ravel()[:12], "max_rel_diff": diff}
    for n in b:
        if n not in a:
            bad[n] = "present only in perturbed run"
    rep.case(clause, not bad, key=key, input=desc, observed=bad if bad else "identical",
             expected="bit-identical to the unperturbed run")


# ---------------------------------------------------------------------------------------------- driver
class DeferKnown:
    """Report proxy: cases of known- clauses are emitted after all strict cases, so that the (bounded) failure
    list of the report shows a genuine new failure before it shows repetitions of a known defect."""

    def __init__(self, rep):
        self.rep, self.queue = rep, []

    def case(self, clause, ok, **kw):
        if clause.startswith("known-"):
            if not ok and sum(1 for q in self.queue if not q[1]) >= 5:
                kw = dict(kw, input={k: v for k, v in (kw.get("input") or {}).items() if k != "ts"})
            self.queue.append((clause, ok, kw))
        else:
            self.rep.case(clause, ok, **kw)

    def flush(self):
        for clause, ok, kw in self.queue:
            self.rep.case(clause, ok, **kw)
        self.queue = []


def run(req, rep):
    tier, seed = req["tier"], req["seed"]
    thorough = tier == "thorough"
    rng = np.random.default_rng(seed)
    if thorough:
        ins = small_inputs(rng, n_sim=22, n_shape=8, n_dip=4, n_hist=2)
        draws = 2
    else:
        ins = small_inputs(rng, n_sim=6, n_shape=3, n_dip=2, n_hist=1)
        draws = 1
    rep.space = ("tsdate.date on small tree sequences x method configurations x perturbations of data outside "
                 "{edges, node times, sample flags, mutation position/node}; perturbed run compared bit for bit "
                 "with the unperturbed run")
    rep.bound = (f"{len(ins)} inputs (<= 24 nodes, <= 80 mutations) x {'11' if thorough else '6'} configurations x "
                 f"{len(PERTURBATIONS)} perturbation kinds x {draws} random draw(s); seed {seed}")
    rep.exhaustive = False
    rep = DeferKnown(rep)
    for item in ins:
        ts, mu, ne, kind = item["ts"], item["mu"], item["ne"], item["kind"]
        variants = []
        for pname, clause, fn in PERTURBATIONS:
            for d in range(draws):
                pseed = int(rng.integers(0, 2**31 - 1))
                variants.append((pname, clause, d, pseed, perturb(ts, fn, np.random.default_rng(pseed))))
        for lab, method, kw, prior_spec in configs(kind, ne, thorough):
            base = run_date(ts, method, mu, kw, prior_spec)
            for pname, clause, d, pseed, ts_p in variants:
                if kw.get("singletons_phased") is False and pname in ("individuals", "everything"):
                    continue  # outside the statement: with unphased singletons individuals are model input
                res = run_date(ts_p, method, mu, kw, prior_spec)
                key = f"{item['name']}|{lab}|{pname}#{d}"
                desc = {"input": item["name"], "config": lab, "method": method, "mutation_rate": mu,
                        "kwargs": bounded_api.jsonable(kw), "prior_spec": bounded_api.jsonable(prior_spec),
                        "perturbation": pname, "perturbation_seed": pseed, "ts": bounded_api.ts_to_json(ts)}
                known = KNOWN_EDGE_MD if (pname.startswith("edge-metadata")
                                          and method != "variational_gamma") else None
                check_pair(rep, clause, key, desc, base, res, metadata_may_be_absent=(pname == "metadata-bytes"),
                           known=known)

    rep.flush()


if __name__ == "__main__":
    bounded_api.main(run)
