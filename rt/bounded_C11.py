"""
Bounded stand-in for C11 -- discrete-time dating is invariant to node numbering and input time order.

Contract clauses evaluated (on the REAL tsdate.inside_outside / tsdate.maximization, ignore_oldest_root off):
  inside-outside-renumbering-invariant   dates (output nodes_time and metadata mean "mn"/variance "vr") of the
                                         renumbered input, mapped back through the permutation, equal those of the
                                         original input
  inside-outside-retiming-invariant      same when the non-sample input times are replaced by any other valid times
  inside-outside-renumber-and-retime-invariant   both at once
  maximization-renumbering-invariant     same three for maximization: pre-constraint grid timepoints
  maximization-retiming-invariant        (fit.posterior_mean) AND output nodes_time; a difference is excused ONLY
  maximization-renumber-and-retime-invariant  when the tie oracle below proves that the first differing node (all of
                                         whose parents agree) had two numerically tied candidates; descendants of
                                         a proved tie are then not compared (the statement allows that)
  maximization-tie-exclusions            bookkeeping (nontrivial=False): one passing record per excused tie, so the
                                         number of excused comparisons is visible in the evidence
Each clause is evaluated in both probability spaces ("logarithmic" = default, "linear"); multi-tree inputs are
additionally run through maximization with a coarse 6-timepoint prior grid built by the real build_prior_grid.

Tie oracle (written from the statement of C11/C13, shares no code with tsdate): for a node u whose parents all got
the same timepoints in both runs, objective(i) = log inside[u][i] + sum over edges e=(p,u) of
log Poisson(m_e; (t[idx p] - t[i] + eps) * mu * span_e) for i <= min_p idx[p] (roots: log inside[u][i]); m_e is a
direct per-edge tally of the mutation table.  The two runs' choices are "numerically tied" iff their objectives
differ by <= 1e-9 (natural-log units, i.e. 1e-9 relative in probability).

Input space
  quick   : every rooted leaf-labelled tree shape with 3 and 4 leaves incl. polytomies (4 + 26 shapes, seeded random
            mutation counts 0..3 per node)  x ALL permutations of the non-sample ids (<= 3! = 6) x 4 re-timings,
            plus 30 small msprime simulations (3..7 samples, 1..~15 trees, nodes with several parents) and 5
            hand-built two-tree inputs in which one node has two parents that the data rank either way round
            (8 mutation patterns; all 3! renumberings), and 5 low-information ones (10..16 samples, <= 64 nodes, mutations simulated at a tenth of the dating rate), one polytomy
            input, each x 4 renumberings (reverse = oldest root gets the smallest non-sample id, rotate, 2 random)
            x 4 re-timings x 2 combined.
  thorough: additionally all 236 shapes with 5 leaves (x all <= 4! permutations) and 150 simulations (up to 8
            samples) with 6 random renumberings each.
  Re-timings (samples stay at 0, tree sequence re-sorted so it stays valid): (a) a strictly increasing non-linear
  map of the old times, (b) random times that respect only parent>child (relative order of unrelated nodes
  changes), (c) integer heights 1 + max(child height) (many exact ties between unrelated nodes), (d) an
  order-reversing map (increment above the oldest child shrinks with the original age, so unrelated nodes -- the
  several parents of one child in particular -- tend to appear in the reverse of their original order).
  exhaustive = False (shapes/permutations are exhaustive for <= 4 (5) leaves; mutation patterns, simulations and
  re-timings are sampled).

Tolerances: the statement says "up to floating-point tolerance".  Renumbering/re-timing changes only the ORDER in
which the per-edge factors of a node are multiplied/summed (and the order of span accumulation in the prior), so
results are algebraically identical; rtol 1e-9 (atol 1e-12 for variances that are ~0) is used for every comparison.
Observed differences on the unchanged code are <= ~1e-13.

NOT covered: inputs with non-contemporaneous samples (outside the statement), ignore_oldest_root=True (C38),
variational_gamma, inputs with more than ~40 nodes, user-supplied prior grids, num_threads>1 / cache_inside.
"""
import itertools
import warnings

import numpy as np
import scipy.stats
import tskit

from rt import bounded_api, inputs

MU = 2e-4
NE = 100
EPS = 1e-8  # tsdate.core.DEFAULT_EPSILON, passed explicitly below
RTOL = 1e-9
ATOL_VAR = 1e-12
TIE_TOL = 1e-9


# ------------------------------------------------------------------ input transformations (own helpers)
def strip_mutation_times(ts):
    tables = ts.dump_tables()
    tables.mutations.time = np.full(tables.mutations.num_rows, tskit.UNKNOWN_TIME)
    return tables.tree_sequence()


def apply_perm(ts, perm):
    """perm[old id] = new id (samples must map to themselves)."""
    perm = np.asarray(perm)
    order = np.argsort(perm)  # new id -> old id
    tables = ts.dump_tables()
    tables.subset(order, record_provenance=False)
    tables.sort()
    tables.build_index()
    tables.compute_mutation_parents()
    return tables.tree_sequence()


def nonsample_ids(ts):
    return np.array([u for u in range(ts.num_nodes) if not ts.node(u).is_sample()], dtype=int)


def perm_from_assignment(ts, new_ids):
    """new_ids: the new ids given to nonsample_ids(ts), in that order."""
    perm = np.arange(ts.num_nodes)
    perm[nonsample_ids(ts)] = new_ids
    return perm


def retime(ts, new_time):
    tables = ts.dump_tables()
    tables.nodes.time = np.asarray(new_time, dtype=float)
    tables.mutations.time = np.full(tables.mutations.num_rows, tskit.UNKNOWN_TIME)
    tables.sort()
    tables.build_index()
    tables.compute_mutation_parents()
    return tables.tree_sequence()


def children_lists(ts):
    kids = [set() for _ in range(ts.num_nodes)]
    for p, c in zip(ts.edges_parent, ts.edges_child):
        kids[p].add(int(c))
    return kids


def retimings(ts, rng):
    """Four valid re-timings of the non-sample nodes."""
    t = ts.nodes_time
    out = []
    # (a) strictly increasing non-linear map
    out.append(("monotone", np.where(t > 0, 0.37 * t ** 1.7 + 3.0 * np.sqrt(t), 0.0)))
    kids = children_lists(ts)
    order = np.argsort(t, kind="stable")  # children before parents
    # (b) random times respecting only parent > child
    new = np.zeros(ts.num_nodes)
    for u in order:
        if kids[u]:
            new[u] = max(new[c] for c in kids[u]) + rng.exponential(1.0) * 10.0 ** rng.integers(-3, 3) + 1e-6
    out.append(("random-consistent", new))
    # (c) integer heights: many ties between unrelated nodes
    h = np.zeros(ts.num_nodes)
    for u in order:
        if kids[u]:
            h[u] = max(h[c] for c in kids[u]) + 1.0
    out.append(("heights", h))
    # (d) order-reversing: increments shrink with the ORIGINAL age, so that among unrelated nodes (e.g. the several
    # parents of one child) the input order tends to be the reverse of the original -- and of what the data say
    rev = np.zeros(ts.num_nodes)
    tmax = float(t.max()) if t.size else 1.0
    for u in order:
        if kids[u]:
            rev[u] = max(rev[c] for c in kids[u]) + 1.0 / (1.0 + 50.0 * t[u] / max(tmax, 1e-300))
    out.append(("order-reversing", rev))
    return out


# ------------------------------------------------------------------ running the real code
def run_method(tsdate, ts, method, space):
    with warnings.catch_warnings():
        warnings.simplefilter("ignore")
        if method == "inside_outside":
            out, fit = tsdate.inside_outside(ts, mutation_rate=MU, population_size=NE, eps=EPS,
                                             probability_space=space, return_fit=True)
            mn = np.array([out.node(u).metadata.get("mn", np.nan) if not out.node(u).is_sample() else 0.0
                           for u in range(out.num_nodes)])
            vr = np.array([out.node(u).metadata.get("vr", np.nan) if not out.node(u).is_sample() else 0.0
                           for u in range(out.num_nodes)])
            return {"time": out.nodes_time, "mn": mn, "vr": vr, "fit": fit}
        if method == "maximization-grid6":
            # a coarse grid (6 quantile timepoints, built per input by the real build_prior_grid): a child's preferred
            # timepoint then often coincides with a parent's, where the order of a node's parents starts to matter
            pr = tsdate.build_prior_grid(ts, population_size=NE, timepoints=6)
            out, fit = tsdate.maximization(ts, mutation_rate=MU, priors=pr, eps=EPS, probability_space=space,
                                           return_fit=True)
        else:
            out, fit = tsdate.maximization(ts, mutation_rate=MU, population_size=NE, eps=EPS,
                                           probability_space=space, return_fit=True)
        return {"time": out.nodes_time, "pm": np.array(fit.posterior_mean), "fit": fit}


def try_method(tsdate, ts, method, space):
    try:
        return run_method(tsdate, ts, method, space)
    except Exception as e:  # noqa: BLE001 -- any failure is reported, never hidden
        return {"error": type(e).__name__}


def close(a, b, atol=0.0):
    a = np.asarray(a, float)
    b = np.asarray(b, float)
    return bool(np.all(np.isfinite(a)) and np.all(np.isfinite(b)) and np.allclose(a, b, rtol=RTOL, atol=atol))


def maxrel(a, b):
    a = np.asarray(a, float)
    b = np.asarray(b, float)
    with np.errstate(all="ignore"):
        d = np.abs(a - b) / np.maximum(np.abs(a), 1e-300)
    d = d[np.isfinite(d)]
    return float(d.max()) if d.size else 0.0


# ------------------------------------------------------------------ tie oracle for maximization
def edge_mutation_counts(ts):
    """Direct tally: number of mutations whose node is the edge's child and whose site lies in [left, right)."""
    cnt = np.zeros(ts.num_edges, dtype=int)
    pos = ts.sites_position[ts.mutations_site]
    for e in range(ts.num_edges):
        cnt[e] = int(np.sum((ts.mutations_node == ts.edges_child[e]) & (pos >= ts.edges_left[e])
                            & (pos < ts.edges_right[e])))
    return cnt


def log_inside_row(fit, u):
    row = np.asarray(fit.inside[u], dtype=float)
    if fit.inside.probability_space == "logarithmic":
        return row
    with np.errstate(divide="ignore"):
        return np.log(row)


def objective(ts, fit, u, idx):
    """C13 rule for node u given the parents' chosen grid indices (idx, indexed by node id of `ts`)."""
    tp = np.asarray(fit.inside.timepoints, dtype=float)
    li = log_inside_row(fit, u)
    edges = [e for e in range(ts.num_edges) if ts.edges_child[e] == u]
    if not edges:
        return li
    cap = min(int(idx[ts.edges_parent[e]]) for e in edges)
    obj = li[: cap + 1].copy()
    m = edge_mutation_counts(ts)
    for e in edges:
        p = ts.edges_parent[e]
        lam = (tp[idx[p]] - tp[: cap + 1] + EPS) * MU * (ts.edges_right[e] - ts.edges_left[e])
        obj = obj + scipy.stats.poisson.logpmf(m[e], lam)
    return obj


def compare_maximization(ts_a, res_a, ts_b, res_b, perm):
    """Return (ok, n_ties, detail).  perm[old id in ts_a] = id in ts_b."""
    tp = np.asarray(res_a["fit"].inside.timepoints, dtype=float)
    tp_b = np.asarray(res_b["fit"].inside.timepoints, dtype=float)
    if tp.shape != tp_b.shape or not close(tp, tp_b):
        return False, 0, {"why": "timepoint grids differ", "a": tp, "b": tp_b}
    ns = nonsample_ids(ts_a)
    idx_a = np.zeros(ts_a.num_nodes, dtype=int)
    idx_b = np.zeros(ts_a.num_nodes, dtype=int)  # indexed by ts_a ids
    for u in ns:
        idx_a[u] = int(np.argmin(np.abs(tp - res_a["pm"][u])))
        idx_b[u] = int(np.argmin(np.abs(tp - res_b["pm"][perm[u]])))
        if not (close(tp[idx_a[u]], res_a["pm"][u]) and close(tp[idx_b[u]], res_b["pm"][perm[u]])):
            return False, 0, {"why": "posterior_mean is not a grid timepoint", "node": int(u)}
    differ = {int(u) for u in ns if idx_a[u] != idx_b[u]}
    if not differ:
        ok = close(res_a["time"][ns], res_b["time"][perm[ns]])
        return ok, 0, {"max_rel_diff_nodes_time": maxrel(res_a["time"][ns], res_b["time"][perm[ns]])}
    # parents of each node
    parents = [set() for _ in range(ts_a.num_nodes)]
    for p, c in zip(ts_a.edges_parent, ts_a.edges_child):
        parents[c].add(int(p))
    excused = set()
    ties = 0
    for u in sorted(differ, key=lambda v: -ts_a.nodes_time[v]):  # ancestors first
        if any(p in excused for p in parents[u]):
            excused.add(u)
            continue
        if any(p in differ for p in parents[u]):
            return False, ties, {"why": "parent differs without a proved tie", "node": u}
        obj = objective(ts_a, res_a["fit"], u, idx_a)
        ia, ib = idx_a[u], idx_b[u]
        if ib >= len(obj) or not np.isfinite(obj[ia]) or not np.isfinite(obj[ib]) \
                or abs(obj[ia] - obj[ib]) > TIE_TOL:
            return False, ties, {"why": "different timepoints that are not numerically tied", "node": u,
                                 "idx_a": int(ia), "idx_b": int(ib),
                                 "objective_a": float(obj[ia]), "objective_b": float(obj[ib]) if ib < len(obj) else None}
        ties += 1
        excused.add(u)
    # descendants of excused nodes are excused as well
    for u in sorted(ns, key=lambda v: -ts_a.nodes_time[v]):
        if any(p in excused for p in parents[u]):
            excused.add(int(u))
    keep = np.array([u for u in ns if u not in excused], dtype=int)
    ok = close(res_a["time"][keep], res_b["time"][perm[keep]]) if keep.size else True
    return ok, ties, {"excused_nodes": sorted(excused)}


# ------------------------------------------------------------------ the input space
def small_sims(seed, k, nmax):
    """Small msprime inputs (<= 40 nodes): every 4th is a single tree, the others have a few trees, so that nodes
    with several parents occur.  Mutations are simulated at the rate used for dating."""
    out = []
    i = 0
    while len(out) < k and i < 20 * k:
        n = 3 + (i % (nmax - 2))
        rec = 0.0 if i % 4 == 0 else (1e-5, 2e-5, 4e-5)[i % 3]
        ts = inputs.sim(seed * 1000 + i, n=n, L=1e3, rec=rec, mu=MU, ne=NE)
        i += 1
        if ts.num_nodes <= 40 and ts.num_mutations > 0:
            out.append((f"sim{i - 1}-n{n}-t{ts.num_trees}", strip_mutation_times(ts)))
    # low-information inputs: more samples, several trees, few mutations (simulated at a tenth of the dating rate), so
    # that the maximised timepoints are not simply the rank order of the true ages and a child's parents can be
    # ranked by the data against their input-time order
    j, want = 0, max(2, k // 6)
    while sum(1 for nm, _ in out if nm.startswith("lowinfo")) < want and j < 40 * want:
        n = 10 + (j % 7)
        ts = inputs.sim(seed * 1000 + 500 + j, n=n, L=1e3, rec=2e-5, mu=MU / 10, ne=NE)
        j += 1
        if ts.num_trees > 1 and ts.num_nodes <= 64 and ts.num_mutations > 0:
            out.append((f"lowinfo{j - 1}-n{n}-t{ts.num_trees}", strip_mutation_times(ts)))
    return out


def shape_inputs(n_leaves, rng):
    out = []
    for k, shape in enumerate(inputs.all_tree_shapes(n_leaves)):
        n_nodes = n_leaves + _count_internal(shape)
        muts = {u: int(rng.integers(0, 4)) for u in range(n_nodes - 1)}  # the root (last id) carries none
        muts = {u: c for u, c in muts.items() if c > 0}
        ts = inputs.tree_to_ts(shape, sequence_length=1e3, mutations=muts)
        out.append((f"shape{n_leaves}-{k}", ts, {"shape": repr(shape), "mutations": muts}))
    return out


def _count_internal(t):
    return 0 if isinstance(t, int) else 1 + sum(_count_internal(c) for c in t)


def perms_for(ts, rng, exhaustive, n_random):
    ns = nonsample_ids(ts)
    if exhaustive:
        return [(f"perm{list(map(int, p))}", perm_from_assignment(ts, np.array(p)))
                for p in itertools.permutations(ns) if list(p) != list(ns)]
    out = [("reverse", perm_from_assignment(ts, ns[::-1])),
           ("rotate", perm_from_assignment(ts, np.roll(ns, 1)))]
    for r in range(n_random):
        out.append((f"random{r}", perm_from_assignment(ts, rng.permutation(ns))))
    return out


def two_parent_args(rng, count):
    """Hand-built two-tree sequences in which node 3 (parent of samples 0, 1) has TWO parents: node 4 on the left
    half and node 5 on the right half (each also the parent of sample 2 there).  The mutation pattern is chosen so
    that the data rank the two parents either way round, independently of their input times (t4 < t5 in the base
    input; the order-reversing re-timing swaps them): an implementation that trusts the input order of a child's
    parents is exposed here."""
    out = []
    patterns = [(6, 0, 3), (0, 6, 3), (8, 1, 0), (1, 8, 0), (4, 0, 6), (0, 4, 6), (12, 0, 1), (2, 2, 2)]
    for k in range(count):
        on4, on5, below3 = patterns[k % len(patterns)]
        if k >= len(patterns):
            on4, on5, below3 = (int(rng.integers(0, 10)) for _ in range(3))
        L = 1e3
        tables = tskit.TableCollection(sequence_length=L)
        for _ in range(3):
            tables.nodes.add_row(flags=tskit.NODE_IS_SAMPLE, time=0)
        tables.nodes.add_row(time=1.0)   # 3
        tables.nodes.add_row(time=2.0)   # 4
        tables.nodes.add_row(time=3.0)   # 5
        for c in (0, 1):
            tables.edges.add_row(0, L, 3, c)
        for c in (2, 3):
            tables.edges.add_row(0, L / 2, 4, c)
            tables.edges.add_row(L / 2, L, 5, c)
        pos = []

        def put(lo, hi, node, m):
            for _ in range(m):
                x = float(rng.uniform(lo, hi))
                while x in pos:
                    x = float(rng.uniform(lo, hi))
                pos.append(x)
                muts.append((x, node))
        muts = []
        put(0, L / 2, 3, on4 - on4 // 2)      # above node 3, left half: on the edge 3 -> 4
        put(0, L / 2, 2, on4 // 2)            # above sample 2, left half: on the edge 2 -> 4
        put(L / 2, L, 3, on5 - on5 // 2)
        put(L / 2, L, 2, on5 // 2)
        put(0, L, 0, below3 - below3 // 2)
        put(0, L, 1, below3 // 2)
        for x, node in sorted(muts):
            sid = tables.sites.add_row(position=x, ancestral_state="0")
            tables.mutations.add_row(site=sid, node=node, derived_state="1")
        tables.sort()
        tables.build_index()
        tables.compute_mutation_parents()
        out.append((f"twoparent{k}-m{on4}.{on5}.{below3}", tables.tree_sequence()))
    return out


# ------------------------------------------------------------------ main
def run(req, rep):
    import tsdate

    tier, seed = req["tier"], int(req["seed"])
    rng = np.random.default_rng(seed)
    thorough = tier == "thorough"
    cases = []  # (name, ts, description, exhaustive_perms)
    for n in ((3, 4, 5) if thorough else (3, 4)):
        for name, ts, desc in shape_inputs(n, rng):
            cases.append((name, ts, desc, True))
    for name, ts in small_sims(seed, 150 if thorough else 30, 8 if thorough else 7):
        cases.append((name, ts, None, False))
    for name, ts in two_parent_args(rng, 24 if thorough else 8):
        cases.append((name, ts, None, True))
    # with_polytomy leaves the collapsed node unreferenced; simplify() drops it and keeps the polytomy
    cases.append(("polytomy", strip_mutation_times(inputs.with_polytomy(seed).simplify()), None, False))

    rep.space = ("all rooted leaf-labelled tree shapes (polytomies incl.) with seeded mutation counts x all "
                 "permutations of non-sample ids x 4 re-timings; small msprime simulations (multi-tree, multi-parent "
                 "nodes) and a polytomy input x reverse/rotate/random renumberings x 4 re-timings x combined; "
                 "methods inside_outside and maximization in logarithmic and linear space")
    rep.bound = (f"tier={tier}: leaves<= {5 if thorough else 4} ({sum(1 for c in cases if c[3])} shapes), "
                 f"{sum(1 for c in cases if not c[3])} simulated inputs with <= 40 nodes and <= {8 if thorough else 7} samples, "
                 f"rtol {RTOL}")
    rep.exhaustive = False

    variants_run = 0
    errors_seen = set()
    worst = [0.0, 0.0]  # largest relative differences seen (inside_outside dates, maximization nodes_time)
    for name, ts, desc, exh in cases:
        if ts.num_nodes - ts.num_samples < 1:
            continue
        ns = nonsample_ids(ts)
        variants = []  # (kind, label, ts_variant, perm)
        plist = perms_for(ts, rng, exh, 6 if thorough else 2)
        for label, perm in plist:
            variants.append(("renumbering", label, apply_perm(ts, perm), perm))
        ident = np.arange(ts.num_nodes)
        rts = retimings(ts, rng)
        for label, new_t in rts:
            variants.append(("retiming", label, retime(ts, new_t), ident))
        # combined: re-time, then renumber (the renumbered ids follow the old numbering of the re-timed input)
        combos = [(rts[1], plist[0]), (rts[2], plist[-1])] if plist else []
        for (tl, new_t), (pl, perm) in combos:
            variants.append(("renumber-and-retime", f"{tl}+{pl}", apply_perm(retime(ts, new_t), perm), perm))
        in_desc = desc if desc is not None else bounded_api.ts_to_json(ts)
        methods = [("inside_outside", "logarithmic"), ("inside_outside", "linear"),
                   ("maximization", "logarithmic"), ("maximization", "linear")]
        if ts.num_trees > 1:
            methods.append(("maximization-grid6", "logarithmic"))
        for method, space in methods:
            base = try_method(tsdate, ts, method, space)
            for kind, label, ts_v, perm in variants:
                res = try_method(tsdate, ts_v, method, space)
                variants_run += 1
                key = f"{name}|{kind}|{label}"
                inp = {"input": in_desc, "variant": kind, "label": label, "perm_old_to_new": perm.tolist(),
                       "variant_nodes_time": ts_v.nodes_time.tolist(), "method": method, "space": space,
                       "mutation_rate": MU, "population_size": NE, "eps": EPS}
                clause = ("inside-outside" if method == "inside_outside" else "maximization") + f"-{kind}-invariant"
                if "error" in base or "error" in res:
                    # no dates to compare: the two runs must at least fail in the same way (not counted as a
                    # non-trivial case)
                    rep.case(clause, base.get("error") == res.get("error"), key=key, input=inp,
                             observed=res.get("error", "dated"), expected=base.get("error", "dated"),
                             nontrivial=False)
                    errors_seen.add(base.get("error") or res.get("error"))
                    continue
                if method == "inside_outside":
                    worst[0] = max(worst[0], maxrel(base["time"][ns], res["time"][perm[ns]]),
                                   maxrel(base["mn"][ns], res["mn"][perm[ns]]))
                    ok = (close(base["time"][ns], res["time"][perm[ns]])
                          and close(base["mn"][ns], res["mn"][perm[ns]])
                          and close(base["vr"][ns], res["vr"][perm[ns]], atol=ATOL_VAR))
                    rep.case(f"inside-outside-{kind}-invariant", ok, key=key, input=inp,
                             observed={"nodes_time": res["time"][perm[ns]], "mn": res["mn"][perm[ns]],
                                       "vr": res["vr"][perm[ns]]},
                             expected={"nodes_time": base["time"][ns], "mn": base["mn"][ns], "vr": base["vr"][ns]})
                else:
                    ok, ties, detail = compare_maximization(ts, base, ts_v, res, perm)
                    worst[1] = max(worst[1], detail.get("max_rel_diff_nodes_time", 0.0))
                    rep.case(f"maximization-{kind}-invariant", ok, key=key, input=inp,
                             observed={"posterior_mean": res["pm"][perm[ns]], "nodes_time": res["time"][perm[ns]],
                                       "detail": detail},
                             expected={"posterior_mean": base["pm"][ns], "nodes_time": base["time"][ns]})
                    for _ in range(ties):
                        rep.case("maximization-tie-exclusions", True, key=key + "|tie", nontrivial=False)
    rep.notes.append(f"{variants_run} variant runs compared with their base run")
    rep.notes.append(f"largest relative difference observed: inside_outside {worst[0]:.3g}, "
                     f"maximization (runs without tie) {worst[1]:.3g}")
    if errors_seen:
        rep.notes.append(f"runs that raised instead of dating (compared by exception type only): {sorted(errors_seen)}")
    if "maximization-tie-exclusions" not in rep.clauses:
        rep.notes.append("no maximization comparison needed the tie exclusion")


if __name__ == "__main__":
    bounded_api.main(run)
