"""
Bounded stand-in for C02 -- "Dating changes only times, time metadata and unphased singleton placement".

The whole TableCollection of the input is compared with the one of the tree sequence returned by the real
tsdate.date.  Clauses (one obligation each; everything is exact equality, no floating point is compared):
  nodes-unchanged-except-time-and-mn-vr       same number of node rows; flags, population, individual columns equal;
                                              per row the decoded metadata with the keys "mn"/"vr" removed equals the
                                              input's (raw bytes equal when there is no schema); the node metadata
                                              schema is unchanged unless the table had neither schema nor metadata
  edge-set-unchanged                          multiset of (left, right, parent, child, metadata bytes) equal (row
                                              ORDER may change: edges are re-sorted by the new parent times), schema equal
  sites-unchanged                             sites table equal row by row (position, ancestral state, metadata, schema)
  mutations-same-per-site-content             same number of rows; for every site the multiset of
                                              (derived state, node, metadata minus mn/vr) equals the input's
                                              (node left out only when singletons are treated as unphased); mutation
                                              metadata schema unchanged unless the table had neither schema nor metadata
  mutation-rows-keep-identity-at-single-mutation-sites
                                              row i of the output is row i of the input (site, derived state, node
                                              [if phased], metadata minus mn/vr) for every mutation that is alone at
                                              its site
  mutation-nodes-unchanged-when-phased        mutations.node column multiset-per-site identical whenever
                                              singletons_phased is not False or the method is a discrete one
                                              (evaluated through the two clauses above; listed separately so that a
                                              node change under phased settings is named)
  individuals-populations-migrations-unchanged the three tables are equal including schemas
  sequence-length-and-top-level-unchanged     sequence_length, top-level metadata + schema, reference sequence equal
  provenances-only-appended                   input provenance rows are a prefix; exactly one row is appended when
                                              record_provenance is on, none when off (the statement does not list the
                                              provenance table among the things that may differ; the appended record
                                              itself belongs to C33)
  known-sort-permutes-mutations-within-site   KNOWN, unrepaired (DESIGN 6-F11): row i of the output is row i of the
                                              input also for mutations that share their site with others.  tsdate
                                              re-sorts the tables after re-timing; tskit orders mutations within a
                                              site by the NEW node times, so rows can be permuted.  Evaluated only on
                                              inputs that have multi-mutation sites; failures here are that defect.
Mutation times, mutation parents, node times and time_units are allowed to differ and are not compared.

Input space (deterministic given the seed):
  * "rich" inputs: 2-population island-model msprime simulations with diploid individuals (location, flags,
    metadata), optional migration records / edge metadata (variational_gamma only: the discrete methods reject both), known
    mutation times, multiple mutations per site (discrete genome, 40..120 bp), site/edge/individual/population/
    top-level metadata, a reference sequence, existing provenance rows; node and mutation metadata in one of the
    variants {permissive JSON with other fields (+ unique "id" tag per mutation), permissive JSON already holding
    mn/vr, none, raw bytes without schema, struct codec without mn/vr};
  * the shared plain suite of rt.bounded_C01.suite (tree shapes, sims, ancient/internal samples, polytomy, multiroot);
  * configurations: 3 methods x set_metadata in {None, False, True} (True only where the existing schema can take
    mn/vr or the table is empty: with an incompatible schema set_metadata=True is DOCUMENTED to clear the metadata,
    which is C32's subject and contradicts nothing here) x record_provenance x time_units x singletons_phased
    (False on the diploid inputs) x a sampled method option draw.
  quick: 20 rich + ~55 plain inputs, ~260 date() calls; thorough: 80 rich + ~350 plain inputs, ~2000 calls.
Not exhaustive; seeded sampling.

NOT covered: table columns tskit does not expose through the Python table API; inputs above ~60 nodes; the content of
the appended provenance record (C33); whether mn/vr values are right (C04); the set_metadata policy itself (C32).
"""
import logging

import msprime
import numpy as np
import tskit

from rt import bounded_api
from rt.bounded_C01 import Case, call_date, describe, method_configs, suite

PERMISSIVE = tskit.MetadataSchema({"codec": "json", "type": "object"})
STRUCT_NODE = tskit.MetadataSchema({"codec": "struct", "type": "object", "properties": {
    "a": {"type": "integer", "binaryFormat": "i"}, "b": {"type": "number", "binaryFormat": "d"}}})
STRUCT_MUT = tskit.MetadataSchema({"codec": "struct", "type": "object", "properties": {
    "id": {"type": "integer", "binaryFormat": "i"}}})
VARIANTS = ("json", "json-mnvr", "none", "raw", "struct")
COMPATIBLE = ("json", "json-mnvr", "none")  # set_metadata=True keeps the other fields only for these


# ---------------------------------------------------------------------------------------------------- inputs
def _set_md(table, schema, rows):
    if schema is not None:
        table.metadata_schema = schema
        table.packset_metadata([schema.validate_and_encode_row(r) for r in rows])
    else:
        table.packset_metadata(rows)


def rich_ts(seed, node_variant, mut_variant, migrations, edge_md):
    rng = np.random.default_rng([seed, 202])
    demog = msprime.Demography.island_model([100, 100], migration_rate=0.1)
    ts = msprime.sim_ancestry({0: 2, 1: int(1 + seed % 2)}, demography=demog, ploidy=2,
                              sequence_length=int(40 + 20 * (seed % 5)), recombination_rate=(0 if seed % 3 == 0 else 2e-4),
                              random_seed=seed + 1, record_migrations=migrations)
    ts = msprime.sim_mutations(ts, rate=6e-4, random_seed=seed + 2)
    tables = ts.dump_tables()
    tables.metadata_schema = PERMISSIVE
    tables.metadata = {"study": "bounded-C02", "seed": int(seed)}
    tables.reference_sequence.data = "ACGT" * int(ts.sequence_length // 4)
    # individuals: location, flags, metadata
    ind = tables.individuals.copy()
    tables.individuals.clear()
    tables.individuals.metadata_schema = PERMISSIVE
    for i, row in enumerate(ind):
        tables.individuals.add_row(flags=i % 3, location=[float(i), 0.5 * i], parents=[-1, -1],
                                   metadata={"label": f"ind{i}"})
    _set_md(tables.sites, PERMISSIVE, [{"s": int(i)} for i in range(tables.sites.num_rows)])
    if edge_md:  # (the discrete methods run simplify() on the input, which tskit refuses with edge metadata)
        tables.edges.packset_metadata([b"e%d" % i for i in range(tables.edges.num_rows)])
    nn, nm = tables.nodes.num_rows, tables.mutations.num_rows
    if node_variant == "json":
        _set_md(tables.nodes, PERMISSIVE, [{"name": f"n{i}", "w": [i, i + 1]} for i in range(nn)])
    elif node_variant == "json-mnvr":
        _set_md(tables.nodes, PERMISSIVE, [{"name": f"n{i}", "mn": -1.0, "vr": -2.0} for i in range(nn)])
    elif node_variant == "raw":
        _set_md(tables.nodes, None, [b"\x01\x02node%d" % i for i in range(nn)])
    elif node_variant == "struct":
        _set_md(tables.nodes, STRUCT_NODE, [{"a": i, "b": i / 7} for i in range(nn)])
    if mut_variant == "json":
        _set_md(tables.mutations, PERMISSIVE, [{"id": int(j), "note": "x" * int(rng.integers(0, 4))} for j in range(nm)])
    elif mut_variant == "json-mnvr":
        _set_md(tables.mutations, PERMISSIVE, [{"id": int(j), "mn": 0.0, "vr": 0.0} for j in range(nm)])
    elif mut_variant == "raw":
        _set_md(tables.mutations, None, [b"m%d" % j for j in range(nm)])
    elif mut_variant == "struct":
        _set_md(tables.mutations, STRUCT_MUT, [{"id": j} for j in range(nm)])
    return tables.tree_sequence()


def rich_cases(seed, tier):
    out = []
    n = 80 if tier == "thorough" else 20
    for k in range(n):
        nv, mv = VARIANTS[k % 5], VARIANTS[(k // 5 + k) % 5]
        mig, edge_md = k % 4 == 3, k % 4 == 1
        ts = rich_ts(seed * 1000 + k, nv, mv, mig, edge_md)
        if ts.num_mutations == 0:
            continue
        out.append(Case(f"rich{k}[{nv}/{mv}{'/mig' if mig else ''}{'/edge-md' if edge_md else ''}]", ts, mu=6e-4,
                        ne=100.0, node_md=nv, mut_md=mv, vg_only=edge_md))
    return out


# ---------------------------------------------------------------------------------------------------- oracle
def _strip(md):
    """Row metadata with the two time fields removed (dict metadata) or the raw bytes."""
    if isinstance(md, dict):
        return tuple(sorted((k, repr(v)) for k, v in md.items() if k not in ("mn", "vr")))
    return md


def _row_md(table):
    """Decoded per-row metadata (through the table's own schema; bytes if there is none)."""
    return [_strip(row.metadata) for row in table]


def _schema_ok(tin, tout):
    had_something = tin.metadata_schema.schema is not None or len(tin.metadata) > 0
    return (not had_something) or tin.metadata_schema == tout.metadata_schema


def compare(rep, ts_in, out, key, desc, phased, record_prov):
    a, b = ts_in.dump_tables(), out.dump_tables()
    # ---- nodes
    bad = []
    if a.nodes.num_rows != b.nodes.num_rows:
        bad.append("row count")
    else:
        for col in ("flags", "population", "individual"):
            if not np.array_equal(getattr(a.nodes, col), getattr(b.nodes, col)):
                bad.append(col)
        ma, mb = _row_md(a.nodes), _row_md(b.nodes)
        empty_in = a.nodes.metadata_schema.schema is None and len(a.nodes.metadata) == 0
        if empty_in:  # only mn/vr may appear: every row strips to "no other field" or stays empty bytes
            if any(x not in ((), b"") for x in mb):
                bad.append("metadata: something other than mn/vr appeared")
        elif ma != mb:
            bad.append(f"metadata (other fields) rows {[i for i, (x, y) in enumerate(zip(ma, mb)) if x != y][:5]}")
        if not _schema_ok(a.nodes, b.nodes):
            bad.append("metadata schema")
    rep.case("nodes-unchanged-except-time-and-mn-vr", not bad, key=key, input=desc, observed=bad, expected=[])
    # ---- edges
    def edge_set(t):
        return sorted((e.left, e.right, e.parent, e.child, bytes(e.metadata) if not isinstance(e.metadata, bytes)
                       else e.metadata) for e in t.edges)
    ok = edge_set(a) == edge_set(b) and a.edges.metadata_schema == b.edges.metadata_schema
    rep.case("edge-set-unchanged", ok, key=key, input=desc,
             observed=f"{a.edges.num_rows} -> {b.edges.num_rows} rows", expected="equal multisets")
    # ---- sites
    rep.case("sites-unchanged", a.sites.equals(b.sites), key=key, input=desc, observed="sites tables differ",
             expected="identical sites table")
    # ---- mutations
    bad, bad_rows, bad_known, bad_node = [], [], [], []
    n_multi_rows = 0
    if a.mutations.num_rows != b.mutations.num_rows:
        bad.append("row count")
    else:
        ma, mb = _row_md(a.mutations), _row_md(b.mutations)
        if a.mutations.metadata_schema.schema is None and len(a.mutations.metadata) == 0:
            if any(x not in ((), b"") for x in mb):
                bad.append("metadata: something other than mn/vr appeared")
            ma = mb = [()] * len(mb)

        def rows(t, md, with_node):
            return [(int(t.mutations.site[i]), t.mutations[i].derived_state,
                     int(t.mutations.node[i]) if with_node else None, md[i]) for i in range(t.mutations.num_rows)]
        ra, rb = rows(a, ma, phased), rows(b, mb, phased)
        per_site_a, per_site_b = {}, {}
        for r in ra:
            per_site_a.setdefault(r[0], []).append(r[1:])
        for r in rb:
            per_site_b.setdefault(r[0], []).append(r[1:])
        key_ = lambda x: repr(x)  # noqa: E731
        for s in set(per_site_a) | set(per_site_b):
            if sorted(per_site_a.get(s, []), key=key_) != sorted(per_site_b.get(s, []), key=key_):
                bad.append(f"site {s}: {per_site_a.get(s)} -> {per_site_b.get(s)}")
        count = np.bincount(a.mutations.site, minlength=a.sites.num_rows)
        for i in range(len(ra)):
            alone = count[ra[i][0]] == 1
            n_multi_rows += int(not alone)
            if ra[i] != rb[i]:
                (bad_rows if alone else bad_known).append((i, ra[i], rb[i]))
        if phased:
            na = sorted(zip(a.mutations.site.tolist(), a.mutations.node.tolist()))
            nb = sorted(zip(b.mutations.site.tolist(), b.mutations.node.tolist()))
            if na != nb:
                bad_node.append("per-site node multisets differ")
        if not _schema_ok(a.mutations, b.mutations):
            bad.append("metadata schema")
    rep.case("mutations-same-per-site-content", not bad, key=key, input=desc, observed=bad[:5], expected=[])
    rep.case("mutation-rows-keep-identity-at-single-mutation-sites", not bad_rows and "row count" not in bad, key=key,
             input=desc, observed=bad_rows[:5], expected="row i of output == row i of input")
    if phased:
        rep.case("mutation-nodes-unchanged-when-phased", not bad_node and "row count" not in bad, key=key, input=desc,
                 observed=bad_node, expected=[])
    if n_multi_rows:
        rep.case("known-sort-permutes-mutations-within-site", not bad_known, key=key, input=desc,
                 observed=bad_known[:5], expected="row i of output == row i of input (multi-mutation sites)")
    # ---- other tables
    bad = [name for name in ("individuals", "populations", "migrations")
           if not getattr(a, name).equals(getattr(b, name))]
    rep.case("individuals-populations-migrations-unchanged", not bad, key=key, input=desc, observed=bad, expected=[])
    bad = []
    if a.sequence_length != b.sequence_length:
        bad.append("sequence_length")
    if a.metadata_schema != b.metadata_schema or a.metadata_bytes != b.metadata_bytes:
        bad.append("top-level metadata")
    if not a.reference_sequence.equals(b.reference_sequence):
        bad.append("reference_sequence")
    rep.case("sequence-length-and-top-level-unchanged", not bad, key=key, input=desc, observed=bad, expected=[])
    na, nb = a.provenances.num_rows, b.provenances.num_rows
    prefix = all(a.provenances[i] == b.provenances[i] for i in range(min(na, nb)))
    rep.case("provenances-only-appended", prefix and nb == na + (1 if record_prov else 0), key=key, input=desc,
             observed=f"{na} -> {nb} rows, prefix equal: {prefix}",
             expected=f"{na + (1 if record_prov else 0)} rows, input rows first")
    moved = int(np.sum(a.mutations.node != b.mutations.node)) if a.mutations.num_rows == b.mutations.num_rows else -1
    return bool(bad_known), moved


def run(req, rep):
    tier, seed = req["tier"], int(req["seed"])
    thorough = tier == "thorough"
    rng = np.random.default_rng([seed, 2])
    logging.getLogger("tsdate").setLevel(logging.ERROR)
    rep.space = ("input vs output TableCollection of real tsdate.date(): rich msprime inputs (populations, diploid "
                 "individuals, migrations, metadata on every table in 5 codec variants, multi-mutation sites, known "
                 "mutation times, reference sequence, provenance) + shared plain suite x 3 methods x set_metadata x "
                 "record_provenance x time_units x singletons_phased")
    rep.exhaustive = False
    cases = rich_cases(seed, tier) + suite(seed, tier, want_inferred=thorough)
    raised, calls, permuted, rephased = {}, 0, 0, 0
    for ci, case in enumerate(cases):
        rich = case.name.startswith("rich")
        for method in case.methods():
            ndraw = (3 if rich else 1) * (2 if thorough and rich else 1)
            for j, kw in enumerate(method_configs(case, method, rng, ndraw)):
                sm = [None, False, True][(ci + j) % 3]
                if sm is True and rich and not (case.tags["node_md"] in COMPATIBLE and case.tags["mut_md"] in COMPATIBLE):
                    sm = None  # see docstring: True + incompatible schema is documented to clear metadata (C32)
                if sm is not None:
                    kw["set_metadata"] = sm
                record_prov = bool((ci + j) % 4 != 1)
                if not record_prov:
                    kw["record_provenance"] = False
                if (ci + j) % 2:
                    kw["time_units"] = "years"
                if method == "variational_gamma":
                    kw.setdefault("max_iterations", 5)
                    if kw.get("rescaling_intervals") is None:
                        kw["rescaling_intervals"] = 5  # avoid the known 'Use fewer rescaling intervals' assertion
                phased = kw.get("singletons_phased", True) is not False
                calls += 1
                out, err = call_date(case.ts, method, case.mu, case.ne, **kw)
                if err is not None:
                    raised[err[:70]] = raised.get(err[:70], 0) + 1
                    continue
                key = f"{case.name}|{method}|{sorted(kw.items())}"
                perm, moved = compare(rep, case.ts, out, key, describe(case, method, case.mu, case.ne, kw), phased,
                                      record_prov)
                permuted += int(perm)
                rephased += int((not phased) and moved > 0)
    rep.bound = (f"{len(cases)} inputs (<= {max(c.ts.num_nodes for c in cases)} nodes, <= "
                 f"{max(c.ts.num_mutations for c in cases)} mutations), {calls} date() calls")
    rep.notes.append(f"date() calls that raised (not cases of this property): {raised}")
    rep.notes.append(f"returned calls in which tables.sort() permuted mutation rows inside a site (known 6-F11): "
                     f"{permuted}; unphased calls in which some singleton was moved to another node: {rephased}")


if __name__ == "__main__":
    bounded_api.main(run)
