"""
Bounded stand-in for C22 -- unphased singleton handling only re-phases singletons and ignores input phase.

The REAL public entry point `tsdate.date(ts, method="variational_gamma", singletons_phased=..., return_fit=True)`
is run on every generated input and on random re-phasings of it; the returned tree sequence (mutation nodes,
node times, mutation times, node and mutation metadata) is what is inspected.  The specification side is written
from the statement and uses only the INPUT tables: which mutations may move (those on a node of a diploid,
contemporary individual), where to (that individual's other node), and the re-phasing operator itself (each
such mutation is re-assigned to either node of its individual; nothing else in the tables changes).

Contract clauses evaluated (each is one obligation)
  unphased-moves-only-to-the-individuals-other-node
                                     singletons_phased=False: output mutation i is input mutation i (same site,
                                     same derived state); wherever its node differs from the input node, the input
                                     node belongs to an individual with exactly two nodes, both at time 0, and the
                                     output node is the other one.  Evaluated on the base input and on every
                                     re-phased copy.
  mutation-mapping-of-fit-equals-output
                                     `fit.mutation_mapping()` is the node column of the returned tree sequence
  phased-never-changes-mutation-nodes
                                     singletons_phased=True and the default (None): the node column is the input's
  output-invariant-to-input-phase    singletons_phased=False: for every re-phasing of the input the output has the
                                     same mutation nodes (exactly) and the same node times, mutation times, node
                                     metadata (mn, vr) and mutation metadata (mn, vr) up to rtol 1e-9; an
                                     exception raised for one phasing and not for the other is a failure
  ineligible-individuals-are-rejected-or-left-alone
                                     inputs that contain an individual that is not diploid or not contemporary and
                                     singletons_phased=False: the call raises a ValueError, or returns with the
                                     mutations of those individuals on their input nodes
  known-singleton-where-both-nodes-isolated-keeps-input-phase
                                     output-invariant-to-input-phase on inputs that carry a mutation on a node of
                                     an eligible individual at a position where NEITHER of its two nodes has an edge
                                     (a gap in both haplotypes): such a mutation belongs to no block, is never
                                     re-phased and so stays on whichever node the input put it.  Condition decided
                                     from the input alone; on these inputs the companion clause
  invariant-apart-from-nodes-of-singletons-in-gaps
                                     still requires every other part of the output (all times, all metadata, the
                                     nodes of all other mutations) to be invariant
  known-unphased-dating-with-one-node-isolated
                                     the first and fourth clause on inputs in which one node of an unphased
                                     individual has no edge over a region where the other has one (missing data in
                                     one haplotype; outside the stated precondition of `_block_singletons`);
                                     kept apart so that the generic clauses stay strict on every other input

Input space and bound
  quick    : 32 inputs carved from recombining msprime simulations (window of length 1 / 40 / 100 / 250 of a
             4000-long simulation, simplified to 2..4 diploid contemporary individuals plus 0..2 contemporary and
             0..1 historical sample nodes WITHOUT individual records; infinite-sites mutations, ~15..60), optionally
             one collapsed internal node (polytomy), optionally a gap in which BOTH nodes of an individual are
             isolated, optionally (1 in 8) a gap isolating ONE node; settings drawn from max_iterations {2, 5, 10},
             rescaling_intervals {0, 1, 3}, match_segregating_sites {False, True}, mutation-rate factor {1/3, 1, 3};
             each with 4 re-phasings (all singletons on the lower-id node, all on the higher-id node, two random).
             Plus 6 inputs with an ineligible (haploid or historical) individual.
  thorough : 700 + 60 such inputs, 2..6 individuals, 6 re-phasings each.
  Not exhaustive (random, seeded by req["seed"]).

Tolerances
  Mutation nodes: exact.  Times and metadata: rtol 1e-9, atol 0 ("up to floating-point tolerance"): the two runs
  see identical block tallies and identical tallies on all phased edges, and the per-edge counts of the unphased
  leaf edges, the only inputs that differ, are overwritten by the re-allocation before they are used; the only
  possible differences are therefore summation-order effects of a few ulps (none observed: the outputs are in fact
  bit-identical in this space).

NOT covered
  numba-compiled kernels, large inputs, individuals whose nodes are internal nodes, sites carrying several
  mutations (re-phasing could put two mutations of one site on one node), the `tsdate` command line (C34),
  how good the re-phasing is (C23 checks the probabilities).
"""
import json

import msprime
import numpy as np
import tskit

from rt import bounded_api

NULL = tskit.NULL
F7_MESSAGE = "Use fewer rescaling intervals"
KNOWN_LOPSIDED = "known-unphased-dating-with-one-node-isolated"
KNOWN_GAP = "known-singleton-where-both-nodes-isolated-keeps-input-phase"


# ---------------------------------------------------------------------------------------- inputs
def finish(tables):
    tables.mutations.time = np.full(tables.mutations.num_rows, tskit.UNKNOWN_TIME)
    tables.sort()
    tables.build_index()
    tables.compute_mutation_parents()
    return tables.tree_sequence()


class Pool:
    """
    Source of small inputs.  One msprime ancestry simulation costs ~0.4 s of set-up however small it is, so a
    larger one (24 diploid and 8 haploid contemporary individuals, 4 haploid historical samples; recombining) is
    simulated now and then and small inputs are carved out of it: a random window simplified down to a random
    subset, mutated afresh at a rate giving the requested expected number of mutations.
    """

    def __init__(self, rng, length=4000, refresh=150):
        self.rng, self.length, self.refresh, self.served, self.big = rng, length, refresh, 0, None

    def draw(self, n_diploid, n_haploid, n_old, width, muts):
        """(ts, mutation rate, node ids whose individual is to be removed)."""
        rng = self.rng
        if self.big is None or self.served % self.refresh == 0:
            sets = [msprime.SampleSet(24, time=0, ploidy=2), msprime.SampleSet(8, time=0, ploidy=1),
                    msprime.SampleSet(4, time=30, ploidy=1)]
            self.big = msprime.sim_ancestry(sets, sequence_length=self.length, population_size=50,
                                            recombination_rate=float(rng.choice([5e-5, 1.5e-4])),
                                            random_seed=int(rng.integers(1, 2 ** 31 - 2)))
        self.served += 1
        nodes = []
        for lo, hi, k in ((0, 24, n_diploid), (24, 32, n_haploid), (32, 36, n_old)):
            for i in rng.choice(np.arange(lo, hi), size=k, replace=False):
                nodes.extend(int(u) for u in self.big.individual(int(i)).nodes)
        a = float(rng.integers(0, self.length - width + 1))
        ts = self.big.keep_intervals([[a, a + width]], simplify=False).trim().simplify(nodes)
        area = float(np.sum((ts.edges_right - ts.edges_left) *
                            (ts.nodes_time[ts.edges_parent] - ts.nodes_time[ts.edges_child])))
        mu = muts / area
        ts = msprime.sim_mutations(ts, rate=mu, random_seed=int(rng.integers(1, 2 ** 31 - 2)), discrete_genome=False)
        return finish(ts.dump_tables()), mu


def drop_individuals(ts, keep):
    """Delete the individual records for which keep(individual) is false (their nodes get individual NULL)."""
    tables = ts.dump_tables()
    rows = list(tables.individuals)
    new_id = {}
    tables.individuals.clear()
    for ind in ts.individuals():
        if keep(ind):
            new_id[ind.id] = tables.individuals.append(rows[ind.id])
    tables.nodes.individual = np.array([new_id.get(int(i), NULL) for i in ts.nodes_individual], dtype=np.int32)
    return finish(tables)


def collapse_node(ts, rng):
    """Remove one internal node that has a parent over all of its span (creates a polytomy); its mutations go."""
    cands = []
    for u in np.unique(ts.edges_parent):
        below = ts.edges_parent == u
        above = ts.edges_child == u
        if not above.any() or ts.node(int(u)).is_sample():
            continue
        lo, hi = ts.edges_left[below].min(), ts.edges_right[below].max()
        cover = sorted(zip(ts.edges_left[above], ts.edges_right[above]))
        if cover[0][0] <= lo and cover[-1][1] >= hi and all(a[1] == b[0] for a, b in zip(cover, cover[1:])):
            cands.append(int(u))
    if not cands:
        return ts
    u = int(rng.choice(cands))
    tables = ts.dump_tables()
    edges = tables.edges.copy()
    tables.edges.clear()
    up = [e for e in edges if e.child == u]
    for e in edges:
        if e.child == u:
            continue
        if e.parent != u:
            tables.edges.add_row(e.left, e.right, e.parent, e.child)
            continue
        for f in up:
            lo, hi = max(e.left, f.left), min(e.right, f.right)
            if lo < hi:
                tables.edges.add_row(lo, hi, f.parent, e.child)
    tables.mutations.keep_rows(tables.mutations.node != u)
    tables.sort()
    tables.edges.squash()
    tables.sort()
    tables.simplify(filter_individuals=False, filter_populations=False, filter_sites=False)
    return finish(tables)


def isolate(ts, rng, both):
    """Remove the edges above one (or both) node(s) of a random diploid individual inside a random interval."""
    diploid = [ind for ind in ts.individuals() if ind.nodes.size == 2]
    if not diploid or ts.sequence_length < 4:
        return ts
    ind = diploid[int(rng.integers(0, len(diploid)))]
    gone = set(int(u) for u in ind.nodes) if both else {int(ind.nodes[int(rng.integers(0, 2))])}
    L = int(ts.sequence_length)
    a = float(rng.integers(0, L - 1))
    b = float(rng.integers(int(a) + 1, L + 1))
    tables = ts.dump_tables()
    edges = tables.edges.copy()
    tables.edges.clear()
    for e in edges:
        if e.child in gone and e.left < b and a < e.right:
            if e.left < a:
                tables.edges.add_row(e.left, a, e.parent, e.child)
            if b < e.right:
                tables.edges.add_row(b, e.right, e.parent, e.child)
        else:
            tables.edges.add_row(e.left, e.right, e.parent, e.child)
    return finish(tables)


# ---------------------------------------------------------------------------------------- specification side
def eligible_partner(ts):
    """{node: the other node of its individual} for the nodes of individuals with exactly two nodes, both at
    time 0 -- the only nodes whose mutations may move, and where to."""
    out = {}
    for ind in ts.individuals():
        if ind.nodes.size == 2 and all(ts.nodes_time[int(u)] == 0 for u in ind.nodes):
            a, b = (int(u) for u in ind.nodes)
            out[a], out[b] = b, a
    return out


def has_ineligible_individual(ts):
    return any(ind.nodes.size != 2 or any(ts.nodes_time[int(u)] != 0 for u in ind.nodes) for ind in ts.individuals())


def lopsided(ts):
    """True when some eligible individual has exactly one of its two nodes attached somewhere along the genome."""
    partner = eligible_partner(ts)
    for tree in ts.trees():
        for a, b in partner.items():
            if (tree.edge(a) == NULL) != (tree.edge(b) == NULL):
                return True
    return False


def gap_singletons(ts):
    """Mutations on an eligible node at a position where NEITHER node of the individual has an edge."""
    partner = eligible_partner(ts)
    pos = ts.sites_position[ts.mutations_site]
    tree = tskit.Tree(ts)
    out = []
    for m in range(ts.num_mutations):
        u = int(ts.mutations_node[m])
        if u in partner:
            tree.seek(pos[m])
            if tree.edge(u) == NULL and tree.edge(partner[u]) == NULL:
                out.append(m)
    return out


def rephase(ts, choose):
    """Re-assign every mutation on an eligible node: choose(mutation id, (low node, high node)) -> node."""
    partner = eligible_partner(ts)
    node = ts.mutations_node.copy()
    for m in range(ts.num_mutations):
        u = int(node[m])
        if u in partner:
            node[m] = choose(m, (min(u, partner[u]), max(u, partner[u])))
    tables = ts.dump_tables()
    tables.mutations.node = node.astype(np.int32)
    return finish(tables)


def rephasings(ts, rng, n_random):
    yield "all-low", rephase(ts, lambda m, pair: pair[0])
    yield "all-high", rephase(ts, lambda m, pair: pair[1])
    for k in range(n_random):
        coins = rng.integers(0, 2, size=ts.num_mutations)
        yield f"random{k}", rephase(ts, lambda m, pair: pair[int(coins[m])])


def same_mutations(a, b):
    """Mutation i of b is mutation i of a, node aside."""
    return (a.num_mutations == b.num_mutations and np.array_equal(a.mutations_site, b.mutations_site)
            and np.array_equal(a.sites_position, b.sites_position)
            and [m.derived_state for m in a.mutations()] == [m.derived_state for m in b.mutations()])


def summary(ts):
    def meta(rows):
        out = []
        for r in rows:
            md = r.metadata
            if isinstance(md, (bytes, bytearray)):
                md = json.loads(md.decode() or "{}")
            out.append([float(md.get("mn", np.nan)), float(md.get("vr", np.nan))] if isinstance(md, dict) else [])
        return np.array(out, dtype=float)

    return {"mutations_node": ts.mutations_node.copy(), "nodes_time": ts.nodes_time.copy(),
            "mutations_time": ts.mutations_time.copy(), "node_metadata": meta(ts.nodes()),
            "mutation_metadata": meta(ts.mutations())}


def close(a, b):
    # rtol 1e-9, no absolute slack; NaN == NaN (unknown mutation times, absent metadata)
    a, b = np.asarray(a, dtype=float), np.asarray(b, dtype=float)
    return a.shape == b.shape and bool(np.all(np.isclose(a, b, rtol=1e-9, atol=0.0, equal_nan=True)))


def moves_allowed(ts_in, ts_out):
    """(ok, problems): the first clause."""
    problems = []
    if not same_mutations(ts_in, ts_out):
        return False, ["output mutations are not the input mutations"]
    partner = eligible_partner(ts_in)
    for m in range(ts_in.num_mutations):
        u, v = int(ts_in.mutations_node[m]), int(ts_out.mutations_node[m])
        if u != v and partner.get(u) != v:
            problems.append(f"mutation {m}: node {u} -> {v}, allowed: {partner.get(u, 'no move')}")
    return not problems, problems


# ---------------------------------------------------------------------------------------- one input
def run_date(date, ts, mu, setting, phased):
    """(dated ts, fit) or the exception."""
    max_it, intervals, seg, allow_unary = setting
    kwargs = {} if phased is None else {"singletons_phased": phased}
    if allow_unary:  # gaps leave unary nodes behind, which tsdate rejects (cleanly) unless told otherwise
        kwargs["allow_unary"] = True
    try:
        return date(ts, mutation_rate=mu, method="variational_gamma", max_iterations=max_it,
                    rescaling_intervals=intervals, match_segregating_sites=seg, return_fit=True, **kwargs)
    except Exception as exc:  # noqa: BLE001
        return exc


def evaluate(rep, key, desc, ts, mu, setting, rng, date, n_random):
    inp = {"desc": desc, "ts": bounded_api.ts_to_json(ts), "mutation_rate": mu,
           "setting": dict(zip(("max_iterations", "rescaling_intervals", "match_segregating_sites", "allow_unary"),
                               setting))}
    odd = lopsided(ts)
    movable = sum(1 for u in ts.mutations_node if int(u) in eligible_partner(ts))

    # --- singletons_phased=True and the default
    for phased in (True, None):
        res = run_date(date, ts, mu, setting, phased)
        if isinstance(res, ValueError) and phased is True:
            rep.n_rejected = getattr(rep, "n_rejected", 0) + 1
            return  # the input itself is (cleanly) rejected by tsdate: no output to speak about
        if isinstance(res, Exception):
            if not (isinstance(res, AssertionError) and F7_MESSAGE in str(res)):
                rep.case("phased-never-changes-mutation-nodes", False, key=f"{key}/phased-{phased}", input=inp,
                         observed=f"{type(res).__name__}: {res}", expected="a dated tree sequence")
            continue
        out, fit = res
        ok = same_mutations(ts, out) and np.array_equal(out.mutations_node, ts.mutations_node)
        rep.case("phased-never-changes-mutation-nodes", ok, key=f"{key}/phased-{phased}", input=inp,
                 observed=out.mutations_node, expected=ts.mutations_node, nontrivial=movable > 0)
        rep.case("mutation-mapping-of-fit-equals-output", np.array_equal(fit.mutation_mapping(), out.mutations_node),
                 key=f"{key}/phased-{phased}", input=inp, observed=fit.mutation_mapping(),
                 expected=out.mutations_node, nontrivial=False)

    # --- singletons_phased=False on the input and on its re-phasings
    base = run_date(date, ts, mu, setting, False)
    in_gap = gap_singletons(ts)
    c_moves = KNOWN_LOPSIDED if odd else "unphased-moves-only-to-the-individuals-other-node"
    c_invariant = KNOWN_LOPSIDED if odd else (KNOWN_GAP if in_gap else "output-invariant-to-input-phase")
    base_f7 = isinstance(base, AssertionError) and F7_MESSAGE in str(base)
    if isinstance(base, Exception) and not base_f7:
        rep.case(c_moves, False, key=f"{key}/unphased", input=inp, observed=f"{type(base).__name__}: {base}",
                 expected="a dated tree sequence")
        return
    if not base_f7:
        out, fit = base
        ok, problems = moves_allowed(ts, out)
        rep.case(c_moves, ok, key=f"{key}/unphased", input=inp,
                 observed={"mutations_node": out.mutations_node, "problems": problems[:5]},
                 expected={"input mutations_node": ts.mutations_node, "partner": eligible_partner(ts)},
                 nontrivial=movable > 0)
        rep.case("mutation-mapping-of-fit-equals-output", np.array_equal(fit.mutation_mapping(), out.mutations_node),
                 key=f"{key}/unphased", input=inp, observed=fit.mutation_mapping(), expected=out.mutations_node,
                 nontrivial=False)
        rep.n_movable = getattr(rep, "n_movable", 0) + movable
        rep.n_moved = getattr(rep, "n_moved", 0) + int(np.sum(out.mutations_node != ts.mutations_node))
        ref = summary(out)
    for name, other in rephasings(ts, rng, n_random):
        rkey = f"{key}/rephased-{name}"
        changed = int(np.sum(other.mutations_node != ts.mutations_node))
        rinp = dict(inp)
        rinp["rephased_mutations_node"] = other.mutations_node.tolist()
        res = run_date(date, other, mu, setting, False)
        res_f7 = isinstance(res, AssertionError) and F7_MESSAGE in str(res)
        if base_f7 or res_f7 or isinstance(res, Exception):
            # F7 (C25/C35) must at least not depend on the phasing; any other exception is a failure
            same = base_f7 and res_f7
            rep.case(c_invariant, same, key=rkey, input=rinp,
                     observed=f"{type(res).__name__}: {res}" if isinstance(res, Exception) else "a result",
                     expected="F7 assertion as for the base input" if base_f7 else "a result as for the base input",
                     nontrivial=False)
            continue
        out2, _ = res
        ok, problems = moves_allowed(other, out2)
        rep.case(c_moves, ok, key=rkey, input=rinp,
                 observed={"mutations_node": out2.mutations_node, "problems": problems[:5]},
                 expected={"input mutations_node": other.mutations_node}, nontrivial=movable > 0)
        got = summary(out2)
        diffs = [k for k in ref if not (np.array_equal(ref[k], got[k]) if k == "mutations_node" else close(ref[k], got[k]))]
        rep.case(c_invariant, not diffs, key=rkey, input=rinp,
                 observed={k: got[k] for k in diffs}, expected={k: ref[k] for k in diffs},
                 nontrivial=changed > 0)
        if c_invariant == KNOWN_GAP:  # everything else about the output must still be invariant
            keep = np.ones(ts.num_mutations, dtype=bool)
            keep[in_gap] = False
            ok = (not [k for k in diffs if k != "mutations_node"]
                  and np.array_equal(ref["mutations_node"][keep], got["mutations_node"][keep]))
            rep.case("invariant-apart-from-nodes-of-singletons-in-gaps", ok, key=rkey, input=rinp,
                     observed={k: got[k] for k in diffs},
                     expected={"base run": {k: ref[k] for k in diffs}, "gap_singletons": in_gap},
                     nontrivial=changed > 0)
        rep.n_identical = getattr(rep, "n_identical", 0) + int(all(np.array_equal(ref[k], got[k], equal_nan=True)
                                                                  for k in ref))
        rep.n_compared = getattr(rep, "n_compared", 0) + 1


def evaluate_ineligible(rep, key, desc, ts, mu, date):
    inp = {"desc": desc, "ts": bounded_api.ts_to_json(ts), "mutation_rate": mu}
    partner = eligible_partner(ts)
    res = run_date(date, ts, mu, (3, 1, False, False), False)
    if isinstance(res, Exception):
        ok = isinstance(res, (ValueError, NotImplementedError))
        rep.case("ineligible-individuals-are-rejected-or-left-alone", ok, key=key, input=inp,
                 observed=f"{type(res).__name__}: {res}", expected="ValueError or unchanged nodes")
        return
    out, _ = res
    ok = same_mutations(ts, out) and all(int(a) == int(b) or partner.get(int(a)) == int(b)
                                         for a, b in zip(ts.mutations_node, out.mutations_node))
    rep.case("ineligible-individuals-are-rejected-or-left-alone", ok, key=key, input=inp,
             observed=out.mutations_node, expected=ts.mutations_node)


def run(req, rep):
    tier, seed = req["tier"], int(req["seed"])
    rng = np.random.default_rng(seed)
    import tsdate

    thorough = tier == "thorough"
    count, extra, max_ind, n_random = (700, 60, 6, 4) if thorough else (32, 6, 4, 2)
    rep.space = ("inputs carved from recombining msprime simulations: 2..N diploid contemporary individuals, 0..2 "
                 "contemporary and 0..1 historical sample nodes without individual, infinite-sites mutations; optional "
                 "polytomy, optional gap isolating both nodes (or, 1 in 8, one node) of an individual; random "
                 "max_iterations {2,5,10}, rescaling_intervals {0,1,3}, match_segregating_sites, mutation-rate factor "
                 "{1/3,1,3}; each dated with singletons_phased True / default / False and False on re-phasings "
                 "(all-low, all-high, random); plus inputs with a haploid or historical individual")
    rep.bound = (f"{count} inputs with 2..{max_ind} diploid individuals x {2 + n_random} re-phasings, {extra} inputs with "
                 f"an ineligible individual, seed {seed}")
    rep.exhaustive = False

    pool = Pool(rng)
    for i in range(count):
        n_ind = int(rng.integers(2, max_ind + 1))
        n_hap, n_old = int(rng.integers(0, 3)), int(rng.integers(0, 2))
        ts, mu = pool.draw(n_ind, n_hap, n_old, width=int(rng.choice([1, 40, 100, 250])),
                           muts=float(rng.choice([15, 35, 60])))
        ts = drop_individuals(ts, lambda ind: ind.nodes.size == 2)
        applied = []
        if rng.random() < 0.3:
            ts = collapse_node(ts, rng)
            applied.append("collapse_node")
        if rng.random() < 0.2:
            ts = isolate(ts, rng, both=True)
            applied.append("isolate_both_nodes")
        if i % 8 == 7:
            ts = isolate(ts, rng, both=False)
            applied.append("isolate_one_node")
        if ts.num_mutations == 0:
            continue
        setting = (int(rng.choice([2, 5, 10])), int(rng.choice([0, 1, 3])), bool(rng.integers(0, 2)),
                   any(a.startswith("isolate") for a in applied))
        mu_used = mu * float(rng.choice([1 / 3, 1.0, 3.0]))
        desc = {"sim": i, "diploid": n_ind, "haploid_no_individual": n_hap, "historical_no_individual": n_old,
                "transforms": applied}
        evaluate(rep, f"sim{i}", desc, ts, mu_used, setting, rng, tsdate.date, n_random)
    for i in range(extra):
        ts, mu = pool.draw(2, 1, 1, width=100, muts=30.0)
        kind = i % 2
        # kind 0: the haploid contemporary keeps its (one-node) individual; kind 1: the historical sample keeps it
        ts = drop_individuals(ts, lambda ind: ind.nodes.size == 2 or
                              ((ts.nodes_time[ind.nodes[0]] == 0) == (kind == 0)))
        if not has_ineligible_individual(ts) or ts.num_mutations == 0:
            continue
        evaluate_ineligible(rep, f"ineligible{i}", {"kind": ["haploid individual", "historical individual"][kind]},
                            ts, mu, tsdate.date)
    rep.notes.append(f"{getattr(rep, 'n_movable', 0)} mutations on nodes of eligible individuals in the base inputs, "
                     f"{getattr(rep, 'n_moved', 0)} of them moved to the other node by singletons_phased=False")
    rep.notes.append(f"{getattr(rep, 'n_rejected', 0)} generated inputs were rejected by tsdate with a ValueError "
                     f"for singletons_phased=True and are not counted")
    rep.notes.append(f"{getattr(rep, 'n_identical', 0)} of {getattr(rep, 'n_compared', 0)} re-phased runs were "
                     f"bit-identical to the base run")


if __name__ == "__main__":
    bounded_api.main(run)
