"""
Bounded stand-in (G4) for C18 -- "EP moment updates respect support and match the true tilted moments".

The contract is evaluated on the REAL functions of tsdate/approx.py (the *_moments kernels and the *_projection
wrappers that ExpectationPropagation calls).  The specification oracle is numerical integration (mpmath
tanh-sinh quadrature, 20 significant digits) of the densities written in the property statement / the kernel
docstrings; it shares no code with tsdate (no hypergeometric function is evaluated anywhere in this file).
Two-dimensional tilted densities are reduced to one dimension by an elementary change of variables in which
the scale variable integrates to a gamma function (phased: t_j = u t_i; unphased: w = t_i + t_j, v = t_j / w);
that reduction is itself validated against a direct 2-D mpmath.quad of the stated density on a few points at
the start of every run (an oracle self-test; a disagreement aborts the run with an error, it is not a verdict).

Contract clauses (one obligation each)
  update-skips-explicitly-or-returns-finite-positive-variance
      evaluated on the *_projection wrappers (these are the EP updates): the call either returns the explicit skip
      (node wrappers: NaN normaliser and the cavity parameters returned unchanged; mutation wrappers: NaN phase and
      NaN parameters) or a finite normaliser / phase and a gamma with shape alpha+1 > 0 and rate > 0, i.e. finite
      mean and positive variance.  An exception is neither and fails the clause.  (A kernel may return a negative
      variance or a phase outside [0,1]; the wrapper must turn that into the skip - counted in the notes.)
  The remaining clauses are evaluated on every update that was NOT skipped:
  free-child-below-fixed-parent          leafward: 0 < E[t_j] < t_i
  free-parent-above-fixed-child          rootward: E[t_i] > t_j
  free-parent-older-than-free-child      moments: E[t_i] > E[t_j] > 0
  mutation-between-ends                  mutation_*: lower end < E[t_m] < upper end (fixed ends exactly; a free end is
                                         the integrated mean of that end, with the 5 % slack of the mean clause)
  phase-in-unit-interval                 0 <= phase <= 1 returned by the unphased / sideways / block / twin wrappers
  mean-within-5pct-of-integration        every returned mean (node means and mutation means) agrees with the
                                         integrated mean of the same density to 5 % relative ("a few percent")
  phase-within-5-points-of-integration   |phase - integrated P[mutation under i]| <= 0.05 (the phase is the mean of
                                         an indicator; this extends "means agree" to it, in percentage points because
                                         the exact phase can be arbitrarily close to 0)
  wrapper-projects-kernel-moments        the gamma returned by a *_projection has exactly the kernel's mean and
                                         variance (method of moments; rtol 1e-9, algebraically identical)
  closed-form-cases-exact                child at time zero (rootward, t_j = 0), both ends fixed (mutation_edge,
                                         mutation_block) and twin blocks (twin, mutation_twin): normaliser, mean,
                                         variance and phase equal the exact values to rtol 1e-9
  known-*  the same 5 % test as mean-within-5pct-of-integration, isolated on three input conditions (stated on the
           input / the exact integrated quantities, never on the code's output) where the unchanged code misses it:
    known-unphased-younger-parent-mean-cancellation   unphased_moments E[t_i] when z E[t_j] > E[t_i] (exact means),
           z = (mu+b_j)/(mu+b_i): E[t_i] is formed as (a_i+a_j+y)/(mu+b_i) - z E[t_j] and the Laplace error of E[t_j]
           (<= ~4 %) is amplified by z E[t_j]/E[t_i]; observed relative errors up to 23x at y = 1000, shapes ~1.
           E[t_j] of the same call is accurate, and calling with the two parents swapped gives an accurate E[t_i].
    known-mutation-unphased-mean-cavity-shape-le-1    mutation_unphased_moments E[t_m] when min(a_i, a_j) <= 1
    known-mutation-sideways-mean-cavity-shape-le-1    mutation_sideways_moments E[t_m] when a_j <= 1
           (ratios of Laplace approximations with different first parameters; 3.2 % .. 5.3 % observed)

Input space
  (A) argument tuples captured from real ExpectationPropagation runs (approx.*_projection wrapped in-process,
      needs NUMBA_DISABLE_JIT=1, otherwise the note says that nothing was captured) on three small simulated inputs:
      haploid, historical samples, unphased diploid; a seeded sample of the captured tuples goes to the oracle.
  (B) a seeded random sample of the product lattice over the marginal ranges that logged EP runs produced
      (10 tree sequences, 2.4e6 wrapper calls):  shapes a in {0.99,1,1.5,3,10,50,300,1000},
      y in {0,0.3,1,3,10,50,240,1000}, mu/b_i in {1e-4,1e-2,0.1,0.5,1,2}, b_j/b_i in {1e-3,0.03,0.3,1,4,30,460},
      fixed age x rate in {0.01,0.1,1,3,10,60} (and t_j = 0), flat parent cavities (shape 1, rate 0) in every tenth
      point, overall time scale 10^U(-3,3).
  (C) closed-form cases: twin blocks on shapes x y x rates (quick: 60 seeded of 1024; thorough: all 1024),
      all 100 ordered pairs of 8 fixed ages (and t_j = 0) for mutation_edge / mutation_block.
  quick:    45 lattice points per family (5 families) + up to 6 captured tuples per wrapper       (~35 s idle)
  thorough: 900 lattice points per family + up to 60 captured tuples per wrapper                   (<= 15 min)
  Not exhaustive (seeded sample of a lattice; the lattice itself is a sample of a continuum).
  A wall-clock budget (params.budget_s) is a safety net only; any case it drops is reported in the notes.

Tolerances
  5e-2 relative for means against integration (statement: "within a few percent"; the repository's own tests use
  1-2 % on four parameter vectors).  The oracle's own quadrature error estimate must be < 1e-8 relative (retried at
  higher precision), otherwise the case is counted in the notes and not evaluated.
  1e-9 relative for closed forms and the method-of-moments identity (algebraically identical computations).

NOT covered: variances and normalising constants of the Laplace-based branches are not compared with
integration (the statement only bounds the means); improper / invalid cavities (shape <= 0, negative rates)
other than the flat cavity; behaviour under JIT (this module calls whatever `tsdate.approx` exposes; under
NUMBA_DISABLE_JIT=1 those are the plain-Python kernels, where math domain errors raise instead of returning NaN).
"""
import math
import time

import mpmath
import numpy as np
from mpmath import mp, mpf

from rt import bounded_api, inputs

TOL_MEAN = 5e-2   # "within a few percent"
TOL_EXACT = 1e-9  # algebraically identical computations
QUAD_RTOL = 1e-8  # required accuracy of the oracle itself

mp.dps = 20


# =========================================================================================== oracle
def _xl(c, x, log):
    """c * log(x) with the convention 0 * log(0) = 0 (a zero exponent means the factor is absent)."""
    return 0 if c == 0 else c * log(x)


def _flog(x):
    return math.log(x) if x > 0 else -math.inf


def _peak(logf, lo, hi):
    """Float search for the maximiser of logf on (lo, hi) and the distances over which it drops by 1."""
    def f(x):
        try:
            v = logf(x, _flog)
        except (ValueError, OverflowError, ZeroDivisionError):
            return -math.inf
        return v if v == v else -math.inf

    if hi == math.inf:
        cands = [lo + 10.0 ** (k / 4.0) for k in range(-100, 101)]
    else:
        n = 200
        w = hi - lo
        cands = [lo + w * (k + 0.5) / n for k in range(n)]
        cands += [lo + w * 10.0 ** (-k / 2.0) for k in range(4, 40)]
        cands += [hi - w * 10.0 ** (-k / 2.0) for k in range(4, 31)]
    cands = sorted({c for c in cands if lo < c < hi})
    vals = [f(c) for c in cands]
    i = max(range(len(cands)), key=vals.__getitem__)
    m = cands[i]
    a = cands[i - 1] if i > 0 else lo + (m - lo) * 0.5
    b = cands[i + 1] if i + 1 < len(cands) else (2 * m if hi == math.inf else m + (hi - m) * 0.5)
    g = (math.sqrt(5) - 1) / 2
    for _ in range(50):
        c1, c2 = b - g * (b - a), a + g * (b - a)
        if f(c1) > f(c2):
            b = c2
        else:
            a = c1
    m = 0.5 * (a + b)
    fm = f(m)

    def drop(sign, limit):
        step = max(abs(m - lo), 1e-300) * 1e-7
        for _ in range(200):
            x = m + sign * step
            if (sign < 0 and x <= limit) or (sign > 0 and x >= limit):
                return None
            if fm - f(x) > 1.0:
                return step
            step *= 2
        return None

    return m, fm, drop(-1, lo), drop(+1, hi)


class OracleError(Exception):
    pass


def _integrals(logf, lo, hi, weights):
    """[ integral over (lo,hi) of w(x) exp(logf(x)) dx  for w in weights ] / exp(shift), plus shift.

    logf(x, log) is generic in the log function so that the peak can be located in floats and the
    quadrature done in mpmath.  Panels are placed around the peak; tanh-sinh copes with the algebraic
    end-point singularities x^(a-1), a < 1."""
    m, fm, wl, wr = _peak(logf, lo, hi)
    if not math.isfinite(fm):
        raise OracleError("no finite maximum")
    pts = {mpf(lo), mpf(m)}
    for k in (40, 12, 4, 1.5):
        if wl is not None and m - k * wl > lo:
            pts.add(mpf(m - k * wl))
        if wr is not None and m + k * wr < hi:
            pts.add(mpf(m + k * wr))
    pts = sorted(pts) + [mp.inf if hi == math.inf else mpf(hi)]
    shift = mpf(fm)
    lo_m, hi_m = pts[0], pts[-1]
    rel = None
    for attempt in range(3):
        # mpmath's error estimate is absolute (relative to the integrand scale); when a weighted integral is much
        # smaller than that scale the estimate is only brought down by working at a higher precision
        with mp.workdps(mp.dps + 15 * attempt):
            out = []
            for w in weights:
                def g(x, w=w):
                    if x <= lo_m or x >= hi_m:  # a node rounded onto an end point (integrable singularity): measure zero
                        return mpf(0)
                    return w(x) * mp.exp(logf(x, mp.log) - shift)
                val, err = mpmath.quad(g, pts, error=True, maxdegree=8 + 2 * attempt)
                out.append((val, err))
        z = out[0][0]
        if not (z > 0):
            raise OracleError("non-positive normaliser")
        rel = max(abs(e / z) if v == 0 else abs(e / v) for v, e in out)
        if rel <= QUAD_RTOL:  # False for NaN
            return [v for v, _ in out], shift
    raise OracleError(f"quadrature error estimate {float(rel):.1e}")


def ref_rootward(t_j, a_i, b_i, y, mu, second=False):
    """p(t_i) ~ (t_i-t_j)^y e^{-mu (t_i-t_j)} t_i^(a_i-1) e^{-b_i t_i} on t_i > t_j   (x = t_i - t_j)."""
    t_j, a_i, b_i, y, mu = (mpf(v) for v in (t_j, a_i, b_i, y, mu))
    fl = [float(v) for v in (t_j, a_i, b_i, y, mu)]

    def logf(x, log):
        tj, ai, bi, yy, m_ = (t_j, a_i, b_i, y, mu) if log is mp.log else fl
        return _xl(yy, x, log) - m_ * x + _xl(ai - 1, tj + x, log) - bi * (tj + x)

    ws = [lambda x: 1, lambda x: t_j + x] + ([lambda x: (t_j + x) ** 2] if second else [])
    vals, shift = _integrals(logf, 0.0, math.inf, ws)
    z, mn = vals[0], vals[1] / vals[0]
    out = {"mn_i": mn, "logZ": mp.log(z) + shift}
    if second:
        out["va_i"] = vals[2] / z - mn ** 2
    return out


def ref_leafward(t_i, a_j, b_j, y, mu):
    """p(t_j) ~ (t_i-t_j)^y e^{-mu (t_i-t_j)} t_j^(a_j-1) e^{-b_j t_j} on 0 < t_j < t_i."""
    t_i, a_j, b_j, y, mu = (mpf(v) for v in (t_i, a_j, b_j, y, mu))
    fl = [float(v) for v in (t_i, a_j, b_j, y, mu)]

    def logf(t, log):
        ti, aj, bj, yy, m_ = (t_i, a_j, b_j, y, mu) if log is mp.log else fl
        return _xl(yy, ti - t, log) - m_ * (ti - t) + _xl(aj - 1, t, log) - bj * t

    (z, m1), shift = _integrals(logf, 0.0, float(t_i), [lambda t: 1, lambda t: t])
    return {"mn_j": m1 / z, "logZ": mp.log(z) + shift}


def ref_sideways(t_i, a_j, b_j, y, mu):
    """p(t_j) ~ (t_i+t_j)^y e^{-mu (t_i+t_j)} t_j^(a_j-1) e^{-b_j t_j} on t_j > 0; the mutation is under the fixed
    parent i with probability t_i/(t_i+t_j) and uniform on (0, t_i), else uniform on (0, t_j)."""
    t_i, a_j, b_j, y, mu = (mpf(v) for v in (t_i, a_j, b_j, y, mu))
    fl = [float(v) for v in (t_i, a_j, b_j, y, mu)]

    def logf(t, log):
        ti, aj, bj, yy, m_ = (t_i, a_j, b_j, y, mu) if log is mp.log else fl
        return _xl(yy, ti + t, log) - m_ * (ti + t) + _xl(aj - 1, t, log) - bj * t

    ws = [lambda t: 1, lambda t: t, lambda t: t_i / (t_i + t), lambda t: (t_i ** 2 + t ** 2) / (2 * (t_i + t))]
    (z, m1, pr, mm), shift = _integrals(logf, 0.0, math.inf, ws)
    return {"mn_j": m1 / z, "pr_m": pr / z, "mn_m": mm / z, "logZ": mp.log(z) + shift}


def ref_phased(a_i, b_i, a_j, b_j, y, mu):
    """p(t_i,t_j) ~ (t_i-t_j)^y e^{-mu (t_i-t_j)} t_i^(a_i-1) e^{-b_i t_i} t_j^(a_j-1) e^{-b_j t_j}, t_i > t_j > 0.
    With t_j = u t_i the t_i integral is a gamma integral:
      E[t_i^k t_j^m] Z = Gamma(s+k+m) Int_0^1 u^(a_j-1+m) (1-u)^y (T + u D)^-(s+k+m) du,
      s = a_i + a_j + y, T = mu + b_i, D = b_j - mu.   Mutation: uniform on (t_j, t_i) given the ends."""
    a_i, b_i, a_j, b_j, y, mu = (mpf(v) for v in (a_i, b_i, a_j, b_j, y, mu))
    s, T, D = a_i + a_j + y, mu + b_i, b_j - mu
    fs, fT, fD, faj, fy = float(s), float(T), float(D), float(a_j), float(y)

    def logf(u, log):
        if log is mp.log:
            return _xl(a_j - 1, u, log) + _xl(y, 1 - u, log) - s * log(T + u * D)
        return _xl(faj - 1, u, log) + _xl(fy, 1 - u, log) - fs * log(fT + u * fD)

    ws = [lambda u: 1, lambda u: s / (T + u * D), lambda u: s * u / (T + u * D)]
    (z, mi, mj), shift = _integrals(logf, 0.0, 1.0, ws)
    return {"mn_i": mi / z, "mn_j": mj / z, "mn_m": (mi + mj) / (2 * z), "logZ": mp.log(z) + shift + mpmath.loggamma(s)}


def ref_unphased(a_i, b_i, a_j, b_j, y, mu):
    """p(t_i,t_j) ~ (t_i+t_j)^y e^{-mu (t_i+t_j)} t_i^(a_i-1) e^{-b_i t_i} t_j^(a_j-1) e^{-b_j t_j}, t_i, t_j > 0.
    With w = t_i + t_j, v = t_j / w the w integral is a gamma integral:
      E[w^n h(v)] Z = Gamma(s+n) Int_0^1 (1-v)^(a_i-1) v^(a_j-1) h(v) C(v)^-(s+n) dv,  C(v) = mu + b_i + v (b_j - b_i).
    Mutation: under i with probability t_i/(t_i+t_j) = 1-v, then uniform on (0, t_i); else uniform on (0, t_j)."""
    a_i, b_i, a_j, b_j, y, mu = (mpf(v) for v in (a_i, b_i, a_j, b_j, y, mu))
    s, C0, C1 = a_i + a_j + y, mu + b_i, b_j - b_i
    fs, fC0, fC1, fai, faj = float(s), float(C0), float(C1), float(a_i), float(a_j)

    def logf(v, log):
        if log is mp.log:
            return _xl(a_i - 1, 1 - v, log) + _xl(a_j - 1, v, log) - s * log(C0 + v * C1)
        return _xl(fai - 1, 1 - v, log) + _xl(faj - 1, v, log) - fs * log(fC0 + v * fC1)

    ws = [lambda v: 1, lambda v: s * (1 - v) / (C0 + v * C1), lambda v: s * v / (C0 + v * C1), lambda v: 1 - v,
          lambda v: s * ((1 - v) ** 2 + v ** 2) / (2 * (C0 + v * C1))]
    (z, mi, mj, pr, mm), shift = _integrals(logf, 0.0, 1.0, ws)
    return {"mn_i": mi / z, "mn_j": mj / z, "pr_m": pr / z, "mn_m": mm / z,
            "logZ": mp.log(z) + shift + mpmath.loggamma(s)}


def _oracle_selftest():
    """The 1-D reductions against a direct 2-D quadrature of the stated joint densities."""
    a_i, b_i, a_j, b_j, y, mu = (mpf(v) for v in ("3", "1", "2", "2.5", "2", "0.7"))
    old = mp.dps
    mp.dps = 15
    try:
        def ph(ti, tj):  # phased joint on tj < ti, written with tj = x*ti, jacobian ti
            return lambda T, x: (T - x * T) ** y * mp.exp(-mu * (T - x * T)) * T ** (a_i - 1) * mp.exp(-b_i * T) * \
                (x * T) ** (a_j - 1) * mp.exp(-b_j * x * T) * T * ti(T, x * T) * tj(T, x * T)
        one = lambda p, q: 1
        Z = mpmath.quad(ph(one, one), [0, mp.inf], [0, 1])
        mi = mpmath.quad(ph(lambda p, q: p, one), [0, mp.inf], [0, 1]) / Z
        mj = mpmath.quad(ph(one, lambda p, q: q), [0, mp.inf], [0, 1]) / Z
        r = ref_phased(a_i, b_i, a_j, b_j, y, mu)
        ok = abs(mi / r["mn_i"] - 1) < 1e-8 and abs(mj / r["mn_j"] - 1) < 1e-8 and abs(mp.log(Z) - r["logZ"]) < 1e-8

        def un(h):  # unphased joint on the positive quadrant
            return lambda p, q: (p + q) ** y * mp.exp(-mu * (p + q)) * p ** (a_i - 1) * mp.exp(-b_i * p) * \
                q ** (a_j - 1) * mp.exp(-b_j * q) * h(p, q)
        Z = mpmath.quad(un(one), [0, mp.inf], [0, mp.inf])
        mi = mpmath.quad(un(lambda p, q: p), [0, mp.inf], [0, mp.inf]) / Z
        pr = mpmath.quad(un(lambda p, q: p / (p + q)), [0, mp.inf], [0, mp.inf]) / Z
        mm = mpmath.quad(un(lambda p, q: (p * p + q * q) / (2 * (p + q))), [0, mp.inf], [0, mp.inf]) / Z
        r = ref_unphased(a_i, b_i, a_j, b_j, y, mu)
        ok = ok and abs(mi / r["mn_i"] - 1) < 1e-8 and abs(pr / r["pr_m"] - 1) < 1e-8 and \
            abs(mm / r["mn_m"] - 1) < 1e-8 and abs(mp.log(Z) - r["logZ"]) < 1e-8
    finally:
        mp.dps = old
    if not ok:
        raise RuntimeError("oracle self-test failed: 1-D reduction disagrees with 2-D quadrature")


# =========================================================================================== helpers
def _isnan(x):
    return isinstance(x, float) and x != x or (hasattr(x, "dtype") and bool(np.all(np.isnan(x))))


def _fin(*xs):
    return all(math.isfinite(float(x)) for x in xs)


def _rel(o, r):
    r = float(r)
    return abs(float(o) - r) / abs(r) if r != 0 else abs(float(o))


def _call(f, *args):
    """(result, None) or (None, 'ExcType: msg')"""
    try:
        return f(*args), None
    except Exception as e:  # an exception is neither a skip nor a valid update
        return None, f"{type(e).__name__}: {e}"


def _nat(a, b):
    """natural parameters (alpha, beta) = (shape - 1, rate) as the read-only float64 arrays the wrappers take"""
    return np.array([a - 1.0, b], dtype=np.float64)


class Ctx:
    def __init__(self, rep):
        self.rep = rep
        self.worst = {}
        self.oracle_fail = 0
        self.skips = {}
        self.debug = False
        self.deferred = []
        self.phase_out = []
        self.debug_rows = []

    def track(self, name, err, inp):
        if err > self.worst.get(name, (0.0, None))[0]:
            self.worst[name] = (err, inp)


PHASED_WRAPPERS = ("mutation_unphased_projection", "mutation_sideways_projection", "mutation_twin_projection",
                   "mutation_block_projection")
SKIP_CLAUSE = "update-skips-explicitly-or-returns-finite-positive-variance"
MEAN_CLAUSE = "mean-within-5pct-of-integration"
PROJ_CLAUSE = "wrapper-projects-kernel-moments"
EXACT_CLAUSE = "closed-form-cases-exact"
PHASE_CLAUSE = "phase-within-5-points-of-integration"


def _check_node_wrapper(cx, key, inp, name, out, exc, cavities, kernel_moments):
    """Node wrappers return (logl, pars...) ; skip = (nan, the cavity arrays unchanged)."""
    rep = cx.rep
    if exc is not None:
        rep.case(SKIP_CLAUSE, False, key=key, input=inp, observed=f"{name}: {exc}", expected="skip or valid update")
        return
    logl, pars = float(out[0]), [np.asarray(p, dtype=float) for p in out[1:]]
    if logl != logl:
        ok = all(np.array_equal(p, c) for p, c in zip(pars, cavities))
        cx.skips[name] = cx.skips.get(name, 0) + 1
        rep.case(SKIP_CLAUSE, ok, key=key, input=inp, observed={"fn": name, "logl": "nan", "pars": pars},
                 expected="NaN normaliser with the cavity returned unchanged", nontrivial=False)
        return
    ok = math.isfinite(logl) and all(np.all(np.isfinite(p)) and p[0] + 1 > 0 and p[1] > 0 for p in pars)
    rep.case(SKIP_CLAUSE, ok, key=key, input=inp, observed={"fn": name, "logl": logl, "pars": pars},
             expected="finite normaliser, shape > 0, rate > 0")
    if ok and kernel_moments is not None:
        good = True
        for p, (mn, va) in zip(pars, kernel_moments):
            sh, ra = p[0] + 1, p[1]
            good = good and _rel(sh / ra, mn) <= TOL_EXACT and _rel(sh / ra ** 2, va) <= TOL_EXACT
        rep.case(PROJ_CLAUSE, good, key=key, input=inp, observed={"fn": name, "pars": pars},
                 expected={"moments": kernel_moments})


def _check_mut_wrapper(cx, key, inp, name, out, exc, kernel):
    """Mutation wrappers return (phase, pars); skip = (nan, [nan, nan]). kernel = (pr, mn, va) of the kernel."""
    rep = cx.rep
    if exc is not None:
        rep.case(SKIP_CLAUSE, False, key=key, input=inp, observed=f"{name}: {exc}", expected="skip or valid update")
        return
    ph, p = float(out[0]), np.asarray(out[1], dtype=float)
    if ph != ph:
        cx.skips[name] = cx.skips.get(name, 0) + 1
        rep.case(SKIP_CLAUSE, bool(np.all(np.isnan(p))), key=key, input=inp, observed={"fn": name, "phase": "nan", "pars": p},
                 expected="NaN phase with NaN parameters", nontrivial=False)
        return
    ok = bool(np.all(np.isfinite(p))) and p[0] + 1 > 0 and p[1] > 0 and math.isfinite(ph)
    rep.case(SKIP_CLAUSE, ok, key=key, input=inp, observed={"fn": name, "phase": ph, "pars": p},
             expected="finite phase, shape > 0, rate > 0")
    if name in PHASED_WRAPPERS:
        rep.case("phase-in-unit-interval", 0.0 <= ph <= 1.0, key=key, input=inp, observed={"fn": name, "phase": ph})
    if ok and kernel is not None:
        pr, mn, va = kernel
        sh, ra = p[0] + 1, p[1]
        good = _rel(sh / ra, mn) <= TOL_EXACT and _rel(sh / ra ** 2, va) <= TOL_EXACT and (pr is None or ph == pr)
        rep.case(PROJ_CLAUSE, good, key=key, input=inp, observed={"fn": name, "phase": ph, "pars": p},
                 expected={"kernel": kernel})


def _kernel_valid(cx, key, inp, name, out, exc, pairs):
    """True iff the kernel returned finite moments with positive mean and variance for each (mean, var) pair, i.e.
    iff the wrapper (the EP update proper) goes on to project them instead of skipping.  Nothing is reported here:
    the skip-or-valid clause is evaluated on the wrappers, which see the same exception / NaN / negative variance."""
    if exc is not None:
        return False
    vals = [float(v) for v in out]
    return all(math.isfinite(v) for v in vals) and all(vals[m] > 0 and vals[v] > 0 for m, v in pairs)


def _mean_case(cx, key, inp, what, observed, reference, known=None):
    """|observed/reference - 1| <= 5 %; `known` routes an isolated, documented condition to its own clause."""
    err = _rel(observed, reference)
    cx.track(what, err, inp)
    if cx.debug and not (err <= 0.03):
        cx.debug_rows.append((what, round(err, 4), inp))
    kw = dict(key=key, input=inp, observed={"quantity": what, "value": float(observed), "rel_err": err},
              expected={"integrated_mean": float(reference), "rtol": TOL_MEAN})
    if known is None:
        cx.rep.case(MEAN_CLAUSE, err <= TOL_MEAN, **kw)
    else:  # reported after all generic cases, so that known failures never crowd a new one out of the failure list
        cx.deferred.append((known, err <= TOL_MEAN, kw))


def _phase_case(cx, key, inp, what, observed, reference):
    """|P_code - P_integrated| <= 0.05 (absolute: a probability is the mean of an indicator; 'a few percent' is read
    as percentage points because the exact phase can be arbitrarily close to 0)."""
    err = abs(float(observed) - float(reference))
    cx.track(what + "(abs)", err, inp)
    cx.rep.case(PHASE_CLAUSE, err <= TOL_MEAN, key=key, input=inp,
                observed={"quantity": what, "value": float(observed), "abs_err": err},
                expected={"integrated_probability": float(reference), "atol": TOL_MEAN})


# =========================================================================================== known conditions
# Conditions (stated on the INPUT, using the exact integrated quantities, never on the code's output) under which
# the unchanged code misses the 5 % bound.  They are evaluated with the same strict test in their own clause.
def known_unphased_cancellation(ref, b_i, b_j, mu):
    """unphased_moments forms E[t_i] = (a_i+a_j+y)/(mu+b_i) - z E[t_j], z = (mu+b_j)/(mu+b_i), by subtraction.  The
    relative Laplace error of E[t_j] (up to ~4 %) is multiplied by kappa = z E[t_j] / E[t_i] in E[t_i]; the condition
    isolated here is kappa > 1 (the subtracted term exceeds the result), evaluated with the exact integrated means."""
    z = (mpf(mu) + mpf(b_j)) / (mpf(mu) + mpf(b_i))
    return z * ref["mn_j"] / ref["mn_i"] > 1


KNOWN_UNPHASED = "known-unphased-younger-parent-mean-cancellation"
KNOWN_SIDEWAYS = "known-mutation-sideways-mean-cavity-shape-le-1"
KNOWN_UNPHASED_MUT = "known-mutation-unphased-mean-cavity-shape-le-1"


# =========================================================================================== families
def fam_phased(cx, approx, p, tag):
    a_i, b_i, a_j, b_j, y, mu = p
    inp = {"family": "phased", "a_i": a_i, "b_i": b_i, "a_j": a_j, "b_j": b_j, "y_ij": y, "mu_ij": mu, "src": tag}
    key = ("phased",) + tuple(p)
    out, exc = _call(approx.moments, a_i, b_i, a_j, b_j, y, mu)
    ok = _kernel_valid(cx, key, inp, "moments", out, exc, [(1, 2), (3, 4)])
    mout, mexc = _call(approx.mutation_moments, a_i, b_i, a_j, b_j, y, mu)
    mok = _kernel_valid(cx, key, inp, "mutation_moments", mout, mexc, [(0, 1)])
    pi, pj, pe = _nat(a_i, b_i), _nat(a_j, b_j), np.array([y, mu])
    w, wexc = _call(approx.gamma_projection, pi, pj, pe)
    _check_node_wrapper(cx, key, inp, "gamma_projection", w, wexc, [pi, pj],
                        [(out[1], out[2]), (out[3], out[4])] if ok else None)
    w, wexc = _call(approx.mutation_gamma_projection, pi, pj, pe)
    _check_mut_wrapper(cx, key, inp, "mutation_gamma_projection", w, wexc, (1.0, mout[0], mout[1]) if mok else None)
    if not (ok or mok):
        return
    try:
        ref = ref_phased(a_i, b_i, a_j, b_j, y, mu)
    except OracleError:
        cx.oracle_fail += 1
        return
    if ok:
        cx.rep.case("free-parent-older-than-free-child", out[1] > out[3] > 0, key=key, input=inp,
                    observed={"mn_i": out[1], "mn_j": out[3]}, expected="mn_i > mn_j > 0")
        _mean_case(cx, key, inp, "moments.mn_i", out[1], ref["mn_i"])
        _mean_case(cx, key, inp, "moments.mn_j", out[3], ref["mn_j"])
    if mok:
        lo, hi = float(ref["mn_j"]), float(ref["mn_i"])
        cx.rep.case("mutation-between-ends", lo * (1 - TOL_MEAN) < mout[0] < hi * (1 + TOL_MEAN), key=key, input=inp,
                    observed={"mn_m": mout[0]}, expected={"E[t_j]": lo, "E[t_i]": hi})
        _mean_case(cx, key, inp, "mutation_moments.mn_m", mout[0], ref["mn_m"])


def fam_unphased(cx, approx, p, tag):
    a_i, b_i, a_j, b_j, y, mu = p
    inp = {"family": "unphased", "a_i": a_i, "b_i": b_i, "a_j": a_j, "b_j": b_j, "y_ij": y, "mu_ij": mu, "src": tag}
    key = ("unphased",) + tuple(p)
    out, exc = _call(approx.unphased_moments, a_i, b_i, a_j, b_j, y, mu)
    ok = _kernel_valid(cx, key, inp, "unphased_moments", out, exc, [(1, 2), (3, 4)])
    mout, mexc = _call(approx.mutation_unphased_moments, a_i, b_i, a_j, b_j, y, mu)
    mok = _kernel_valid(cx, key, inp, "mutation_unphased_moments", mout, mexc, [(1, 2)])
    pi, pj, pe = _nat(a_i, b_i), _nat(a_j, b_j), np.array([y, mu])
    w, wexc = _call(approx.unphased_projection, pi, pj, pe)
    _check_node_wrapper(cx, key, inp, "unphased_projection", w, wexc, [pi, pj],
                        [(out[1], out[2]), (out[3], out[4])] if ok else None)
    w, wexc = _call(approx.mutation_unphased_projection, pi, pj, pe)
    _check_mut_wrapper(cx, key, inp, "mutation_unphased_projection", w, wexc,
                       (mout[0], mout[1], mout[2]) if (mok and 0 <= mout[0] <= 1) else None)
    if not (ok or mok):
        return
    try:
        ref = ref_unphased(a_i, b_i, a_j, b_j, y, mu)
    except OracleError:
        cx.oracle_fail += 1
        return
    if ok:
        small = known_unphased_cancellation(ref, b_i, b_j, mu)
        _mean_case(cx, key, inp, "unphased_moments.mn_i", out[1], ref["mn_i"], known=KNOWN_UNPHASED if small else None)
        _mean_case(cx, key, inp, "unphased_moments.mn_j", out[3], ref["mn_j"])
    if mok and not (0.0 <= mout[0] <= 1.0):  # the wrapper turns this into an explicit skip (checked above)
        cx.phase_out.append(("mutation_unphased_moments", mout[0], float(ref["pr_m"]), inp))
        mok = False
    if mok:
        _phase_case(cx, key, inp, "mutation_unphased_moments.pr_m", mout[0], ref["pr_m"])
        hi = float(ref["mn_i"] + ref["mn_j"])
        cx.rep.case("mutation-between-ends", 0 < mout[1] < hi, key=key, input=inp, observed={"mn_m": mout[1]},
                    expected={"upper": hi})
        _mean_case(cx, key, inp, "mutation_unphased_moments.mn_m", mout[1], ref["mn_m"],
                   known=KNOWN_UNPHASED_MUT if min(a_i, a_j) <= 1.0 else None)


def fam_rootward(cx, approx, p, tag):
    t_j, a_i, b_i, y, mu = p
    inp = {"family": "rootward", "t_j": t_j, "a_i": a_i, "b_i": b_i, "y_ij": y, "mu_ij": mu, "src": tag}
    key = ("rootward",) + tuple(p)
    out, exc = _call(approx.rootward_moments, t_j, a_i, b_i, y, mu)
    ok = _kernel_valid(cx, key, inp, "rootward_moments", out, exc, [(1, 2)])
    mout, mexc = _call(approx.mutation_rootward_moments, t_j, a_i, b_i, y, mu)
    mok = _kernel_valid(cx, key, inp, "mutation_rootward_moments", mout, mexc, [(0, 1)])
    pi, pe = _nat(a_i, b_i), np.array([y, mu])
    w, wexc = _call(approx.rootward_projection, t_j, pi, pe)
    _check_node_wrapper(cx, key, inp, "rootward_projection", w, wexc, [pi], [(out[1], out[2])] if ok else None)
    w, wexc = _call(approx.mutation_rootward_projection, t_j, pi, pe)
    _check_mut_wrapper(cx, key, inp, "mutation_rootward_projection", w, wexc, (1.0, mout[0], mout[1]) if mok else None)
    if not (ok or mok):
        return
    try:
        ref = ref_rootward(t_j, a_i, b_i, y, mu, second=(t_j == 0.0))
    except OracleError:
        cx.oracle_fail += 1
        return
    if ok:
        cx.rep.case("free-parent-above-fixed-child", out[1] > t_j, key=key, input=inp, observed={"mn_i": out[1]},
                    expected={"t_j": t_j})
        _mean_case(cx, key, inp, "rootward_moments.mn_i", out[1], ref["mn_i"])
        if t_j == 0.0:
            s, r = mpf(a_i) + mpf(y), mpf(b_i) + mpf(mu)
            ex = {"logl": mpmath.loggamma(s) - s * mp.log(r), "mn": s / r, "va": s / r ** 2}
            tied = _rel(ex["mn"], ref["mn_i"]) < 1e-12 and _rel(ex["va"], ref["va_i"]) < 1e-9 and \
                abs(ex["logl"] - ref["logZ"]) < 1e-10 * max(1, abs(ex["logl"]))
            if not tied:
                raise RuntimeError(f"oracle: closed form for t_j = 0 disagrees with quadrature at {inp}")
            good = _rel(out[1], ex["mn"]) <= TOL_EXACT and _rel(out[2], ex["va"]) <= TOL_EXACT and \
                abs(out[0] - float(ex["logl"])) <= TOL_EXACT * max(1.0, abs(float(ex["logl"])))
            cx.rep.case(EXACT_CLAUSE, good, key=key, input=inp, observed={"fn": "rootward_moments", "out": list(out)},
                        expected={k: float(v) for k, v in ex.items()})
    if mok:
        hi = float(ref["mn_i"])
        cx.rep.case("mutation-between-ends", t_j < mout[0] < hi * (1 + TOL_MEAN), key=key, input=inp,
                    observed={"mn_m": mout[0]}, expected={"t_j": t_j, "E[t_i]": hi})
        _mean_case(cx, key, inp, "mutation_rootward_moments.mn_m", mout[0], (ref["mn_i"] + mpf(t_j)) / 2)


def fam_leafward(cx, approx, p, tag):
    t_i, a_j, b_j, y, mu = p
    inp = {"family": "leafward", "t_i": t_i, "a_j": a_j, "b_j": b_j, "y_ij": y, "mu_ij": mu, "src": tag}
    key = ("leafward",) + tuple(p)
    out, exc = _call(approx.leafward_moments, t_i, a_j, b_j, y, mu)
    ok = _kernel_valid(cx, key, inp, "leafward_moments", out, exc, [(1, 2)])
    mout, mexc = _call(approx.mutation_leafward_moments, t_i, a_j, b_j, y, mu)
    mok = _kernel_valid(cx, key, inp, "mutation_leafward_moments", mout, mexc, [(0, 1)])
    pj, pe = _nat(a_j, b_j), np.array([y, mu])
    w, wexc = _call(approx.leafward_projection, t_i, pj, pe)
    _check_node_wrapper(cx, key, inp, "leafward_projection", w, wexc, [pj], [(out[1], out[2])] if ok else None)
    w, wexc = _call(approx.mutation_leafward_projection, t_i, pj, pe)
    _check_mut_wrapper(cx, key, inp, "mutation_leafward_projection", w, wexc, (1.0, mout[0], mout[1]) if mok else None)
    if not (ok or mok):
        return
    try:
        ref = ref_leafward(t_i, a_j, b_j, y, mu)
    except OracleError:
        cx.oracle_fail += 1
        return
    if ok:
        cx.rep.case("free-child-below-fixed-parent", 0 < out[1] < t_i, key=key, input=inp, observed={"mn_j": out[1]},
                    expected={"t_i": t_i})
        _mean_case(cx, key, inp, "leafward_moments.mn_j", out[1], ref["mn_j"])
    if mok:
        lo = float(ref["mn_j"])
        cx.rep.case("mutation-between-ends", lo * (1 - TOL_MEAN) < mout[0] < t_i, key=key, input=inp,
                    observed={"mn_m": mout[0]}, expected={"E[t_j]": lo, "t_i": t_i})
        _mean_case(cx, key, inp, "mutation_leafward_moments.mn_m", mout[0], (ref["mn_j"] + mpf(t_i)) / 2)


def fam_sideways(cx, approx, p, tag):
    t_i, a_j, b_j, y, mu = p
    inp = {"family": "sideways", "t_i": t_i, "a_j": a_j, "b_j": b_j, "y_ij": y, "mu_ij": mu, "src": tag}
    key = ("sideways",) + tuple(p)
    out, exc = _call(approx.sideways_moments, t_i, a_j, b_j, y, mu)
    ok = _kernel_valid(cx, key, inp, "sideways_moments", out, exc, [(1, 2)])
    mout, mexc = _call(approx.mutation_sideways_moments, t_i, a_j, b_j, y, mu)
    mok = _kernel_valid(cx, key, inp, "mutation_sideways_moments", mout, mexc, [(1, 2)])
    pj, pe = _nat(a_j, b_j), np.array([y, mu])
    w, wexc = _call(approx.sideways_projection, t_i, pj, pe)
    _check_node_wrapper(cx, key, inp, "sideways_projection", w, wexc, [pj], [(out[1], out[2])] if ok else None)
    w, wexc = _call(approx.mutation_sideways_projection, t_i, pj, pe)
    _check_mut_wrapper(cx, key, inp, "mutation_sideways_projection", w, wexc,
                       (mout[0], mout[1], mout[2]) if (mok and 0 <= mout[0] <= 1) else None)
    if not (ok or mok):
        return
    try:
        ref = ref_sideways(t_i, a_j, b_j, y, mu)
    except OracleError:
        cx.oracle_fail += 1
        return
    if ok:
        _mean_case(cx, key, inp, "sideways_moments.mn_j", out[1], ref["mn_j"])
    if mok and not (0.0 <= mout[0] <= 1.0):  # the wrapper turns this into an explicit skip (checked above)
        cx.phase_out.append(("mutation_sideways_moments", mout[0], float(ref["pr_m"]), inp))
        mok = False
    if mok:
        _phase_case(cx, key, inp, "mutation_sideways_moments.pr_m", mout[0], ref["pr_m"])
        hi = t_i + float(ref["mn_j"])
        cx.rep.case("mutation-between-ends", 0 < mout[1] < hi, key=key, input=inp, observed={"mn_m": mout[1]},
                    expected={"upper": hi})
        _mean_case(cx, key, inp, "mutation_sideways_moments.mn_m", mout[1], ref["mn_m"],
                   known=KNOWN_SIDEWAYS if a_j <= 1.0 else None)


# ------------------------------------------------------------------------------------------- closed forms
def closed_forms(cx, approx, rng, thorough):
    rep = cx.rep
    A = [0.99, 1.0, 1.5, 3.0, 10.0, 50.0, 300.0, 1000.0]
    Y = [0.0, 0.3, 1.0, 3.0, 10.0, 50.0, 240.0, 1000.0]
    B = [1e-3, 0.03, 1.0, 30.0]
    M = [1e-4, 1e-2, 0.5, 2.0]
    combos = [(a, y, b, m) for a in A for y in Y for b in B for m in M]
    if not thorough:
        combos = [combos[i] for i in sorted(rng.choice(len(combos), 60, replace=False))]
    for n, (a, y, b, m) in enumerate(combos):
        # twin block: p(t) ~ (2t)^y e^{-2 mu t} t^(a-1) e^{-b t}  ==  2^y Gamma(a+y, b+2mu) kernel
        inp = {"family": "twin", "a_i": a, "b_i": b, "y_ij": y, "mu_ij": m}
        key = ("twin", a, b, y, m)
        s, r = mpf(a) + mpf(y), mpf(b) + 2 * mpf(m)
        ex = {"logl": mpf(y) * mp.log(2) + mpmath.loggamma(s) - s * mp.log(r), "mn": s / r, "va": s / r ** 2}
        if n % 16 == 0:  # tie the closed form to the stated density by quadrature
            fa, fb, fy, fm_ = float(a), float(b), float(y), float(m)

            def logf(t, log, A_=mpf(a), B_=mpf(b), Y_=mpf(y), M_=mpf(m)):
                if log is mp.log:
                    return _xl(Y_, 2 * t, log) - 2 * M_ * t + _xl(A_ - 1, t, log) - B_ * t
                return _xl(fy, 2 * t, log) - 2 * fm_ * t + _xl(fa - 1, t, log) - fb * t
            (z, m1), shift = _integrals(logf, 0.0, math.inf, [lambda t: 1, lambda t: t])
            if not (_rel(m1 / z, ex["mn"]) < 1e-10 and abs(mp.log(z) + shift - ex["logl"]) < 1e-8 * max(1, abs(ex["logl"]))):
                raise RuntimeError(f"oracle: twin closed form disagrees with quadrature at {inp}")
        out, exc = _call(approx.twin_moments, a, b, y, m)
        if exc is None:
            good = _rel(out[1], ex["mn"]) <= TOL_EXACT and _rel(out[2], ex["va"]) <= TOL_EXACT and \
                abs(out[0] - float(ex["logl"])) <= TOL_EXACT * max(1.0, abs(float(ex["logl"])))
            rep.case(EXACT_CLAUSE, good, key=key, input=inp, observed={"fn": "twin_moments", "out": list(out)},
                     expected={k: float(v) for k, v in ex.items()})
        pi, pe = _nat(a, b), np.array([y, m])
        w, wexc = _call(approx.twin_projection, pi, pe)
        _check_node_wrapper(cx, key, inp, "twin_projection", w, wexc, [pi], [(out[1], out[2])] if exc is None else None)
        # mutation under a twin block: t_m | t uniform(0, t), phase 1/2
        exm = {"pr": mpf(1) / 2, "mn": s / r / 2, "va": s * (s + 1) / (3 * r ** 2) - (s / r / 2) ** 2}
        mout, mexc = _call(approx.mutation_twin_moments, a, b, y, m)
        if mexc is None:
            good = mout[0] == 0.5 and _rel(mout[1], exm["mn"]) <= TOL_EXACT and _rel(mout[2], exm["va"]) <= TOL_EXACT
            rep.case(EXACT_CLAUSE, good, key=key, input=inp, observed={"fn": "mutation_twin_moments", "out": list(mout)},
                     expected={k: float(v) for k, v in exm.items()})
            rep.case("mutation-between-ends", 0 < mout[1] < float(s / r), key=key, input=inp,
                     observed={"mn_m": mout[1]}, expected={"E[t_i]": float(s / r)})
        w, wexc = _call(approx.mutation_twin_projection, pi, pe)
        _check_mut_wrapper(cx, key, inp, "mutation_twin_projection", w, wexc,
                           (mout[0], mout[1], mout[2]) if mexc is None else None)
    # both ends fixed
    T = [1e-3, 0.02, 0.5, 1.0, 7.0, 60.0, 2.5e3, 1e6]
    for t_i in T:
        for t_j in [0.0] + T:
            if t_j < t_i:
                inp = {"family": "edge", "t_i": t_i, "t_j": t_j}
                key = ("edge", t_i, t_j)
                ti, tj = mpf(t_i), mpf(t_j)
                ex = {"mn": (ti + tj) / 2, "va": (ti - tj) ** 2 / 12}  # uniform on (t_j, t_i)
                out, exc = _call(approx.mutation_edge_moments, t_i, t_j)
                if exc is None:
                    rep.case(EXACT_CLAUSE, _rel(out[0], ex["mn"]) <= TOL_EXACT and _rel(out[1], ex["va"]) <= TOL_EXACT,
                             key=key, input=inp, observed={"fn": "mutation_edge_moments", "out": list(out)},
                             expected={k: float(v) for k, v in ex.items()})
                    rep.case("mutation-between-ends", t_j < out[0] < t_i, key=key, input=inp, observed={"mn_m": out[0]})
                w, wexc = _call(approx.mutation_edge_projection, t_i, t_j)
                _check_mut_wrapper(cx, key, inp, "mutation_edge_projection", w, wexc,
                                   (1.0, out[0], out[1]) if exc is None else None)
            if t_j > 0:
                inp = {"family": "block", "t_i": t_i, "t_j": t_j}
                key = ("block", t_i, t_j)
                ti, tj = mpf(t_i), mpf(t_j)
                pr = ti / (ti + tj)  # mixture of uniform(0,t_i) w.p. t_i/(t_i+t_j) and uniform(0,t_j)
                mn = pr * ti / 2 + (1 - pr) * tj / 2
                ex = {"pr": pr, "mn": mn, "va": pr * ti ** 2 / 3 + (1 - pr) * tj ** 2 / 3 - mn ** 2}
                out, exc = _call(approx.mutation_block_moments, t_i, t_j)
                if exc is None:
                    good = all(_rel(o, e) <= TOL_EXACT for o, e in zip(out, (ex["pr"], ex["mn"], ex["va"])))
                    rep.case(EXACT_CLAUSE, good, key=key, input=inp, observed={"fn": "mutation_block_moments", "out": list(out)},
                             expected={k: float(v) for k, v in ex.items()})
                    rep.case("mutation-between-ends", 0 < out[1] < max(t_i, t_j), key=key, input=inp, observed={"mn_m": out[1]})
                w, wexc = _call(approx.mutation_block_projection, t_i, t_j)
                _check_mut_wrapper(cx, key, inp, "mutation_block_projection", w, wexc,
                                   (out[0], out[1], out[2]) if exc is None else None)


# =========================================================================================== input space
A_SET = [1.0, 1.5, 3.0, 10.0, 50.0, 300.0, 1000.0, 0.99]
Y_SET = [0.0, 0.3, 1.0, 3.0, 10.0, 50.0, 240.0, 1000.0]
MUR_SET = [1e-4, 1e-2, 0.1, 0.5, 1.0, 2.0]
BR_SET = [1e-3, 0.03, 0.3, 1.0, 4.0, 30.0, 460.0]
TR_SET = [0.01, 0.1, 1.0, 3.0, 10.0, 60.0]


def _r(x):
    return float(f"{x:.6g}")  # short replayable numbers


def lattice_cases(rng, n):
    """n seeded points of the product lattice per family; scale: all rates * c, all ages / c."""
    ch = lambda s: float(s[rng.integers(len(s))])
    out = {"phased": [], "unphased": [], "rootward": [], "leafward": [], "sideways": []}
    for k in range(n):
        c = 10.0 ** rng.uniform(-3, 3)
        a_i, a_j, y, mur, br = ch(A_SET), ch(A_SET), ch(Y_SET), ch(MUR_SET), ch(BR_SET)
        flat = k % 10 == 9  # flat parent cavity (alpha = 0, beta = 0) as at the first EP sweep
        b_i = 0.0 if flat else c
        if flat:
            a_i = 1.0
        mu = _r(mur * c)
        b_j = _r(br * c)
        out["phased"].append((a_i, _r(b_i), a_j, b_j, y, mu))
        a_i2, a_j2, y2 = ch(A_SET), ch(A_SET), ch(Y_SET)
        out["unphased"].append((a_i2, _r(b_i), a_j2, b_j, y2, mu))
        tr = ch(TR_SET)
        a, y3 = ch(A_SET), ch(Y_SET)
        t_j = 0.0 if k % 7 == 3 else _r(tr / (mu + b_i))
        out["rootward"].append((t_j, a, _r(b_i), y3, mu))
        a, y4 = ch(A_SET), ch(Y_SET)
        out["leafward"].append((_r(ch(TR_SET) * a / b_j), a, b_j, y4, mu))
        a, y5 = ch(A_SET), ch(Y_SET)
        out["sideways"].append((_r(ch(TR_SET) / (mu + b_j)), a, b_j, y5, mu))
    return out


def captured_cases(rng, n_per, notes):
    """Argument tuples of the projection wrappers in real EP runs (plain-Python kernels only)."""
    import tsdate
    from tsdate import approx
    names = ["gamma_projection", "unphased_projection", "rootward_projection", "leafward_projection",
             "sideways_projection", "mutation_gamma_projection", "mutation_unphased_projection",
             "mutation_rootward_projection", "mutation_leafward_projection", "mutation_sideways_projection"]
    log = {n: [] for n in names}
    saved = {n: getattr(approx, n) for n in names}

    def wrap(n):
        f = saved[n]

        def g(*args):
            log[n].append(tuple(np.array(a, dtype=float).ravel().tolist() for a in args))
            return f(*args)
        return g
    seed = int(rng.integers(1 << 30))
    import msprime
    hist = msprime.sim_ancestry([msprime.SampleSet(3, time=0, ploidy=1), msprime.SampleSet(2, time=20, ploidy=1)],
                                sequence_length=6e3, recombination_rate=1e-4, population_size=100, random_seed=seed % 997 + 3)
    hist = msprime.sim_mutations(hist, rate=2e-4, random_seed=seed % 997 + 11)
    runs = [("haploid", inputs.sim(seed % 1000, n=4, L=6e3), {}),
            ("historical", hist, {}),
            ("unphased-diploid", inputs.sim(seed % 991, n=2, L=6e3, ploidy=2), {"singletons_phased": False})]
    try:
        for n in names:
            setattr(approx, n, wrap(n))
        for nm, ts, kw in runs:
            try:
                tsdate.date(ts, mutation_rate=2e-4, method="variational_gamma", max_iterations=3,
                            rescaling_iterations=1, progress=False, **kw)
            except Exception as e:  # the EP run is only a source of argument tuples here
                notes.append(f"capture run {nm} raised {type(e).__name__}: {e}")
    finally:
        for n in names:
            setattr(approx, n, saved[n])
    out = {"phased": [], "unphased": [], "rootward": [], "leafward": [], "sideways": []}
    fam_of = {"gamma_projection": "phased", "mutation_gamma_projection": "phased", "unphased_projection": "unphased",
              "mutation_unphased_projection": "unphased", "rootward_projection": "rootward",
              "mutation_rootward_projection": "rootward", "leafward_projection": "leafward",
              "mutation_leafward_projection": "leafward", "sideways_projection": "sideways",
              "mutation_sideways_projection": "sideways"}
    total = 0
    for n in names:
        v = log[n]
        total += len(v)
        if not v:
            continue
        idx = sorted(rng.choice(len(v), min(n_per, len(v)), replace=False))
        for k in idx:
            a = v[k]
            if fam_of[n] in ("phased", "unphased"):
                (al_i, b_i), (al_j, b_j), (y, mu) = a
                out[fam_of[n]].append((al_i + 1, b_i, al_j + 1, b_j, y, mu))
            else:
                (t,), (al, b), (y, mu) = a
                out[fam_of[n]].append((t, al + 1, b, y, mu))
    notes.append(f"captured {total} wrapper calls from {len(runs)} EP runs: " +
                 ", ".join(f"{n}={len(log[n])}" for n in names if log[n]))
    return out


def _valid_cavity(fam, p):
    """Precondition of the contract: proper gamma cavities (shape > 0, rate >= 0) and an integrable tilted density."""
    if fam in ("phased", "unphased"):
        a_i, b_i, a_j, b_j, y, mu = p
        if not (a_i > 0 and a_j > 0 and b_i >= 0 and b_j >= 0 and y >= 0 and mu > 0):
            return False
        return (b_i + b_j > 0) if fam == "phased" else True
    t, a, b, y, mu = p
    return a > 0 and b >= 0 and y >= 0 and mu > 0 and t >= 0 and (fam == "rootward" or t > 0)


FAMS = {"phased": fam_phased, "unphased": fam_unphased, "rootward": fam_rootward, "leafward": fam_leafward,
        "sideways": fam_sideways}


def run(req, rep):
    tier, seed = req["tier"], int(req["seed"])
    params = req.get("params") or {}
    thorough = tier == "thorough"
    rng = np.random.default_rng(seed)
    from tsdate import approx

    n_lat = int(params.get("n_lattice", 900 if thorough else 45))
    n_cap = int(params.get("n_captured", 60 if thorough else 6))
    rep.space = ("tsdate.approx moment kernels and projection wrappers on (A) argument tuples captured from real EP runs "
                 "on 3 simulated inputs, (B) a seeded sample of the product lattice shape{0.99..1000} x y{0..1000} x "
                 "mu/b{1e-4..2} x b_j/b_i{1e-3..460} x age*rate{0.01..60} x flat cavities x time scale 10^U(-3,3), "
                 "(C) closed-form cases (twin, t_j=0, both ends fixed); oracle = mpmath quadrature of the stated densities")
    rep.bound = (f"{n_lat} lattice points per family x 5 families; up to {n_cap} captured tuples per wrapper x 10 wrappers; "
                 f"{'1024' if thorough else '60'} twin points, 100 fixed-end pairs; shapes <= 1000, y <= 1000")
    rep.exhaustive = False
    cx = Ctx(rep)
    cx.debug = bool(params.get("debug"))
    only = params.get("families")
    _oracle_selftest()
    t0 = time.time()
    closed_forms(cx, approx, rng, thorough)
    lat = lattice_cases(rng, n_lat)
    try:
        cap = captured_cases(rng, n_cap, rep.notes) if params.get("capture", True) else {}
    except Exception as e:
        rep.notes.append(f"capture failed: {type(e).__name__}: {e}")
        cap = {}
    budget = float(params.get("budget_s", 800 if thorough else 70))
    dropped = 0
    # interleave families so that a time budget cut is fair
    work = []
    for fam in FAMS:
        work += [(i, fam, p, "captured") for i, p in enumerate(cap.get(fam, []))]
    for fam in FAMS:
        work += [(1000 + i, fam, p, "lattice") for i, p in enumerate(lat[fam])]
    work.sort(key=lambda w: w[0])
    invalid = 0
    for _, fam, p, tag in work:
        if time.time() - t0 > budget:
            dropped += 1
            continue
        if only and fam not in only:
            continue
        if not _valid_cavity(fam, p):
            invalid += 1
            continue
        FAMS[fam](cx, approx, tuple(float(v) for v in p), tag)
    # a few failing examples of every known-* clause first (the failure list of the report is capped), then the rest
    lead, seen = [], {}
    for item in cx.deferred:
        if not item[1] and seen.get(item[0], 0) < 5:
            seen[item[0]] = seen.get(item[0], 0) + 1
            lead.append(item)
    lead_ids = {id(item) for item in lead}
    for clause, ok, kw in lead + [item for item in cx.deferred if id(item) not in lead_ids]:
        rep.case(clause, ok, **kw)
    rep.notes.append(f"{invalid} captured tuples outside the precondition (improper cavity) not evaluated; "
                     f"{dropped} cases dropped by the time budget; {cx.oracle_fail} cases where the oracle could not "
                     f"certify its own accuracy (not counted)")
    rep.notes.append("explicit skips: " + (", ".join(f"{k}={v}" for k, v in sorted(cx.skips.items())) or "none"))
    rep.notes.append("largest relative mean error per quantity: " +
                     "; ".join(f"{k}={v[0]:.3g}" for k, v in sorted(cx.worst.items())))
    if cx.phase_out:
        rep.notes.append(f"{len(cx.phase_out)} kernel calls returned a phase outside [0,1] (the wrapper skips these): "
                         + "; ".join(f"{n} pr={p:.6g} (integrated {r:.6g}) at {i}" for n, p, r, i in cx.phase_out[:3]))
    if params.get("debug"):
        rep.notes.append({"debug_rows": cx.debug_rows})


if __name__ == "__main__":
    bounded_api.main(run)
