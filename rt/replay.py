"""
Replay / concrete contract evaluation on the REAL function (runs under /venv/bin/python).

usage:  python -m rt.replay <request.json>      -> prints one JSON line with the outcome

request = {
  "function": "util._constrain_ages",        # module.qualname under tsdate
  "types": [["float",1], ["bool",1], ...],  "params": [...names...],
  "cases": [ {"args": {name: value-or-nested-list}} , ... ],
  "requires": [expr...], "ensures": [[name, expr], ...], "spec_src": {...}, "consts": {...},
  "jit": false
}
For every case: requires are evaluated (a case that violates them is 'invalid', not a failure), the
real function is called, every ensures clause is evaluated on (old args, args after the call, result).
"""
import importlib
import json
import math
import os
import sys
import traceback

import numpy as np

sys.path.insert(0, os.path.dirname(os.path.dirname(os.path.abspath(__file__))))
from rt import ceval  # noqa: E402

DT = {"int": np.int32, "float": np.float64, "bool": np.bool_}


def to_value(v, kind, nd):
    def conv(x):
        if isinstance(x, str):
            return {"nan": math.nan, "inf": math.inf, "-inf": -math.inf}.get(x, 0.0)
        return x
    if nd == 0:
        x = conv(v)
        if x is None:
            x = 0
        if kind == "int":
            return int(x)
        if kind == "bool":
            return bool(x)
        return float(x)
    if isinstance(v, dict):
        shape, data = v.get("shape"), v.get("data")
        if data is None:
            return np.zeros(shape, dtype=DT[kind])
        if shape is not None and (len(shape) == nd) and int(np.prod(shape)) == 0:
            return np.zeros(shape, dtype=DT[kind])
        v = data

    def rec(x):
        if isinstance(x, list):
            return [rec(y) for y in x]
        y = conv(x)
        return 0 if y is None else y
    arr = np.array(rec(v), dtype=DT[kind])
    if arr.ndim != nd:
        arr = arr.reshape([0] * nd) if arr.size == 0 else arr
    return arr


def jsonable(x):
    if isinstance(x, np.ndarray):
        return [jsonable(y) for y in x.tolist()]
    if isinstance(x, (list, tuple)):
        return [jsonable(y) for y in x]
    if isinstance(x, (np.floating, float)):
        x = float(x)
        if math.isnan(x):
            return "nan"
        if math.isinf(x):
            return "inf" if x > 0 else "-inf"
        return x
    if isinstance(x, (np.integer,)):
        return int(x)
    if isinstance(x, (np.bool_,)):
        return bool(x)
    return x


def resolve(dotted):
    parts = dotted.split(".")
    mod = importlib.import_module("tsdate." + parts[0])
    obj = mod
    for p in parts[1:]:
        obj = getattr(obj, p)
    return obj


def run_case(fn, req, case):
    params, types = req["params"], req["types"]
    args = {}
    for p, (kind, nd) in zip(params, types):
        args[p] = to_value(case["args"].get(p), kind, nd)
    old = {k: (v.copy() if isinstance(v, np.ndarray) else v) for k, v in args.items()}
    out = {"args": {k: jsonable(v) for k, v in old.items()}}
    env0 = ceval.make_env(args, old, None, req.get("spec_src"), req.get("consts"))
    try:
        pre = [(c, ceval.eval_clause(c, env0)) for c in req.get("requires", [])]  # preconditions: exact
    except Exception as e:  # an input on which the precondition cannot even be evaluated is invalid
        out["status"] = "invalid"
        out["why"] = f"requires raised {type(e).__name__}: {e}"
        return out
    bad = [c for c, ok in pre if not ok]
    if bad:
        out["status"] = "invalid"
        out["why"] = "requires false: " + bad[0]
        return out
    try:
        with np.errstate(all="ignore"):
            result = fn(*[args[p] for p in params])
    except Exception as e:
        out["status"] = "exception"
        out["exception"] = type(e).__name__
        out["message"] = str(e)[:300]
        allowed = req.get("raises", [])
        out["failed"] = [] if type(e).__name__ in allowed else [f"raised {type(e).__name__}"]
        return out
    out["result"] = jsonable(result)
    env = ceval.make_env(args, old, result, req.get("spec_src"), req.get("consts"))
    failed = []
    for name, expr in req.get("ensures", []):
        try:
            ok = ceval.eval_clause(expr, env, approx=req.get("mode") == "real")
        except Exception as e:
            ok = False
            name = f"{name} (evaluation raised {type(e).__name__}: {e})"
        if not ok:
            failed.append(name)
    out["status"] = "ok" if not failed else "violated"
    out["failed"] = failed
    return out


def main():
    req = json.load(open(sys.argv[1]))
    try:
        fn = resolve(req["function"])
        if hasattr(fn, "py_func") and not req.get("jit"):
            fn = fn.py_func
    except Exception as e:
        print(json.dumps({"error": f"cannot import: {type(e).__name__}: {e}", "trace": traceback.format_exc()[-500:]}))
        return 3
    results = []
    for case in req["cases"]:
        try:
            results.append(run_case(fn, req, case))
        except Exception as e:
            results.append({"status": "harness-error", "why": f"{type(e).__name__}: {e}", "trace": traceback.format_exc()[-600:]})
    print(json.dumps({"results": results}))
    return 0


if __name__ == "__main__":
    sys.exit(main())
