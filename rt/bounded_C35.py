"""
Bounded stand-in for C35 -- invalid inputs are rejected cleanly and valid ones never crash.

Statement: "For every tree sequence and parameter set, date() and each named method either return a result of the
documented shape (the tree sequence, then fit and/or likelihood when requested) or raise ValueError or
NotImplementedError with a message.  Invalid parameters are always rejected: non-positive rates or
min_branch_length, negative constr_iterations, non-positive max_iterations, unknown methods, population size or
priors where unused, eps with variational_gamma, or no mutations with variational_gamma.  No input makes them fail
with an internal error such as AssertionError, IndexError or a numba typing error."

Contract clauses (REAL tsdate.date / variational_gamma / inside_outside / maximization; observation = return value
or exception type + message; no tsdate code is used to decide what is expected):
  invalid-parameter-rejected        every invalid parameter of the statement's list, on ordinary inputs, through
                                    date(method=...) AND the named function: the call must raise ValueError or
                                    NotImplementedError with a non-empty message (returning a result is a failure,
                                    any other exception type is a failure).  Table: mutation_rate in {0, -1e-4, -inf}
                                    x 3 methods; recombination_rate in {1e-8, 0, -1}; min_branch_length in
                                    {0, -1e-8, -5}; constr_iterations in {-1, -10}; max_iterations in {0, -1};
                                    method in {"bogus", "", "Variational_Gamma", 3}; population_size (number or
                                    dict) / priors given to variational_gamma; eps in {1e-8, 0, 1e-3} given to variational_gamma;
                                    an input without mutations given to variational_gamma (also with
                                    rescaling switched off); plus the other documented rejections: max_shape <= 1,
                                    discrete method without / with both population_size and priors, Ne together
                                    with population_size, return_posteriors, unknown probability_space,
                                    missing mutation rate for variational_gamma / maximization.
  no-internal-error                 sweep of pathological-but-valid tskit tree sequences x parameter sets inside
                                    and at the edge of the valid ranges: the call returns, or raises ValueError /
                                    NotImplementedError with a non-empty message.  Anything else (AssertionError,
                                    IndexError, ZeroDivisionError, TypeError, tskit.LibraryError, RuntimeError,
                                    numba errors, ...) fails, except the three isolated known conditions below.
  result-has-documented-shape       whenever a call returns: a tskit.TreeSequence when neither return_fit nor
                                    return_likelihood is set, else a tuple (ts[, fit][, likelihood]) of exactly
                                    1 + return_fit + return_likelihood elements in that order, ts a TreeSequence
                                    with the input's numbers of nodes / edges / sites / mutations, fit an object
                                    (not None, not a float, not a TreeSequence), likelihood a real number or None
  known-use-fewer-rescaling-intervals-assert
                                    KNOWN DEFECT (DESIGN 6-F7, unrepaired): variational_gamma dies with the
                                    internal `AssertionError: Use fewer rescaling intervals` when a rescaling
                                    interval holds no mutations.  One case per call that ends in exactly this
                                    assertion (at most 3 replayable examples; totals in the notes).
  known-mutation-time-not-below-parent-at-float-spacing
                                    DEFECT FOUND WHILE WRITING THIS CHECK (remainder of 6-F1, unrepaired): when the
                                    dated times are so large that min_branch_length is below the float spacing
                                    (e.g. maximization with population_size=1e9: all internal nodes at 7.55e7,
                                    spacing 1.5e-8 > 1e-8), the repaired _constrain_ages separates parent and child
                                    by one ulp, but the mutation time computed as their midpoint rounds onto the
                                    parent's time and tables.tree_sequence() raises tskit.LibraryError
                                    TSK_ERR_MUTATION_TIME_OLDER_THAN_PARENT_NODE instead of returning / ValueError.
                                    Recognised by that error AND by observing (wrapper on util.constrain_ages)
                                    that the constrained times contain an edge whose parent is within 2 ulp of
                                    its child; otherwise the error counts against no-internal-error.

  known-linear-space-underflow-gives-nonfinite-times
                                    DEFECT FOUND WHILE WRITING THIS CHECK (unrepaired): inside_outside /
                                    maximization with probability_space="linear" and a likelihood that underflows
                                    (e.g. 7 samples, one tree, 83 mutations, mutation_rate=1e-12) produce NaN posterior
                                    means; get_modified_ts then fails with tskit.LibraryError TSK_ERR_TIME_NONFINITE
                                    instead of a ValueError (the documentation only says linear space "may
                                    overflow").  Recognised by that error AND probability_space == "linear" AND NaN
                                    node times observed at util.constrain_ages; the same error in logarithmic
                                    space counts against no-internal-error.

Input space / bound (deterministic in the seed; all inputs <= ~60 nodes so that a call takes ~0.01-0.2 s)
  inputs: ordinary simulations (one tree / several trees), no mutations, very few mutations, a deleted flank
          (region without edges), a sample isolated over half the genome, a mutation above the root, two roots,
          input times x 1e9 and x 1e-9, full ARG with unary nodes, an internal sample, historical samples, a
          disconnected extra node, polytomy, star, two samples, diploid individuals (singletons_phased False/True),
          no edges at all, uncalibrated time units, existing non-JSON node metadata; in the thorough tier each
          generator is instantiated with 4 seeds and up to 7 samples.
  parameter sets: 3 methods x mutation_rate in {5e-4, 1e-12, 1e3} x return flags x allow_unary x
          min_branch_length in {1e-300, 1e-8, 1e6} x constr_iterations in {0, 3, 100}; variational_gamma:
          rescaling_intervals in {0, 1, 3, 1000} x max_iterations in {1, 5}, max_shape 1.5 / 1e9,
          rescaling_iterations 0, match_segregating_sites, regularise_roots False, singletons_phased False;
          discrete: population_size in {1e-3, 100, 1e9, dict}, probability_space, ignore_oldest_root,
          outside_standardize False, eps in {1e-12, 1e-3, 10}, no mutation rate, user prior grid with 3 timepoints.
  quick   : 23 inputs x 45 parameter sets + the invalid-parameter table (150 entries) on 2 inputs (~1300 calls)
  thorough: 76 inputs x 73 parameter sets + the table on 6 inputs                          (~6400 calls)
  exhaustive = False.
Tolerances: none (types, arities, exception classes).
NOT covered: numerical asserts inside the hypergeometric / EP kernels for inputs larger than the bound (the
  statement's "no input" cannot be exhausted), numba typing errors (the bounded run executes the kernels with
  NUMBA_DISABLE_JIT=1 when so invoked; signatures are then not enforced), inputs that are not valid tskit tree
  sequences, preprocess_ts (not in the statement), progress=True, keywords that a function does not have at all
  (e.g. the deprecated Ne= given to variational_gamma or date(): Python's own TypeError for an unexpected keyword;
  observed while building, not counted as a violation because Ne is not a parameter of those functions).
"""
import traceback
import warnings

import msprime
import numpy as np
import tskit

from rt import bounded_api, inputs

MU = 5e-4
NE = 100


# ------------------------------------------------------------------ inputs (own helpers)
def _sim(i, **kw):
    d = dict(n=4, L=200, rec=2e-4, mu=MU, ne=NE)
    d.update(kw)
    return inputs.sim(i, **d)


def _finish(tables, strip_times=True):
    tables.sort()
    tables.build_index()
    tables.compute_mutation_parents()
    if strip_times:
        tables.mutations.time = np.full(tables.mutations.num_rows, tskit.UNKNOWN_TIME)
    return tables.tree_sequence()


def flank_deleted(ts):
    t = ts.dump_tables()
    t.delete_intervals([[0, ts.sequence_length / 5]], simplify=False)
    return t.tree_sequence()


def isolated_sample(ts):
    """sample 0 has no edge on the left half of the genome"""
    t = ts.dump_tables()
    e = t.edges.copy()
    t.edges.clear()
    half = ts.sequence_length / 2
    for x in e:
        if x.child == 0:
            if x.right > half:
                t.edges.add_row(max(x.left, half), x.right, x.parent, x.child)
        else:
            t.edges.add_row(x.left, x.right, x.parent, x.child)
    return _finish(t)


def root_mutation(ts):
    t = ts.dump_tables()
    tree = ts.first()
    pos = 0.5
    while pos in set(ts.sites_position):
        pos += 0.01
    s = t.sites.add_row(position=pos, ancestral_state="A")
    t.mutations.add_row(site=s, node=tree.root, derived_state="T")
    return _finish(t)


def full_arg(seed, n=4):
    ts = msprime.sim_ancestry(n, ploidy=1, sequence_length=200, recombination_rate=2e-4, population_size=NE,
                              random_seed=seed + 5, record_full_arg=True)
    return msprime.sim_mutations(ts, rate=MU, random_seed=seed + 3)


def internal_sample(ts):
    t = ts.dump_tables()
    f = t.nodes.flags
    f[ts.num_samples] |= tskit.NODE_IS_SAMPLE
    t.nodes.flags = f
    return t.tree_sequence()


def small_historical(seed):
    samples = [msprime.SampleSet(3, time=0, ploidy=1), msprime.SampleSet(2, time=20, ploidy=1)]
    ts = msprime.sim_ancestry(samples, sequence_length=200, recombination_rate=2e-4, population_size=NE,
                              random_seed=seed + 3)
    return msprime.sim_mutations(ts, rate=MU, random_seed=seed + 11)


def disconnected_node(ts):
    t = ts.dump_tables()
    t.nodes.add_row(flags=0, time=3.0)
    return t.tree_sequence()


def two_roots(seed):
    tables = tskit.TableCollection(100.0)
    for _ in range(4):
        tables.nodes.add_row(flags=tskit.NODE_IS_SAMPLE, time=0)
    a = tables.nodes.add_row(flags=0, time=1.5)
    b = tables.nodes.add_row(flags=0, time=2.5)
    for p, c in ((a, 0), (a, 1), (b, 2), (b, 3)):
        tables.edges.add_row(0, 100.0, p, c)
    for j, node in enumerate((0, 1, 2, 3, a, b, b)[: 5 + seed % 3]):
        s = tables.sites.add_row(position=1.0 + 7 * j, ancestral_state="0")
        tables.mutations.add_row(site=s, node=node, derived_state="1")
    return _finish(tables)


def no_edges():
    t = tskit.TableCollection(10.0)
    t.nodes.add_row(flags=tskit.NODE_IS_SAMPLE, time=0)
    t.nodes.add_row(flags=tskit.NODE_IS_SAMPLE, time=0)
    return t.tree_sequence()


def no_edges_with_mutation():
    t = tskit.TableCollection(10.0)
    t.nodes.add_row(flags=tskit.NODE_IS_SAMPLE, time=0)
    t.nodes.add_row(flags=tskit.NODE_IS_SAMPLE, time=0)
    s = t.sites.add_row(position=2.0, ancestral_state="A")
    t.mutations.add_row(site=s, node=0, derived_state="T")
    return t.tree_sequence()


def uncalibrated(ts):
    t = ts.dump_tables()
    t.time_units = tskit.TIME_UNITS_UNCALIBRATED
    return t.tree_sequence()


def raw_metadata(ts):
    t = ts.dump_tables()
    t.nodes.packset_metadata([b"\x00\xffraw" for _ in range(t.nodes.num_rows)])
    return t.tree_sequence()


def make_inputs(seed, tier):
    out = []
    reps = 1 if tier == "quick" else 4
    for r in range(reps):
        s = seed * 1000 + 10 * r
        n = 4 + (r % 4)
        b = _sim(s + 1, n=n)
        single = _sim(s, n=n, rec=0)
        out += [
            (f"normal-multi(seed={s + 1},n={n})", b),
            (f"normal-single(seed={s},n={n})", single),
            (f"no-mutations(seed={s + 2})", _sim(s + 2, n=n, mu=0)),
            (f"few-mutations(seed={s + 3})", _sim(s + 3, n=n, mu=4e-5)),
            (f"flank-deleted(seed={s + 1})", flank_deleted(b)),
            (f"isolated-sample-left-half(seed={s + 1})", isolated_sample(b)),
            (f"root-mutation(seed={s})", root_mutation(single)),
            (f"two-roots({r})", two_roots(r)),
            (f"times*1e9(seed={s + 1})", inputs.scale_times(b, 1e9)),
            (f"times*1e-9(seed={s + 1})", inputs.scale_times(b, 1e-9)),
            (f"full-arg-unary(seed={s})", full_arg(s, n=n)),
            (f"internal-sample(seed={s + 1})", internal_sample(b)),
            (f"historical(seed={s})", small_historical(s)),
            (f"disconnected-node(seed={s + 1})", disconnected_node(b)),
            (f"two-samples(seed={s + 5})", _sim(s + 5, n=2)),
            (f"diploid(seed={s + 6})", inputs.sim(s + 6, n=2 + r % 2, ploidy=2, L=200, rec=2e-4, mu=MU)),
            (f"uncalibrated(seed={s + 1})", uncalibrated(b)),
            (f"raw-node-metadata(seed={s})", raw_metadata(single)),
        ]
    if tier == "quick":
        out.append((f"normal-single(seed={seed * 1000 + 30},n=7)", _sim(seed * 1000 + 30, n=7, rec=0)))
    out += [
        ("polytomy(0,1,2,(3,4))", inputs.tree_to_ts((0, 1, 2, (3, 4)), 100.0, mutations={0: 1, 5: 2, 3: 1})),
        ("star(0,1,2,3)", inputs.tree_to_ts((0, 1, 2, 3), 100.0, mutations={0: 1, 1: 2})),
        ("no-edges", no_edges()),
        ("no-edges-with-mutation", no_edges_with_mutation()),
    ]
    return out


# ------------------------------------------------------------------ parameter sets
def sweep_calls(tier):
    """(function name, kwargs).  'date:<m>' = tsdate.date(method=m); otherwise the named function."""
    quick = tier == "quick"
    C = []
    for m in ("variational_gamma", "inside_outside", "maximization"):
        pop = {} if m == "variational_gamma" else {"population_size": NE}
        for mu in (MU, 1e-12, 1e3):
            C.append((f"date:{m}", dict(mutation_rate=mu, **pop)))
        C.append((m, dict(mutation_rate=MU, return_fit=True, return_likelihood=True, **pop)))
        C.append((m, dict(mutation_rate=MU, return_fit=True, **pop)))
        C.append((f"date:{m}", dict(mutation_rate=MU, return_likelihood=True, **pop)))
        C.append((m, dict(mutation_rate=MU, allow_unary=True, **pop)))
        C.append((m, dict(mutation_rate=MU, min_branch_length=1e-300, **pop)))
        C.append((f"date:{m}", dict(mutation_rate=MU, min_branch_length=1e6, constr_iterations=3, **pop)))
        if not quick:
            C.append((m, dict(mutation_rate=MU, constr_iterations=100, set_metadata=True, **pop)))
            C.append((m, dict(mutation_rate=MU, constr_iterations=0, set_metadata=False, time_units="years", **pop)))
            C.append((f"date:{m}", dict(mutation_rate=1e-12, min_branch_length=1e-300, return_fit=True, **pop)))
            C.append((f"date:{m}", dict(mutation_rate=1e3, allow_unary=True, return_likelihood=True, **pop)))
    vg = [dict(rescaling_intervals=ri, max_iterations=mi) for ri in (0, 1, 3, 1000) for mi in ((1,) if quick else (1, 5))]
    vg += [dict(singletons_phased=False), dict(match_segregating_sites=True), dict(max_shape=1.5),
           dict(regularise_roots=False), dict(rescaling_iterations=0)]
    if not quick:
        vg += [dict(max_shape=1e9), dict(singletons_phased=False, rescaling_intervals=0),
               dict(match_segregating_sites=True, rescaling_intervals=2, rescaling_iterations=20),
               dict(max_iterations=50), dict(singletons_phased=False, allow_unary=True)]
    C += [("variational_gamma", dict(mutation_rate=MU, **kw)) for kw in vg]
    disc = [("inside_outside", dict(mutation_rate=None, population_size=NE)),
            ("inside_outside", dict(mutation_rate=MU, population_size=NE, probability_space="linear",
                                    ignore_oldest_root=True)),
            ("inside_outside", dict(mutation_rate=MU, population_size=1e-3)),
            ("maximization", dict(mutation_rate=MU, population_size=1e9)),
            ("inside_outside", dict(mutation_rate=MU, population_size={"population_size": [100, 10], "time_breaks": [30]})),
            ("maximization", dict(mutation_rate=MU, population_size=NE, eps=10.0, probability_space="linear")),
            ("inside_outside", dict(mutation_rate=MU, population_size=NE, outside_standardize=False, eps=1e-12)),
            ("maximization", dict(mutation_rate=MU, priors="GRID3")),
            ("inside_outside", dict(mutation_rate=1e-12, population_size=NE, probability_space="linear"))]
    if not quick:
        disc += [("inside_outside", dict(mutation_rate=MU, population_size=1e9)),
                 ("maximization", dict(mutation_rate=MU, population_size=1e-3, probability_space="linear")),
                 ("inside_outside", dict(mutation_rate=MU, priors="GRID3", return_fit=True)),
                 ("maximization", dict(mutation_rate=1e3, population_size=NE, eps=1e-3)),
                 ("maximization", dict(mutation_rate=1e-12, population_size=NE, probability_space="linear")),
                 ("inside_outside", dict(mutation_rate=1e-12, population_size=NE, probability_space="logarithmic")),
                 ("date:inside_outside", dict(mutation_rate=MU, population_size=NE, num_threads=1, cache_inside=True))]
    C += disc
    return C


def invalid_table():
    """(label, function, kwargs, needs) -- every entry MUST be rejected with ValueError / NotImplementedError."""
    T = []
    methods = ("variational_gamma", "inside_outside", "maximization")

    def pop(m):
        return {} if m == "variational_gamma" else {"population_size": NE}

    for m in methods:
        for mu in (0, 0.0, -1e-4, float("-inf")):
            T.append((f"mutation_rate={mu!r}", m, dict(mutation_rate=mu, **pop(m))))
            T.append((f"mutation_rate={mu!r}", f"date:{m}", dict(mutation_rate=mu, **pop(m))))
        for r in (1e-8, 0, -1):
            T.append((f"recombination_rate={r}", f"date:{m}", dict(mutation_rate=MU, recombination_rate=r, **pop(m))))
            T.append((f"recombination_rate={r}", m, dict(mutation_rate=MU, recombination_rate=r, **pop(m))))
        for b in (0, -1e-8, -5):
            T.append((f"min_branch_length={b}", f"date:{m}", dict(mutation_rate=MU, min_branch_length=b, **pop(m))))
            T.append((f"min_branch_length={b}", m, dict(mutation_rate=MU, min_branch_length=b, **pop(m))))
        for c in (-1, -10):
            T.append((f"constr_iterations={c}", f"date:{m}", dict(mutation_rate=MU, constr_iterations=c, **pop(m))))
            T.append((f"constr_iterations={c}", m, dict(mutation_rate=MU, constr_iterations=c, **pop(m))))
    for mi in (0, -1):
        T.append((f"max_iterations={mi}", "variational_gamma", dict(mutation_rate=MU, max_iterations=mi)))
        T.append((f"max_iterations={mi}", "date:variational_gamma", dict(mutation_rate=MU, max_iterations=mi)))
        T.append((f"max_iterations={mi}", "date:None", dict(mutation_rate=MU, max_iterations=mi)))
    for meth in ("bogus", "", "Variational_Gamma", 3):
        T.append((f"method={meth!r}", f"date:{meth!r}", dict(mutation_rate=MU, _method=meth)))
        T.append((f"method={meth!r}+population_size", f"date:{meth!r}", dict(mutation_rate=MU, _method=meth,
                                                                             population_size=NE)))
    for fn in ("variational_gamma", "date:variational_gamma", "date:None"):
        T.append(("population_size with variational_gamma", fn, dict(mutation_rate=MU, population_size=NE)))
        T.append(("population_size dict with variational_gamma", fn,
                  dict(mutation_rate=MU, population_size={"population_size": [100, 10], "time_breaks": [30]})))
        T.append(("priors with variational_gamma", fn, dict(mutation_rate=MU, priors="GRID")))
        for e in (1e-8, 0, 1e-3):
            T.append((f"eps={e} with variational_gamma", fn, dict(mutation_rate=MU, eps=e)))
        T.append(("no mutations with variational_gamma", fn, dict(mutation_rate=MU, _input="no-mutations")))
        T.append(("no mutations with variational_gamma, no rescaling", fn,
                  dict(mutation_rate=MU, rescaling_intervals=0, max_iterations=1, _input="no-mutations")))
        for ms in (1, 1.0, 0.5, 0, -3):
            T.append((f"max_shape={ms}", fn, dict(mutation_rate=MU, max_shape=ms)))
        T.append(("mutation_rate=None with variational_gamma", fn, dict(mutation_rate=None)))
    for m in ("inside_outside", "maximization"):
        for fn in (m, f"date:{m}"):
            T.append((f"{m} without population_size and priors", fn, dict(mutation_rate=MU)))
            T.append((f"{m} with population_size and priors", fn, dict(mutation_rate=MU, population_size=NE, priors="GRID")))
            T.append((f"{m} with Ne and population_size", fn, dict(mutation_rate=MU, population_size=NE, Ne=NE)))
            T.append((f"{m} unknown probability_space", fn, dict(mutation_rate=MU, population_size=NE,
                                                                 probability_space="cubic")))
            T.append((f"{m} return_posteriors", fn, dict(mutation_rate=MU, population_size=NE, return_posteriors=True)))
    T.append(("maximization without mutation rate", "maximization", dict(mutation_rate=None, population_size=NE)))
    T.append(("inside_outside without mutation rate on several trees", "inside_outside",
              dict(mutation_rate=None, population_size=NE, _input="multi")))
    return T


# ------------------------------------------------------------------ running one call
class Runner:
    def __init__(self, tsdate):
        self.tsdate = tsdate
        self.grids = {}
        self.constrained = []
        util = tsdate.util
        self.real_constrain = util.constrain_ages

        def spy(ts, nodes_time, *a, **kw):
            out = self.real_constrain(ts, nodes_time, *a, **kw)
            self.constrained.append((ts, np.array(out, dtype=float)))
            return out

        self.spy = spy

    def grid(self, ts, k=None):
        key = (id(ts), k)
        if key not in self.grids:
            kw = {} if k is None else {"timepoints": k}
            with warnings.catch_warnings():
                warnings.simplefilter("ignore")
                self.grids[key] = self.tsdate.build_prior_grid(ts, population_size=NE, **kw)
        return self.grids[key]

    def call(self, fn, ts, kw):
        """-> ("returned", value) | ("raised", exception)"""
        kw = dict(kw)
        kw.pop("_input", None)
        meth = kw.pop("_method", None)
        try:
            if kw.get("priors") == "GRID":
                kw["priors"] = self.grid(ts)
            elif kw.get("priors") == "GRID3":
                kw["priors"] = self.grid(ts, 3)
        except Exception as e:  # noqa: BLE001 - building the prior is not the call under test
            return "skipped", e
        self.constrained.clear()
        self.tsdate.util.constrain_ages = self.spy
        try:
            with warnings.catch_warnings():
                warnings.simplefilter("ignore")
                if fn.startswith("date:"):
                    m = fn[5:]
                    if meth is not None:
                        kw["method"] = meth
                    elif m != "None":
                        kw["method"] = m
                    return "returned", self.tsdate.date(ts, **kw)
                return "returned", getattr(self.tsdate, fn)(ts, **kw)
        except Exception as e:  # noqa: BLE001 - the exception is the observation
            return "raised", e
        finally:
            self.tsdate.util.constrain_ages = self.real_constrain

    def nan_times_seen(self):
        return any(bool(np.any(np.isnan(t))) for _, t in self.constrained)

    def ulp_adjacent_edge_seen(self):
        for ts, t in self.constrained:
            p, c = t[ts.edges_parent], t[ts.edges_child]
            with np.errstate(invalid="ignore"):
                if np.any((p - c) <= 2 * np.spacing(np.abs(c))):
                    return True
        return False


def shape_problem(res, ts, kw):
    want_fit, want_lik = bool(kw.get("return_fit")), bool(kw.get("return_likelihood"))
    n = 1 + want_fit + want_lik
    if n == 1:
        parts = [res]
        if isinstance(res, tuple):
            return f"a tuple of {len(res)} although nothing extra was requested"
    else:
        if not isinstance(res, tuple) or len(res) != n:
            return f"expected a tuple of {n}, got {type(res).__name__}" + (f" of {len(res)}" if isinstance(res, tuple) else "")
        parts = list(res)
    out = parts[0]
    if not isinstance(out, tskit.TreeSequence):
        return f"first element is {type(out).__name__}"
    if ((out.num_nodes, out.num_edges, out.num_sites, out.num_mutations)
            != (ts.num_nodes, ts.num_edges, ts.num_sites, ts.num_mutations)):
        return "returned tree sequence has different numbers of nodes/edges/sites/mutations"
    i = 1
    if want_fit:
        fit = parts[i]
        i += 1
        if fit is None or isinstance(fit, (float, int, np.floating, tskit.TreeSequence, tuple)):
            return f"fit element is {type(fit).__name__}"
    if want_lik:
        lik = parts[i]
        if lik is not None and not isinstance(lik, (float, np.floating)):
            return f"likelihood element is {type(lik).__name__}"
    return ""


def clean(e):
    return isinstance(e, (ValueError, NotImplementedError)) and len(str(e).strip()) > 0


def describe_exc(e):
    tb = traceback.extract_tb(e.__traceback__)
    where = f"{tb[-1].filename.split('/')[-1]}:{tb[-1].lineno}" if tb else "?"
    return f"{type(e).__name__}: {str(e)[:140]} @ {where}"


def jsonable_kw(kw):
    return {k: (v if isinstance(v, (int, float, str, bool, type(None), dict)) else repr(v)) for k, v in kw.items()}


def run(req, rep):
    tier, seed = req["tier"], req["seed"]
    import tsdate
    import tsdate.util  # noqa: F401

    R = Runner(tsdate)
    ins = make_inputs(seed, tier)
    by_name = {n: t for n, t in ins}
    calls = sweep_calls(tier)
    counts = {}
    known_reported = {}

    def tally(k):
        counts[k] = counts.get(k, 0) + 1

    # ================= sweep: no internal error, documented shape
    n_calls = 0
    for iname, ts in ins:
        for fn, kw in calls:
            key = f"{iname}|{fn}|{sorted(jsonable_kw(kw).items())}"
            desc = {"input": iname, "function": fn, "kwargs": jsonable_kw(kw), "seed": seed,
                    "ts": bounded_api.ts_to_json(ts) if ts.num_nodes <= 10 else f"{ts.num_nodes} nodes (regenerate from name)"}
            status, val = R.call(fn, ts, kw)
            if status == "skipped":
                tally("skipped: prior grid cannot be built for this input")
                continue
            n_calls += 1
            if status == "returned":
                tally("returned")
                rep.case("no-internal-error", True, key=key, input=desc)
                why = shape_problem(val, ts, kw)
                rep.case("result-has-documented-shape", why == "", key=key, input=desc, observed=why or "ok",
                         expected="(ts[, fit][, likelihood])")
                continue
            e = val
            if clean(e):
                tally(f"clean {type(e).__name__}: {str(e)[:50]}")
                rep.case("no-internal-error", True, key=key, input=desc)
                continue
            clause = "no-internal-error"
            if isinstance(e, AssertionError) and "Use fewer rescaling intervals" in str(e):
                clause = "known-use-fewer-rescaling-intervals-assert"
            elif (isinstance(e, tskit.LibraryError) and "TSK_ERR_MUTATION_TIME_OLDER_THAN_PARENT_NODE" in str(e)
                  and R.ulp_adjacent_edge_seen()):
                clause = "known-mutation-time-not-below-parent-at-float-spacing"
            elif (isinstance(e, tskit.LibraryError) and "TSK_ERR_TIME_NONFINITE" in str(e)
                  and kw.get("probability_space") == "linear" and R.nan_times_seen()):
                clause = "known-linear-space-underflow-gives-nonfinite-times"
            tally(f"{clause}: {describe_exc(e)[:90]}")
            if clause.startswith("known-"):
                known_reported[clause] = known_reported.get(clause, 0) + 1
                if known_reported[clause] > 3:
                    continue
            rep.case(clause, False, key=key, input=desc, observed=describe_exc(e),
                     expected="a result, or ValueError / NotImplementedError with a message")

    # ================= invalid parameters are always rejected
    normal = [n for n in by_name if n.startswith("normal-")]
    nomut = [n for n in by_name if n.startswith("no-mutations")]
    multi = [n for n in by_name if n.startswith("normal-multi")]
    k_in = 2 if tier == "quick" else 6
    table = invalid_table()
    n_table = 0
    for label, fn, kw in table:
        if kw.get("_input") == "no-mutations":
            names = nomut[:max(1, k_in // 2)]
        elif kw.get("_input") == "multi":
            names = [n for n in multi if by_name[n].num_trees > 1][:max(1, k_in // 2)]
        else:
            names = normal[:k_in]
        for iname in names:
            ts = by_name[iname]
            key = f"invalid|{label}|{fn}|{iname}"
            desc = {"input": iname, "function": fn, "kwargs": jsonable_kw({k: v for k, v in kw.items() if k != "_input"}),
                    "invalid": label, "seed": seed}
            status, val = R.call(fn, ts, kw)
            if status == "skipped":
                continue
            n_table += 1
            if status == "returned":
                rep.case("invalid-parameter-rejected", False, key=key, input=desc,
                         observed="the call returned a result", expected="ValueError / NotImplementedError")
            else:
                rep.case("invalid-parameter-rejected", clean(val), key=key, input=desc, observed=describe_exc(val),
                         expected="ValueError / NotImplementedError with a message")
    rep.space = ("pathological-but-valid tree sequences x parameter sets inside / at the edge of the valid ranges for "
                 "date() and the three named methods; table of invalid parameters on ordinary inputs")
    rep.bound = (f"{len(ins)} inputs (<= {max(t.num_nodes for _, t in ins)} nodes) x {len(calls)} parameter sets = "
                 f"{n_calls} calls; invalid-parameter table: {len(table)} entries, {n_table} calls")
    rep.exhaustive = False
    rep.notes.append("outcomes of the sweep: " + "; ".join(f"{v} x {k}" for k, v in sorted(counts.items(), key=lambda x: -x[1])))


if __name__ == "__main__":
    bounded_api.main(run)
