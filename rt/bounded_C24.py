"""
Bounded stand-in for C24 -- per-edge mutation, span and singleton-block tallies are exact.

The REAL functions `tsdate.rescaling.count_mutations`, `tsdate.util.mutation_span_array`,
`tsdate.phasing.block_singletons` and the tallies stored by
`tsdate.variational.ExpectationPropagation.__init__` are called on every generated input and compared
with specification oracles written from the property statement.  The oracles share no code with tsdate:
the mutation -> edge map is computed from the edge TABLE definition (the row whose child is the mutation's
node and whose half-open interval [left, right) contains the site position; no such row = above a root),
sample counts below a node are counted by walking `tskit.Tree.nodes(u)` in the local tree, spans are
summed tree by tree with `tskit.Tree.edge(u)` in exact rational arithmetic (`fractions.Fraction`).

Contract clauses evaluated (each is one obligation)
  mutation-edge-map-equals-edge-above-node   count_mutations(...)[1][m] is the edge above the mutation's node
                                             at its position, NULL above roots / isolated nodes (every mask,
                                             both weightings)
  mutation-count-equals-direct-tally         unweighted column 0: one per mutation on that edge, none for
                                             mutations above roots
  span-equals-edge-span                      unweighted column 1: right - left of the edge row
  weighted-count-equals-samples-below        size_biased column 0: each mutation weighted by the number of
                                             samples below its node in the local tree
  weighted-span-equals-per-tree-tally        size_biased column 1: sum over trees of tree span x samples below
  explicit-sample-set-is-used                with node_is_sample=mask (mask.size == num_nodes, the F2 path) the
                                             weights count exactly the masked nodes; the unweighted result does
                                             not depend on the mask; the explicit default mask equals None
  mutation-span-array-equals-direct-tally    util.mutation_span_array: counts, spans and mutation -> edge map
  block-edges-are-the-two-leaf-branches      block_singletons: one block per maximal interval over which the
                                             two leaf edges of an unphased diploid individual stay the same
  block-span-equals-shared-interval          its span is the length of that interval
  block-singleton-count-exact                its count is the number of mutations on either node inside it
  mutation-block-map-exact                   mutations_block[m] names that block, NULL for every other mutation
  phased-individuals-have-no-blocks          individuals not flagged unphased produce no block / no mapping
  ep-inputs-equal-tallies                    ExpectationPropagation(ts, mutation_rate=mu, singletons_phased=..)
                                             stores exactly these tallies (spans times mu) in edge_likelihoods,
                                             sizebiased_likelihoods, mutation_edges, block_likelihoods,
                                             block_edges, mutation_blocks
                                             (the block arrays of the object are reported under the four
                                             block clauses)
  known-block-count-includes-singletons-where-both-nodes-isolated
                                             block-singleton-count-exact on inputs in which an unphased individual
                                             carries a mutation at a position where NEITHER of its nodes has an
                                             edge (left flank or gap) and a block of that individual follows:
                                             the real code adds such mutations to the count of that next block.  Isolated here (condition decided
                                             from the input alone) so that block-singleton-count-exact stays
                                             strict on every other input; the other three block clauses are NOT
                                             relaxed on these inputs.
  known-block-tally-when-one-node-isolated   the four block clauses on inputs where one node of an unphased
                                             individual is isolated over a region in which the other is not
                                             (outside the stated precondition of _block_singletons, DESIGN C22):
                                             AssertionError or misattributed counts/spans; kept apart so the
                                             generic clauses stay strict

Input space and bound
  quick    : every rooted leaf-labelled tree shape with <= 4 leaves (polytomies included, 1+4+26 shapes) with
             one mutation on EVERY node (root included); 100 generated tree sequences: windows (length 100, or a
             single tree) carved from a recombining msprime simulation with diploid, haploid and historical
             (haploid and diploid) individuals and simplified down to 3..8 contemporary sample nodes (+ up to 2
             historical), 1..~10 trees, ~5..40 fresh mutations (several per site in most inputs), then randomly
             transformed by: collapsing internal nodes (polytomies, detached nodes carrying mutations), isolating
             a node over an interval (missing data with mutations above the isolated node), isolating both nodes
             of an individual, trimming both flanks (sites beyond the last edge), extra mutations on arbitrary
             nodes (roots, nodes absent from the local tree), internal samples, splitting edge rows, non-dyadic
             rescaling of coordinates; each with 6 explicit sample masks (the default one, all false, all true,
             internal nodes only, two random) and 3 unphased-individual masks (all diploid contemporary
             individuals, a random subset, none).
  thorough : shapes with <= 5 leaves (236 more) and 5000 generated tree sequences, up to 12 sample nodes.
  Not exhaustive (the generated part is random, seeded by req["seed"]).

Tolerances
  Counts, weighted counts and all integer maps: exact equality (sums of small integers in float64 are exact).
  Spans: the kernel accumulates `+- k * (L - x)` at every breakpoint where the sample count below an edge
  changes, the oracle is exact; each of the <= 2 (T + 1) accumulated terms is at most n L and carries a
  relative rounding error <= 2**-52, so |error| <= 2 (T + 1) n L 2**-52 < 1e-12 (T + 1) n L, which is the
  absolute tolerance used (n = masked nodes, at least 1; T = trees; L = sequence length).  With integer
  coordinates (most inputs) the comparison is in fact exact.

NOT covered
  Large inputs (hundreds of nodes / thousands of trees), the numba-compiled build of the kernels (the
  stand-in runs the same source as plain Python when NUMBA_DISABLE_JIT=1), individuals that are not diploid
  or not contemporary (block_singletons rejects them: C22/C35), sample nodes of unphased individuals that
  are internal nodes, accessibility masks (a TODO in the source), behaviour for unsorted / invalid tables.
"""
import itertools
from fractions import Fraction

import msprime
import numpy as np
import tskit

from rt import bounded_api, inputs

NULL = tskit.NULL


# ---------------------------------------------------------------------------------------- oracles
def oracle_mutation_edges(ts):
    """Edge above each mutation's node at its position, from the edge table definition."""
    out = np.full(ts.num_mutations, NULL, dtype=np.int64)
    left, right, child = ts.edges_left, ts.edges_right, ts.edges_child
    pos = ts.sites_position[ts.mutations_site]
    for m in range(ts.num_mutations):
        hits = np.flatnonzero((child == ts.mutations_node[m]) & (left <= pos[m]) & (pos[m] < right))
        assert hits.size <= 1, "two edges above one node at one position: invalid input"
        if hits.size:
            out[m] = hits[0]
    return out


def below(tree, u, mask):
    """Number of masked nodes in the subtree of the local tree rooted at u (u included)."""
    return sum(1 for v in tree.nodes(u) if mask[v])


def oracle_counts(ts, mask, weighted):
    mut_edge = oracle_mutation_edges(ts)
    counts = np.zeros(ts.num_edges)
    pos = ts.sites_position[ts.mutations_site]
    tree = tskit.Tree(ts)
    for m in range(ts.num_mutations):
        if mut_edge[m] == NULL:
            continue  # above a root / on an isolated node: counts on no edge
        if weighted:
            tree.seek(pos[m])
            counts[mut_edge[m]] += below(tree, int(ts.mutations_node[m]), mask)
        else:
            counts[mut_edge[m]] += 1
    return counts, mut_edge


def oracle_spans(ts, mask, weighted):
    """Exact per-edge (weighted) span, tallied tree by tree."""
    spans = [Fraction(0)] * ts.num_edges
    for tree in ts.trees():
        width = Fraction(tree.interval.right) - Fraction(tree.interval.left)
        for u in range(ts.num_nodes):
            e = tree.edge(u)
            if e != NULL:
                spans[e] += width * (below(tree, u, mask) if weighted else 1)
    return spans


def oracle_blocks(ts, unphased):
    """
    {frozenset(two edges): (singletons, span)} and, per mutation, the key of its block (None if none),
    plus the set of individuals for which one node is isolated where the other is not ("lopsided") and the
    mutations on a node of an unphased individual at a position where NEITHER of its nodes has an edge
    and that are followed, further right, by a block of the same individual ("stray": they lie in no block).
    """
    blocks = {}
    mut_key = [None] * ts.num_mutations
    lopsided = set()
    stray = []
    pos = ts.sites_position[ts.mutations_site]
    for ind in ts.individuals():
        if not unphased[ind.id]:
            continue
        u, v = (int(x) for x in ind.nodes)
        runs = []  # [pair, left, right]
        for tree in ts.trees():
            pair = (tree.edge(u), tree.edge(v))
            if runs and runs[-1][0] == pair:
                runs[-1][2] = tree.interval.right
            else:
                runs.append([pair, tree.interval.left, tree.interval.right])
        for (eu, ev), a, b in runs:
            if (eu == NULL) != (ev == NULL):
                lopsided.add(ind.id)
            inside = [m for m in range(ts.num_mutations)
                      if ts.mutations_node[m] in (u, v) and a <= pos[m] < b]
            if eu == NULL and ev == NULL and any(x != NULL and y != NULL for (x, y), a2, _ in runs if a2 >= b):
                stray.extend(inside)  # ... and a block of the same individual follows
            if eu == NULL or ev == NULL:
                continue
            key = frozenset((eu, ev))
            assert key not in blocks
            blocks[key] = (len(inside), Fraction(b) - Fraction(a))
            for m in inside:
                mut_key[m] = key
    return blocks, mut_key, lopsided, stray


# ---------------------------------------------------------------------------------------- inputs
def finish(tables):
    tables.mutations.time = np.full(tables.mutations.num_rows, tskit.UNKNOWN_TIME)
    tables.sort()
    tables.build_index()
    tables.compute_mutation_parents()
    return tables.tree_sequence()


class Pool:
    """
    Source of small simulated tree sequences.  One msprime ancestry simulation costs ~0.4 s of set-up however
    small it is, so a few larger ones are simulated (24 diploid + 12 haploid contemporary individuals, 6 haploid
    historical samples at two times, 2 diploid historical individuals; recombining) and small inputs are carved
    out of them: a random window, simplified down to a random subset of the individuals, then mutated afresh.
    """

    def __init__(self, rng, length=4000, refresh=150):
        self.rng, self.length, self.refresh, self.served, self.big = rng, length, refresh, 0, None

    def _simulate(self):
        seed = int(self.rng.integers(1, 2 ** 31 - 2))
        sets = [msprime.SampleSet(24, time=0, ploidy=2), msprime.SampleSet(12, time=0, ploidy=1),
                msprime.SampleSet(3, time=15, ploidy=1), msprime.SampleSet(3, time=40, ploidy=1),
                msprime.SampleSet(2, time=25, ploidy=2)]
        self.big = msprime.sim_ancestry(sets, sequence_length=self.length, population_size=50, random_seed=seed,
                                        recombination_rate=float(self.rng.choice([5e-5, 1.5e-4])))
        inds = list(self.big.individuals())
        time = self.big.nodes_time
        self.groups = {
            "diploid": [i.id for i in inds if i.nodes.size == 2 and time[i.nodes[0]] == 0],
            "haploid": [i.id for i in inds if i.nodes.size == 1 and time[i.nodes[0]] == 0],
            "old-haploid": [i.id for i in inds if i.nodes.size == 1 and time[i.nodes[0]] > 0],
            "old-diploid": [i.id for i in inds if i.nodes.size == 2 and time[i.nodes[0]] > 0],
        }

    def draw(self, want, width=100, muts=20.0, discrete_sites=True):
        """`want`: {group: how many individuals}.  Returns a tree sequence of length `width`."""
        if self.big is None or self.served % self.refresh == 0:
            self._simulate()
        self.served += 1
        rng = self.rng
        nodes = []
        for group, k in want.items():
            for i in rng.choice(self.groups[group], size=min(k, len(self.groups[group])), replace=False):
                nodes.extend(int(u) for u in self.big.individual(int(i)).nodes)
        if rng.random() < 0.25:  # a single tree
            width = 1
        a = float(rng.integers(0, self.length - width + 1))
        ts = self.big.keep_intervals([[a, a + width]], simplify=False).trim().simplify(nodes)
        if width == 1:  # stretch to the usual length
            tables = ts.dump_tables()
            tables.sequence_length = 100.0
            tables.edges.right = np.full(tables.edges.num_rows, 100.0)
            ts = tables.tree_sequence()
        area = float(np.sum((ts.edges_right - ts.edges_left) *
                            (ts.nodes_time[ts.edges_parent] - ts.nodes_time[ts.edges_child])))
        ts = msprime.sim_mutations(ts, rate=muts / area, random_seed=int(rng.integers(1, 2 ** 31 - 2)),
                                   discrete_genome=discrete_sites)
        return finish(ts.dump_tables())


def clip_child(ts, child_nodes, a, b):
    """Remove the part of every edge above `child_nodes` that lies inside [a, b)."""
    tables = ts.dump_tables()
    edges = tables.edges.copy()
    tables.edges.clear()
    for e in edges:
        if e.child in child_nodes and e.left < b and a < e.right:
            if e.left < a:
                tables.edges.add_row(e.left, a, e.parent, e.child)
            if b < e.right:
                tables.edges.add_row(b, e.right, e.parent, e.child)
        else:
            tables.edges.add_row(e.left, e.right, e.parent, e.child)
    return finish(tables)


def t_isolate(ts, rng):
    kids = np.unique(ts.edges_child)
    c = int(rng.choice(kids))
    a = float(rng.integers(0, int(ts.sequence_length) - 1))
    b = float(rng.integers(int(a) + 1, int(ts.sequence_length) + 1))
    return clip_child(ts, {c}, a, b)


def t_isolate_individual(ts, rng):
    """Both nodes of one individual isolated over the same interval (inside the block precondition)."""
    if ts.num_individuals == 0:
        return ts
    ind = ts.individual(int(rng.integers(0, ts.num_individuals)))
    a = float(rng.integers(0, int(ts.sequence_length) - 1))
    b = float(rng.integers(int(a) + 1, int(ts.sequence_length) + 1))
    return clip_child(ts, set(int(x) for x in ind.nodes), a, b)


def t_trim_flanks(ts, rng):
    L = int(ts.sequence_length)
    a = float(rng.integers(1, max(2, L // 4)))
    b = float(rng.integers(L - L // 4, L))
    every = set(range(ts.num_nodes))
    return clip_child(clip_child(ts, every, 0.0, a), every, b, float(L))


def t_collapse(ts, rng):
    """Remove an internal non-sample node from the topology (its children attach to its parent where it has
    one and become roots elsewhere).  Mutations on the removed node stay: they are on a detached node."""
    internal = [u for u in np.unique(ts.edges_parent) if not ts.node(u).is_sample()]
    if not internal:
        return ts
    u = int(rng.choice(internal))
    tables = ts.dump_tables()
    edges = tables.edges.copy()
    tables.edges.clear()
    up = [e for e in edges if e.child == u]
    for e in edges:
        if e.child == u:
            continue
        if e.parent != u:
            tables.edges.add_row(e.left, e.right, e.parent, e.child)
            continue
        for f in up:
            lo, hi = max(e.left, f.left), min(e.right, f.right)
            if lo < hi:
                tables.edges.add_row(lo, hi, f.parent, e.child)
    tables.sort()
    tables.edges.squash()
    return finish(tables)


def t_extra_mutations(ts, rng):
    """Mutations on arbitrary nodes at fresh positions: roots, nodes absent from the local tree, leaves."""
    tables = ts.dump_tables()
    used = set(ts.sites_position.tolist())
    L = ts.sequence_length
    for _ in range(int(rng.integers(2, 7))):
        x = float(rng.integers(0, int(L))) + 0.5
        if x in used or x >= L:
            continue
        used.add(x)
        s = tables.sites.add_row(position=x, ancestral_state="0")
        tables.mutations.add_row(site=s, node=int(rng.integers(0, ts.num_nodes)), derived_state="1")
    first = ts.first()  # and one above the root of the first tree for certain
    if 0.25 not in used and first.num_roots == 1:
        s = tables.sites.add_row(position=0.25, ancestral_state="0")
        tables.mutations.add_row(site=s, node=first.root, derived_state="1")
    return finish(tables)


def t_internal_samples(ts, rng):
    internal = [u for u in np.unique(ts.edges_parent) if not ts.node(u).is_sample()]
    if not internal:
        return ts
    tables = ts.dump_tables()
    flags = tables.nodes.flags.copy()
    for u in rng.choice(internal, size=min(len(internal), int(rng.integers(1, 3))), replace=False):
        flags[int(u)] |= tskit.NODE_IS_SAMPLE
    tables.nodes.flags = flags
    return finish(tables)


def t_split_rows(ts, rng):
    """Split some edge rows in two adjacent rows (same parent and child): tallies are per ROW."""
    tables = ts.dump_tables()
    edges = tables.edges.copy()
    tables.edges.clear()
    for e in edges:
        if e.right - e.left >= 2 and rng.random() < 0.3:
            x = float(rng.integers(int(np.ceil(e.left)) + 1, int(np.ceil(e.right))))
            if e.left < x < e.right:
                tables.edges.add_row(e.left, x, e.parent, e.child)
                tables.edges.add_row(x, e.right, e.parent, e.child)
                continue
        tables.edges.add_row(e.left, e.right, e.parent, e.child)
    return finish(tables)


def t_scale_coordinates(ts, rng):
    f = float(rng.choice([0.3, 1.0 / 7.0, 3.3, np.pi]))
    tables = ts.dump_tables()
    out = tskit.TableCollection(ts.sequence_length * f)
    out.nodes.replace_with(tables.nodes)
    out.individuals.replace_with(tables.individuals)
    out.populations.replace_with(tables.populations)
    out.edges.set_columns(left=tables.edges.left * f, right=np.minimum(tables.edges.right * f, out.sequence_length),
                          parent=tables.edges.parent, child=tables.edges.child)
    out.sites.set_columns(position=tables.sites.position * f, ancestral_state=tables.sites.ancestral_state,
                          ancestral_state_offset=tables.sites.ancestral_state_offset)
    out.mutations.replace_with(tables.mutations)
    return finish(out)


TRANSFORMS = {"isolate": t_isolate, "isolate_individual": t_isolate_individual, "trim": t_trim_flanks,
              "collapse": t_collapse, "extra_mutations": t_extra_mutations,
              "internal_samples": t_internal_samples, "split_rows": t_split_rows}


def generated(rng, count, max_n):
    """(key, description, ts): simulated then randomly transformed tree sequences."""
    names = list(TRANSFORMS)
    pool = Pool(rng)
    for i in range(count):
        kind = i % 4
        n = int(rng.integers(3, max_n + 1))
        if kind == 0:
            ts = pool.draw({"haploid": n}, muts=float(rng.choice([8, 25])))
        elif kind == 1:
            ts = pool.draw({"diploid": max(2, n // 2)}, muts=30.0)
        elif kind == 2:
            ts = pool.draw({"haploid": max(2, n - 2), "old-haploid": 2}, muts=20.0,
                           discrete_sites=bool(rng.random() < 0.5))
        else:
            ts = pool.draw({"diploid": max(2, n // 2), "old-haploid": int(rng.integers(0, 2)),
                            "old-diploid": int(rng.integers(0, 2))}, muts=25.0, discrete_sites=False)
        applied = []
        for _ in range(int(rng.integers(0, 4))):
            name = str(rng.choice(names))
            ts = TRANSFORMS[name](ts, rng)
            applied.append(name)
        if rng.random() < 0.25:
            ts = t_scale_coordinates(ts, rng)
            applied.append("scale_coordinates")
        yield f"gen{i}", {"base": kind, "transforms": applied}, ts


def shapes(max_leaves):
    for n in range(2, max_leaves + 1):
        for k, shape in enumerate(inputs.all_tree_shapes(n)):
            ts0 = inputs.tree_to_ts(shape)
            ts = inputs.tree_to_ts(shape, mutations={u: 1 for u in range(ts0.num_nodes)})
            yield f"shape{n}.{k}", {"shape": repr(shape), "mutations": "one on every node"}, ts


def sample_masks(ts, rng):
    n = ts.num_nodes
    default = np.zeros(n, dtype=bool)
    default[ts.samples()] = True
    internal = np.zeros(n, dtype=bool)
    internal[np.unique(ts.edges_parent)] = True
    yield "default-explicit", default
    yield "none", np.zeros(n, dtype=bool)
    yield "all", np.ones(n, dtype=bool)
    yield "internal", internal
    yield "random-a", rng.random(n) < 0.5
    yield "random-b", rng.random(n) < 0.25


def unphased_masks(ts, rng):
    diploid = np.array([ind.nodes.size == 2 and bool(np.all(ts.nodes_time[ind.nodes] == 0)) and
                        all(ts.node(int(u)).is_sample() for u in ind.nodes)
                        and not np.isin(ind.nodes, ts.edges_parent).any()
                        for ind in ts.individuals()], dtype=bool)
    if ts.num_individuals == 0:
        yield "no-individuals", np.zeros(0, dtype=bool)
        return
    yield "all-diploid", diploid.copy()
    yield "random", diploid & (rng.random(ts.num_individuals) < 0.5)
    yield "none", np.zeros(ts.num_individuals, dtype=bool)


# ---------------------------------------------------------------------------------------- checks
def span_close(observed, exact, atol):
    return all(abs(Fraction(float(o)) - x) <= atol for o, x in zip(observed, exact)) and len(observed) == len(exact)


def check_counts(rep, key, desc, ts, rng, count_mutations):
    default = np.zeros(ts.num_nodes, dtype=bool)
    default[ts.samples()] = True
    T, L = ts.num_trees, ts.sequence_length
    o_mut_edge = oracle_mutation_edges(ts)
    o_counts, _ = oracle_counts(ts, default, False)
    o_spans = oracle_spans(ts, default, False)
    exp_spans = [float(x) for x in o_spans]

    def inp(extra=None):
        d = {"desc": desc, "ts": bounded_api.ts_to_json(ts)}
        d.update(extra or {})
        return d

    # --- default sample set, both weightings
    stats, mut_edge = count_mutations(ts)
    rep.case("mutation-edge-map-equals-edge-above-node", np.array_equal(mut_edge, o_mut_edge), key=key,
             input=inp(), observed=mut_edge, expected=o_mut_edge)
    rep.case("mutation-count-equals-direct-tally", np.array_equal(stats[:, 0], o_counts), key=key,
             input=inp(), observed=stats[:, 0], expected=o_counts)
    tol = Fraction(1e-12) * Fraction(L) * (T + 1)
    rep.case("span-equals-edge-span", span_close(stats[:, 1], o_spans, tol), key=key,
             input=inp(), observed=stats[:, 1], expected=exp_spans)
    # the span of an edge row is also simply right - left
    rep.case("span-equals-edge-span", span_close(stats[:, 1], [Fraction(r) - Fraction(a) for a, r in
                                                               zip(ts.edges_left, ts.edges_right)], tol),
             key=key, input=inp(), observed=stats[:, 1], expected=(ts.edges_right - ts.edges_left))

    wstats, wmut_edge = count_mutations(ts, size_biased=True)
    w_counts, _ = oracle_counts(ts, default, True)
    w_spans = oracle_spans(ts, default, True)
    wtol = tol * max(1, int(default.sum()))
    rep.case("mutation-edge-map-equals-edge-above-node", np.array_equal(wmut_edge, o_mut_edge), key=key,
             input=inp({"size_biased": True}), observed=wmut_edge, expected=o_mut_edge)
    rep.case("weighted-count-equals-samples-below", np.array_equal(wstats[:, 0], w_counts), key=key,
             input=inp({"size_biased": True}), observed=wstats[:, 0], expected=w_counts)
    rep.case("weighted-span-equals-per-tree-tally", span_close(wstats[:, 1], w_spans, wtol), key=key,
             input=inp({"size_biased": True}), observed=wstats[:, 1], expected=[float(x) for x in w_spans])

    # --- explicit sample sets
    for mname, mask in sample_masks(ts, rng):
        mkey = f"{key}/{mname}"
        extra = {"node_is_sample": mask.tolist()}
        try:
            ms, me = count_mutations(ts, node_is_sample=mask, size_biased=True)
            us, ue = count_mutations(ts, node_is_sample=mask, size_biased=False)
        except Exception as exc:  # the F2 path: an explicit mask of the right length must be accepted
            rep.case("explicit-sample-set-is-used", False, key=mkey, input=inp(extra),
                     observed=f"{type(exc).__name__}: {exc}", expected="a result")
            continue
        mc, _ = oracle_counts(ts, mask, True)
        msp = oracle_spans(ts, mask, True)
        mtol = tol * max(1, int(mask.sum()))
        ok = (np.array_equal(ms[:, 0], mc) and span_close(ms[:, 1], msp, mtol) and np.array_equal(me, o_mut_edge))
        rep.case("explicit-sample-set-is-used", ok, key=mkey, input=inp(extra),
                 observed={"count": ms[:, 0], "span": ms[:, 1], "edge": me},
                 expected={"count": mc, "span": [float(x) for x in msp], "edge": o_mut_edge})
        ok = (np.array_equal(us[:, 0], o_counts) and span_close(us[:, 1], o_spans, tol)
              and np.array_equal(ue, o_mut_edge))
        rep.case("explicit-sample-set-is-used", ok, key=mkey + "/unweighted", input=inp(extra),
                 observed={"count": us[:, 0], "span": us[:, 1]}, expected={"count": o_counts, "span": exp_spans},
                 nontrivial=False)
        if mname == "default-explicit":  # same numbers as node_is_sample=None, bit for bit
            ok = np.array_equal(ms, wstats) and np.array_equal(us, stats)
            rep.case("explicit-sample-set-is-used", ok, key=mkey + "/same-as-none", input=inp(extra),
                     observed=ms, expected=wstats, nontrivial=False)
    return o_mut_edge, o_counts, o_spans, w_counts, w_spans


def check_span_array(rep, key, desc, ts, mutation_span_array, o_mut_edge, o_counts, o_spans):
    spans, edges = mutation_span_array(ts)
    ok = (np.array_equal(spans[:, 0], o_counts) and np.array_equal(edges, o_mut_edge)
          and span_close(spans[:, 1], o_spans, Fraction(1e-12) * Fraction(ts.sequence_length)))
    rep.case("mutation-span-array-equals-direct-tally", ok, key=key,
             input={"desc": desc, "ts": bounded_api.ts_to_json(ts)},
             observed={"count": spans[:, 0], "span": spans[:, 1], "edge": edges},
             expected={"count": o_counts, "span": [float(x) for x in o_spans], "edge": o_mut_edge})


def compare_blocks(ts, stats, edges, mblock, o_blocks, o_key):
    """Four booleans (edges, span, count, map) + a printable observation."""
    rows = [frozenset(int(x) for x in r) for r in edges]
    obs = {"edges": edges, "stats": stats, "mutations_block": mblock}
    ok_edges = (len(rows) == len(set(rows)) and set(rows) == set(o_blocks) and all(len(r) == 2 for r in rows)
                and stats.shape == (len(rows), 2))
    tol = Fraction(1e-12) * Fraction(ts.sequence_length) * (ts.num_trees + 1)
    ok_span = ok_edges and all(abs(Fraction(float(stats[i, 1])) - o_blocks[r][1]) <= tol for i, r in enumerate(rows))
    ok_count = ok_edges and all(stats[i, 0] == o_blocks[r][0] for i, r in enumerate(rows))
    ok_map = len(mblock) == ts.num_mutations
    if ok_map:
        for m in range(ts.num_mutations):
            b = int(mblock[m])
            got = None if b == NULL else (rows[b] if 0 <= b < len(rows) else "out of range")
            if got != o_key[m]:
                ok_map = False
    return ok_edges, ok_span, ok_count, ok_map, obs


KNOWN_LOPSIDED = "known-block-tally-when-one-node-isolated"
KNOWN_STRAY = "known-block-count-includes-singletons-where-both-nodes-isolated"


def report_blocks(rep, key, inp, expected, verdicts, obs, lopsided, stray, nontrivial):
    """Route the four block verdicts to the generic clauses, or to the clause of the one isolated condition
    that applies (decided from the INPUT alone, never from the outcome)."""
    oe, osp, oc, om = verdicts
    if lopsided:
        rep.case(KNOWN_LOPSIDED, oe and osp and oc and om, key=key, input=inp, observed=obs, expected=expected)
        return
    rep.case("block-edges-are-the-two-leaf-branches", oe, key=key, input=inp, observed=obs, expected=expected,
             nontrivial=nontrivial)
    rep.case("block-span-equals-shared-interval", osp, key=key, input=inp, observed=obs, expected=expected,
             nontrivial=nontrivial)
    rep.case(KNOWN_STRAY if stray else "block-singleton-count-exact", oc, key=key, input=inp, observed=obs,
             expected=expected, nontrivial=nontrivial)
    rep.case("mutation-block-map-exact", om, key=key, input=inp, observed=obs, expected=expected,
             nontrivial=nontrivial)


def check_blocks(rep, key, desc, ts, rng, block_singletons):
    for uname, unphased in unphased_masks(ts, rng):
        ukey = f"{key}/unphased-{uname}"
        o_blocks, o_key, lopsided, stray = oracle_blocks(ts, unphased)
        inp = {"desc": desc, "ts": bounded_api.ts_to_json(ts), "individuals_unphased": unphased.tolist()}
        expected = {"blocks": {str(sorted(k)): (c, float(s)) for k, (c, s) in o_blocks.items()},
                    "mutation_block_edges": [None if k is None else sorted(k) for k in o_key],
                    "lopsided_individuals": sorted(lopsided), "stray_mutations": stray}
        try:
            stats, edges, mblock = block_singletons(ts, unphased)
        except Exception as exc:
            rep.case(KNOWN_LOPSIDED if lopsided else "block-edges-are-the-two-leaf-branches", False, key=ukey,
                     input=inp, observed=f"{type(exc).__name__}: {exc}", expected=expected)
            continue
        if not unphased.any():
            ok = stats.shape == (0, 2) and edges.shape == (0, 2) and bool(np.all(mblock == NULL)) \
                and mblock.size == ts.num_mutations
            rep.case("phased-individuals-have-no-blocks", ok, key=ukey, input=inp,
                     observed={"edges": edges, "mutations_block": mblock}, expected="no blocks",
                     nontrivial=ts.num_individuals > 0)
            continue
        oe, osp, oc, om, obs = compare_blocks(ts, stats, edges, mblock, o_blocks, o_key)
        report_blocks(rep, ukey, inp, expected, (oe, osp, oc, om), obs, lopsided, stray, len(o_blocks) > 0)
        # individuals that are not flagged contribute nothing
        flagged_nodes = set(int(u) for ind in ts.individuals() if unphased[ind.id] for u in ind.nodes)
        ok = all(int(mblock[m]) == NULL for m in range(ts.num_mutations)
                 if int(ts.mutations_node[m]) not in flagged_nodes)
        rep.case("phased-individuals-have-no-blocks", ok, key=ukey + "/others", input=inp,
                 observed=mblock, expected="NULL outside flagged individuals", nontrivial=False)


def check_ep(rep, key, desc, ts, rng, EP, tallies):
    """The tallies that variational dating and rescaling actually use."""
    o_mut_edge, o_counts, o_spans, w_counts, w_spans = tallies
    mu = float(rng.choice([1e-3, 0.37, 2.0]))
    L, T = ts.sequence_length, ts.num_trees
    nsamp = max(1, ts.num_samples)
    for phased in (True, False):
        ekey = f"{key}/ep-phased-{phased}"
        inp = {"desc": desc, "ts": bounded_api.ts_to_json(ts), "mutation_rate": mu, "singletons_phased": phased}
        unphased = np.full(ts.num_individuals, not phased)
        if not phased and any(ind.nodes.size != 2 for ind in ts.individuals()):
            continue  # not diploid: outside the domain of singletons_phased=False
        o_blocks, o_key, lopsided, stray = oracle_blocks(ts, unphased)
        try:
            fit = EP(ts, mutation_rate=mu, singletons_phased=phased, allow_unary=True)
        except ValueError:
            continue  # clean rejection (disconnected nodes, historical individuals, ...): not this property
        except Exception as exc:
            rep.case(KNOWN_LOPSIDED if lopsided else "ep-inputs-equal-tallies", False, key=ekey, input=inp,
                     observed=f"{type(exc).__name__}: {exc}", expected="an object")
            continue
        # spans are multiplied by mu: one more rounding (relative 2**-53), compared against exact span * mu
        fm = Fraction(mu)
        tol = (Fraction(1e-12) * (T + 1) + Fraction(1e-15)) * Fraction(L) * fm
        ok = (np.array_equal(fit.mutation_edges, o_mut_edge)
              and np.array_equal(fit.edge_likelihoods[:, 0], o_counts)
              and np.array_equal(fit.sizebiased_likelihoods[:, 0], w_counts)
              and span_close(fit.edge_likelihoods[:, 1], [x * fm for x in o_spans], tol)
              and span_close(fit.sizebiased_likelihoods[:, 1], [x * fm for x in w_spans], tol * nsamp))
        rep.case("ep-inputs-equal-tallies", ok, key=ekey, input=inp,
                 observed={"edge": fit.edge_likelihoods, "sizebiased": fit.sizebiased_likelihoods,
                           "mutation_edges": fit.mutation_edges},
                 expected={"count": o_counts, "weighted_count": w_counts, "mutation_edges": o_mut_edge,
                           "span_times_mu": [float(x * fm) for x in o_spans],
                           "weighted_span_times_mu": [float(x * fm) for x in w_spans]})
        # block tallies held by the object (span / mu costs two more roundings: inside the 1e-12 L (T+1) bound)
        stats = np.column_stack([fit.block_likelihoods[:, 0], fit.block_likelihoods[:, 1] / mu])
        oe, osp, oc, om, obs = compare_blocks(ts, stats, fit.block_edges, fit.mutation_blocks, o_blocks, o_key)
        expected = {"blocks": {str(sorted(k)): (c, float(s)) for k, (c, s) in o_blocks.items()},
                    "mutation_block_edges": [None if k is None else sorted(k) for k in o_key],
                    "lopsided_individuals": sorted(lopsided), "stray_mutations": stray}
        report_blocks(rep, ekey, inp, expected, (oe, osp, oc, om), obs, lopsided, stray,
                      len(o_blocks) > 0)


def run(req, rep):
    tier, seed = req["tier"], int(req["seed"])
    rng = np.random.default_rng(seed)
    from tsdate.phasing import block_singletons
    from tsdate.rescaling import count_mutations
    from tsdate.util import mutation_span_array
    from tsdate.variational import ExpectationPropagation

    thorough = tier == "thorough"
    max_leaves, count, max_n = (5, 5000, 12) if thorough else (4, 100, 8)
    rep.space = ("all rooted leaf-labelled tree shapes (polytomies included) with one mutation on every node; "
                 "msprime simulations (haploid / diploid / historical samples, sequence length 100) randomly "
                 "transformed by node collapse, node isolation, flank trimming, extra mutations on arbitrary nodes, "
                 "internal samples, split edge rows, coordinate scaling; x 6 explicit sample masks x 3 "
                 "unphased-individual masks")
    rep.bound = (f"tree shapes with <= {max_leaves} leaves (exhaustive); {count} generated tree sequences with <= "
                 f"{max_n} sample nodes (+2 historical), seed {seed}")
    rep.exhaustive = False

    cases = itertools.chain(shapes(max_leaves), generated(rng, count, max_n))
    for key, desc, ts in cases:
        tallies = check_counts(rep, key, desc, ts, rng, count_mutations)
        check_span_array(rep, key, desc, ts, mutation_span_array, *tallies[:3])
        check_blocks(rep, key, desc, ts, rng, block_singletons)
        if ts.num_mutations and (thorough or key.startswith("gen")):
            check_ep(rep, key, desc, ts, rng, ExpectationPropagation, tallies)


if __name__ == "__main__":
    bounded_api.main(run)
