"""Input generators for function-level concrete contract evaluation (runs under /venv/bin/python)."""
import json
import math
import sys

import numpy as np


def _dag(rng, n_samples, n_internal):
    """Random topologically ordered edge list: nodes 0..n_samples-1 are leaves; edges sorted by parent."""
    N = n_samples + n_internal
    parents, children = [], []
    for p in range(n_samples, N):
        k = int(rng.integers(1, 4))
        cs = rng.choice(p, size=min(k, p), replace=False)
        for c in sorted(cs):
            parents.append(p)
            children.append(int(c))
    return N, np.array(parents, dtype=np.int32), np.array(children, dtype=np.int32)


def constrain_ages(rng, hint):
    ns, ni = int(rng.integers(1, 5)), int(rng.integers(1, 6))
    N, P, C = _dag(rng, ns, ni)
    scale = float(rng.choice([1e-6, 1.0, 1e3, 3e8, 1e12, 1e15]))
    mode = rng.integers(0, 4)
    if mode == 0:  # random unconstrained times
        t = rng.random(N) * scale
    elif mode == 1:  # ties and reversed orders
        t = np.round(rng.random(N) * 3) * scale
    elif mode == 2:  # already satisfied: increasing with node id
        t = np.arange(N, dtype=float) * scale * (1 + rng.random())
    else:
        t = rng.choice([0.0, 1.0, 2.0], size=N) * scale
    fixed = np.zeros(N, dtype=bool)
    fixed[:ns] = True
    if rng.random() < 0.3:  # an internal sample
        fixed[int(rng.integers(ns, N))] = True
    # fixed-fixed edges must carry valid tree-sequence times
    for _ in range(3):
        for p, c in zip(P, C):
            if fixed[p] and fixed[c] and not t[p] > t[c]:
                t[p] = t[c] + scale
    eps = float(rng.choice([1e-8, 1e-6, 1e-3, 1.0, 100.0, hint.get("epsilon") or 1e-8]))
    if not (eps > 0 and math.isfinite(eps)):
        eps = 1e-8
    it = int(rng.choice([0, 0, 1, 3, 10]))
    return {"nodes_time": t.tolist(), "nodes_fixed": fixed.tolist(), "edges_parent": P.tolist(),
            "edges_child": C.tolist(), "epsilon": eps, "max_iterations": it}


def damp(rng, hint):
    x = [float(rng.random() * 10.0 ** rng.integers(-3, 4) - 0.99), float(rng.random() * 10.0 ** rng.integers(-6, 6) + 1e-300)]
    y = [float((rng.random() - 0.3) * 10.0 ** rng.integers(-3, 5)), float((rng.random() - 0.3) * 10.0 ** rng.integers(-6, 7))]
    if rng.random() < 0.1:
        x, y = [0.0, 0.0], [0.0, 0.0]
    if rng.random() < 0.1:
        y = [0.0, 0.0]
    return {"x": x, "y": y, "s": float(rng.choice([0.1, 0.5, 0.01, 0.99]))}


def rescale(rng, hint):
    x = [float(rng.random() * 10.0 ** rng.integers(-3, 5) - 0.99), float(rng.random() * 10.0 ** rng.integers(-6, 6) + 1e-300)]
    if rng.random() < 0.1:
        x = [0.0, 0.0]
    return {"x": x, "s": float(rng.choice([1.0000001, 1.5, 5.0, 1000.0]))}


def reallocate_unphased(rng, hint):
    E = int(rng.integers(2, 8))
    B = int(rng.integers(0, 4))
    be = [[int(x) for x in rng.choice(E, size=2, replace=bool(rng.random() < 0.1))] for _ in range(B)]
    M = int(rng.integers(0, 8))
    blk = [int(rng.integers(-1, B)) if B else -1 for _ in range(M)]
    ph = [float(rng.choice([0.0, 1.0, 0.5, rng.random()])) for _ in range(M)]
    lik = rng.integers(0, 5, size=(E, 2)).astype(float)
    # caller state assumed by the kernel's closing assert: the counts on block edges are the singletons
    # of the blocks (each recorded on one of the block's two edges)
    for e in {x for pair in be for x in pair}:
        lik[e, 0] = 0.0
    for q in range(M):
        if blk[q] >= 0:
            lik[be[blk[q]][int(rng.integers(0, 2))], 0] += 1.0
    return {"edges_likelihood": lik.tolist(), "mutations_phase": ph, "mutations_block": blk,
            "blocks_edges": be if B else {"shape": [0, 2], "data": []}}


def piecewise_point(rng, hint):
    K = int(rng.integers(1, 6))
    ob = np.concatenate([[0.0], np.cumsum(rng.random(K - 1) * 10.0 ** rng.integers(-2, 3) + 1e-6)])
    rb = np.concatenate([[0.0], np.cumsum(rng.random(K - 1) * 10.0 ** rng.integers(-2, 3) + 1e-6)])
    n = int(rng.integers(0, 8))
    pe = rng.random(n) * (ob[-1] * 1.5 + 1.0)
    if n and rng.random() < 0.5:
        pe[0] = 0.0
    if n > 1 and K > 1 and rng.random() < 0.5:
        pe[1] = ob[int(rng.integers(0, K))]
    fixed = rng.random(n) < 0.3
    return {"point_estimate": pe.tolist(), "point_fixed": fixed.tolist(), "original_breaks": ob.tolist(),
            "rescaled_breaks": rb.tolist()}


def fixed_changepoints(rng, hint):
    n = int(rng.integers(1, 9))
    c = rng.integers(0, 4, size=n).astype(float)
    if c.sum() == 0:
        c[int(rng.integers(0, n))] = 1.0
    return {"counts": c.tolist(), "epochs": int(rng.integers(1, 7))}


def change_time_measure(rng, hint):
    K = int(rng.integers(1, 6))
    b = np.concatenate([[0.0], np.cumsum(rng.random(K - 1) * 10.0 ** rng.integers(-1, 3) + 1e-3)])
    m = rng.random(K) * 10.0 ** rng.integers(-1, 3) + 1e-3
    t = rng.random(int(rng.integers(0, 6))) * (b[-1] * 1.5 + 1)
    if len(t) and rng.random() < 0.5:
        t[0] = 0.0
    if len(t) > 1 and rng.random() < 0.5:
        t[1] = b[int(rng.integers(0, K))]
    return {"time_ago": np.sort(t).tolist(), "breakpoints": b.tolist(), "time_measure": m.tolist()}


def relabel_mutations(rng, hint):
    n_orig = int(rng.integers(2, 6))
    extra = int(rng.integers(0, 3))
    nn = n_orig + extra
    order = list(range(n_orig)) + [int(rng.integers(0, n_orig)) for _ in range(extra)]
    ne = int(rng.integers(0, 6))
    left = np.sort(rng.integers(0, 5, size=ne)).astype(float)
    right = left + rng.integers(1, 4, size=ne)
    par = rng.integers(0, nn, size=ne)
    chi = rng.integers(0, nn, size=ne)
    ins = np.argsort(left, kind="stable")
    rem = np.argsort(right, kind="stable")
    nm = int(rng.integers(0, 6))
    pos = np.sort(rng.random(nm) * 9.0)
    mn = rng.integers(0, n_orig, size=nm)
    return {"mutations_node": mn.tolist(), "mutations_position": pos.tolist(), "nodes_order": order,
            "edges_parent": par.tolist(), "edges_child": chi.tolist(), "edges_left": left.tolist(),
            "edges_right": right.tolist(), "insert_index": ins.tolist(), "remove_index": rem.tolist()}


def gamma_mom(rng, hint):
    # shapes in [1e-3, 1e6]: far smaller shapes make `shape - 1` (the returned natural parameter) cancel in
    # floating point, which the real-arithmetic contract does not model
    mean = float(rng.random() * 10.0 ** rng.integers(-6, 7) + 1e-300)
    shape = float(10.0 ** (rng.random() * 9 - 3))
    return {"mean": mean, "variance": mean * mean / shape}


GENS = {"gamma_mom": gamma_mom, "relabel_mutations": relabel_mutations, "change_time_measure": change_time_measure, "fixed_changepoints": fixed_changepoints, "piecewise_point": piecewise_point, "reallocate_unphased": reallocate_unphased, "constrain_ages": constrain_ages, "damp": damp, "rescale": rescale}


def main():
    req = json.load(open(sys.argv[1]))
    rng = np.random.default_rng(int(req.get("seed", 0)) + 12345)
    g = GENS[req["gen"]]
    cases = [g(rng, req.get("hint") or {}) for _ in range(int(req.get("n", 100)))]
    print(json.dumps({"cases": cases}))


if __name__ == "__main__":
    main()
