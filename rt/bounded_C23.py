"""
Bounded stand-in for C23 -- rescaling credits each unphased singleton to its two candidate branches by
phase probability.

The REAL `tsdate.variational.ExpectationPropagation` is built with `singletons_phased=False` and `infer()` is
run with rescaling switched on (directly, exactly as `VariationalGammaMethod.run` does, and through the public
`tsdate.date(..., return_fit=True)` for every fourth input).  The state named by the property
(`fit.edge_likelihoods` / `fit.sizebiased_likelihoods`, `fit.mutation_phase`, `fit.mutation_edges`,
`fit.mutation_nodes`) is then compared with a specification written from the statement.  The oracle shares no
code with tsdate: the two candidate branches of a singleton are the edge-table rows above the two nodes of its
individual at the site position, counts are a direct tally (one per mutation on the edge above its node;
frequency weights = samples below the node in the local `tskit.Tree`), and the "fitted probability of lying
on a branch" is recomputed by quadrature from the fitted node posteriors.

Contract clauses evaluated (each is one obligation)
  singleton-adds-exactly-one-in-total      for every connected group of candidate branches (branches linked by
                                           sharing a singleton) the counts used by rescaling sum to the number
                                           of unphased singletons on them
  split-by-phase-placed-branch-gets-larger-share
                                           every candidate branch k holds  sum_m share(m, k)  with
                                           share(m, branch m is finally placed on) = phase[m] >= 1/2 and
                                           share(m, the other branch) = 1 - phase[m]; the placed branch
                                           (`mutation_edges[m]`) is one of the two candidates and
                                           `mutation_nodes[m]` is its child
  placed-branch-is-the-more-probable-one   independent orientation check, evaluated on the runs with >= 4 EP
                                           iterations: with q the fitted (pre-rescaling) gamma posteriors of the
                                           two parents, P = E_q[t_a / (t_a + t_b)] (tensor quantile quadrature);
                                           the share credited to candidate branch a differs from P by less than
                                           0.05, and whenever |P - 1/2| > 0.05 the branch the mutation is placed
                                           on is the one with P > 1/2
  rescaling-leaves-phase-and-placement-alone
                                           phases and placed branches equal those of the same inference run with
                                           rescaling switched off (so the shares are the FITTED probabilities)
  other-branches-unchanged                 counts on every branch that is not a candidate branch equal the direct
                                           tally; the span column (span x mutation rate) of every branch is the
                                           one held before inference
  unused-weighting-untouched               the tally array NOT selected by the rescaling setting equals its
                                           pre-inference value bit for bit
  rescaling-step-completes                 `infer()` raised nothing except the documented F7 assertion
                                           ("Use fewer rescaling intervals", which fires after the reallocation
                                           and is C25/C35's business; the counts are still evaluated)

Input space and bound
  quick    : 90 inputs carved from recombining msprime simulations (30 diploid individuals, length 4000,
             re-simulated every 150 inputs): a window of length 1 / 40 / 100 / 250 simplified down to 2..4
             random diploid contemporary individuals (4..8 sample nodes, 1..~12 trees), ~15..60 fresh
             infinite-sites mutations; optionally one individual stripped of its individual record (its
             singletons are then phased), optionally one internal node collapsed into a polytomy; settings drawn
             from rescale_intervals {1, 2, 5}, rescale_iterations {1, 3}, ep_iterations {1, 4, 12}, mutation rate
             {1/3, 1, 3} x the simulated rate.  Every input is run with BOTH rescaling targets (segregating
             sites / path length), i.e. 180 cases; every 4th input goes through tsdate.date(return_fit=True).
  thorough : 2500 such inputs (5000 cases), 2..6 individuals.
  Not exhaustive (random, seeded by req["seed"]).

Tolerances
  Counts on non-candidate branches and the untouched array: exact equality.
  Candidate branches: the code and the oracle add the same <= N terms of [0, 1] in possibly different order and
  the code computes `1 - (1 - p)` for flipped phases (one extra rounding each): |difference| <= 4 N 2**-53;
  checked with rtol 1e-9, atol 1e-9 (algebraically identical computation).
  Orientation check: the quadrature integrates the fitted posteriors of the two parent nodes, the code
  integrates the cavity-tilted distribution of the block; the two coincide only at an EP fixed point.  The clause
  is therefore evaluated only on runs with >= 4 EP iterations (after a single iteration the fit is not yet
  self-consistent and the oracle, not the code, is off by up to 0.12), where the largest difference observed is
  0.012 (quick) / 0.025 (thorough, 71375 singletons; the value of each run is in `notes`); it asserts agreement to
  0.05 and orientation when the oracle is more than 0.05 away from 1/2.  This is a statement about the oracle's domain, not a relaxation for any input:
  the exact clauses above are evaluated for every iteration count.

NOT covered
  Missing data (a node of an unphased individual isolated somewhere: outside `_block_singletons`' precondition,
  exercised in bounded_C24), NaN phase probabilities (none arises in this space; the closing assert of
  `reallocate_unphased` presupposes there are none), numba-compiled kernels, large inputs, the effect of the
  re-allocated counts on the rescaled times (C25).
"""
import msprime
import numpy as np
import tskit
from scipy import stats

from rt import bounded_api

NULL = tskit.NULL
F7_MESSAGE = "Use fewer rescaling intervals"
CONVERGED_ITERATIONS = 4  # the quadrature oracle presupposes a (nearly) self-consistent fit, see docstring


# ---------------------------------------------------------------------------------------- inputs
def finish(tables):
    tables.mutations.time = np.full(tables.mutations.num_rows, tskit.UNKNOWN_TIME)
    tables.sort()
    tables.build_index()
    tables.compute_mutation_parents()
    return tables.tree_sequence()


class Pool:
    """
    Source of small diploid inputs.  One msprime ancestry simulation costs ~0.4 s of set-up however small it
    is, so a larger one (30 diploid contemporary individuals, recombining) is simulated now and then and small
    inputs are carved out of it: a random window simplified down to a random subset of individuals, mutated
    afresh at a rate giving the requested expected number of mutations.
    """

    def __init__(self, rng, length=4000, refresh=150):
        self.rng, self.length, self.refresh, self.served, self.big = rng, length, refresh, 0, None

    def draw(self, n_ind, width, muts):
        """(ts, mutation rate used to place the mutations)."""
        rng = self.rng
        if self.big is None or self.served % self.refresh == 0:
            self.big = msprime.sim_ancestry(30, ploidy=2, sequence_length=self.length, population_size=50,
                                            recombination_rate=float(rng.choice([5e-5, 1.5e-4])),
                                            random_seed=int(rng.integers(1, 2 ** 31 - 2)))
        self.served += 1
        nodes = []
        for i in rng.choice(30, size=n_ind, replace=False):
            nodes.extend(int(u) for u in self.big.individual(int(i)).nodes)
        a = float(rng.integers(0, self.length - width + 1))
        ts = self.big.keep_intervals([[a, a + width]], simplify=False).trim().simplify(nodes)
        area = float(np.sum((ts.edges_right - ts.edges_left) *
                            (ts.nodes_time[ts.edges_parent] - ts.nodes_time[ts.edges_child])))
        mu = muts / area
        ts = msprime.sim_mutations(ts, rate=mu, random_seed=int(rng.integers(1, 2 ** 31 - 2)), discrete_genome=False)
        return finish(ts.dump_tables()), mu


def strip_individual(ts, rng):
    """One individual is deleted: its two nodes have no individual, so their singletons are ordinary phased
    mutations."""
    gone = int(rng.integers(0, ts.num_individuals))
    tables = ts.dump_tables()
    rows = [r for r in tables.individuals]
    tables.individuals.clear()
    for j, r in enumerate(rows):
        if j != gone:
            tables.individuals.append(r)
    ind = tables.nodes.individual.copy()
    ind[ind == gone] = NULL
    ind[ind > gone] -= 1
    tables.nodes.individual = ind
    return finish(tables)


def collapse_node(ts, rng):
    """Remove one internal node that has a parent over all of its span (creates a polytomy); its mutations go."""
    cands = []
    for u in np.unique(ts.edges_parent):
        below = ts.edges_parent == u
        above = ts.edges_child == u
        if not above.any():
            continue
        lo, hi = ts.edges_left[below].min(), ts.edges_right[below].max()
        cover = sorted(zip(ts.edges_left[above], ts.edges_right[above]))
        if cover[0][0] <= lo and cover[-1][1] >= hi and all(a[1] == b[0] for a, b in zip(cover, cover[1:])):
            cands.append(int(u))
    if not cands:
        return ts
    u = int(rng.choice(cands))
    tables = ts.dump_tables()
    edges = tables.edges.copy()
    tables.edges.clear()
    up = [e for e in edges if e.child == u]
    for e in edges:
        if e.child == u:
            continue
        if e.parent != u:
            tables.edges.add_row(e.left, e.right, e.parent, e.child)
            continue
        for f in up:
            lo, hi = max(e.left, f.left), min(e.right, f.right)
            if lo < hi:
                tables.edges.add_row(lo, hi, f.parent, e.child)
    keep = tables.mutations.node != u
    tables.mutations.keep_rows(keep)
    tables.sort()
    tables.edges.squash()
    tables.sort()
    tables.simplify(filter_individuals=False, filter_populations=False, filter_sites=False)
    return finish(tables)


# ---------------------------------------------------------------------------------------- oracles
def edge_above(ts, node, x):
    hits = np.flatnonzero((ts.edges_child == node) & (ts.edges_left <= x) & (x < ts.edges_right))
    assert hits.size <= 1
    return int(hits[0]) if hits.size else NULL


def direct_tally(ts, weighted):
    """Per-edge mutation count: one per mutation (or the number of samples below its node in the local tree)."""
    counts = np.zeros(ts.num_edges)
    pos = ts.sites_position[ts.mutations_site]
    tree = tskit.Tree(ts)
    is_sample = np.zeros(ts.num_nodes, dtype=bool)
    is_sample[ts.samples()] = True
    for m in range(ts.num_mutations):
        node = int(ts.mutations_node[m])
        e = edge_above(ts, node, pos[m])
        if e == NULL:
            continue
        if weighted:
            tree.seek(pos[m])
            counts[e] += sum(1 for v in tree.nodes(node) if is_sample[v])
        else:
            counts[e] += 1
    return counts


def candidate_branches(ts):
    """{mutation: (edge above node A, edge above node B)} for every mutation on a node of a diploid contemporary
    individual, (A, B) being the individual's two nodes; mutations elsewhere are absent."""
    out = {}
    pos = ts.sites_position[ts.mutations_site]
    for m in range(ts.num_mutations):
        node = int(ts.mutations_node[m])
        i = int(ts.nodes_individual[node])
        if i == NULL:
            continue
        a, b = (int(x) for x in ts.individual(i).nodes)
        out[m] = (edge_above(ts, a, pos[m]), edge_above(ts, b, pos[m]))
    return out


def groups_of(cands):
    """Connected groups of candidate branches (two branches are linked when one singleton has both)."""
    parent = {}

    def find(x):
        while parent.setdefault(x, x) != x:
            parent[x] = parent[parent[x]]
            x = parent[x]
        return x

    for a, b in cands.values():
        parent[find(a)] = find(b)
    groups = {}
    for e in parent:
        groups.setdefault(find(e), set()).add(e)
    return list(groups.values())


QUANTILES = (np.arange(300) + 0.5) / 300


def branch_probability(post_a, post_b):
    """E[t_a / (t_a + t_b)] for independent gammas given by natural parameters (shape - 1, rate)."""
    x = stats.gamma(post_a[0] + 1, scale=1 / post_a[1]).ppf(QUANTILES)
    y = stats.gamma(post_b[0] + 1, scale=1 / post_b[1]).ppf(QUANTILES)
    return float(np.mean(x[:, None] / (x[:, None] + y[None, :])))


# ---------------------------------------------------------------------------------------- one input, one setting
def unrescaled_reference(ts, mu, ep_iter, EP):
    """(tallies held before inference, the same inference run WITHOUT rescaling, probability cache)."""
    before = EP(ts, mutation_rate=mu, singletons_phased=False)
    pre = (before.edge_likelihoods.copy(), before.sizebiased_likelihoods.copy())
    before.infer(ep_iterations=ep_iter, max_shape=1000, rescale_intervals=0, rescale_iterations=0, regularise=True,
                 rescale_segsites=False)
    return pre, before, {}


def evaluate(rep, key, desc, ts, mu, setting, EP, date, reference):
    seg, intervals, iterations, ep_iter, via_date = setting
    inp = {"desc": desc, "ts": bounded_api.ts_to_json(ts), "mutation_rate": mu,
           "setting": {"rescale_segsites": seg, "rescale_intervals": intervals, "rescale_iterations": iterations,
                       "ep_iterations": ep_iter, "via_tsdate_date": via_date}}
    cands = candidate_branches(ts)
    if any(NULL in c for c in cands.values()):
        return  # missing data: not in this module's space
    pre, before, cache = reference
    # --- the run under test
    raised = None
    if via_date:
        try:
            _, fit = date(ts, mutation_rate=mu, method="variational_gamma", singletons_phased=False,
                          max_iterations=ep_iter, rescaling_intervals=intervals, rescaling_iterations=iterations,
                          match_segregating_sites=seg, return_fit=True)
        except AssertionError as exc:
            if F7_MESSAGE in str(exc):
                return  # F7: the fit object is lost, nothing to observe through the public call
            rep.case("rescaling-step-completes", False, key=key, input=inp, observed=f"AssertionError: {exc}",
                     expected="no exception")
            return
    else:
        fit = EP(ts, mutation_rate=mu, singletons_phased=False)
        try:
            fit.infer(ep_iterations=ep_iter, max_shape=1000, rescale_intervals=intervals,
                      rescale_iterations=iterations, regularise=True, rescale_segsites=seg)
        except Exception as exc:
            raised = f"{type(exc).__name__}: {exc}"
    ok = raised is None or (raised.startswith("AssertionError") and F7_MESSAGE in raised)
    rep.case("rescaling-step-completes", ok, key=key, input=inp, observed=raised, expected="no exception (or F7)",
             nontrivial=False)
    if not ok:
        return
    inp["infer_raised"] = raised

    used, unused = (fit.edge_likelihoods, fit.sizebiased_likelihoods) if seg else \
        (fit.sizebiased_likelihoods, fit.edge_likelihoods)
    used_pre, unused_pre = (pre[0], pre[1]) if seg else (pre[1], pre[0])
    tally = direct_tally(ts, weighted=not seg)
    cand_edges = sorted(set(e for c in cands.values() for e in c))
    is_cand = np.zeros(ts.num_edges, dtype=bool)
    is_cand[cand_edges] = True
    phase = fit.mutation_phase
    placed = fit.mutation_edges

    # clause: exactly one mutation in total per singleton
    ok, obs, exp = True, [], []
    for group in groups_of(cands):
        members = sorted(group)
        n_single = sum(1 for m, c in cands.items() if c[0] in group)
        total = float(np.sum(used[members, 0]))
        obs.append(total)
        exp.append(n_single)
        ok = ok and bool(np.isclose(total, n_single, rtol=1e-9, atol=1e-9))
    rep.case("singleton-adds-exactly-one-in-total", ok, key=key, input=inp, observed=obs, expected=exp,
             nontrivial=len(cands) > 0)

    # clause: split by phase, larger share to the branch the mutation is placed on
    expected = np.zeros(ts.num_edges)
    ok = True
    why = []
    for m, (ea, eb) in cands.items():
        p = float(phase[m])
        if not (0.5 <= p <= 1.0):
            ok = False
            why.append(f"phase[{m}]={p}")
            continue
        if placed[m] not in (ea, eb):
            ok = False
            why.append(f"mutation {m} placed on edge {placed[m]}, candidates {(ea, eb)}")
            continue
        if fit.mutation_nodes[m] != ts.edges_child[placed[m]]:
            ok = False
            why.append(f"mutation {m}: node {fit.mutation_nodes[m]} is not the child of edge {placed[m]}")
        other = eb if placed[m] == ea else ea
        expected[placed[m]] += p
        expected[other] += 1 - p
    ok = ok and bool(np.allclose(used[cand_edges, 0], expected[cand_edges], rtol=1e-9, atol=1e-9))
    rep.case("split-by-phase-placed-branch-gets-larger-share", ok, key=key, input=inp,
             observed={"counts": used[cand_edges, 0], "edges": cand_edges, "phase": {m: phase[m] for m in cands},
                       "placed": {m: placed[m] for m in cands}, "problems": why},
             expected={"counts": expected[cand_edges]}, nontrivial=len(cands) > 0)

    # clause: independent orientation (fitted posteriors of the un-rescaled run; phases are not touched by rescaling)
    ok, worst, why = True, 0.0, []
    same_phase = np.array_equal(before.mutation_phase, fit.mutation_phase, equal_nan=True) and \
        np.array_equal(before.mutation_edges, fit.mutation_edges)
    for m, (ea, eb) in cands.items():
        pa, pb = int(ts.edges_parent[ea]), int(ts.edges_parent[eb])
        if pa == pb:
            prob_a = 0.5
        else:
            if (pa, pb) not in cache:
                cache[pa, pb] = branch_probability(before.node_posterior[pa], before.node_posterior[pb])
            prob_a = cache[pa, pb]
        share_a = float(phase[m]) if placed[m] == ea else 1 - float(phase[m])
        worst = max(worst, abs(share_a - prob_a))
        if abs(share_a - prob_a) >= 0.05:
            ok = False
            why.append(f"mutation {m}: share on edge {ea} is {share_a}, fitted probability {prob_a}")
        if abs(prob_a - 0.5) > 0.05 and (placed[m] == ea) != (prob_a > 0.5):
            ok = False
            why.append(f"mutation {m}: placed on edge {placed[m]} but fitted probability of edge {ea} is {prob_a}")
    rep.case("rescaling-leaves-phase-and-placement-alone", same_phase, key=key, input=inp,
             observed={"phase": fit.mutation_phase, "edges": fit.mutation_edges},
             expected={"phase": before.mutation_phase, "edges": before.mutation_edges}, nontrivial=len(cands) > 0)
    if ep_iter >= CONVERGED_ITERATIONS:
        rep.case("placed-branch-is-the-more-probable-one", ok, key=key, input=inp,
                 observed={"largest |share - fitted probability|": worst, "problems": why[:5]},
                 expected="agreement within 0.05 and same orientation", nontrivial=len(cands) > 0)
        rep.max_phase_gap = max(getattr(rep, "max_phase_gap", 0.0), worst)
    rep.n_singletons = getattr(rep, "n_singletons", 0) + len(cands)
    rep.n_moved = getattr(rep, "n_moved", 0) + sum(1 for m in cands if fit.mutation_nodes[m] != ts.mutations_node[m])

    # clause: everything else is unchanged
    ok = (np.array_equal(used[~is_cand, 0], tally[~is_cand]) and np.array_equal(used[:, 1], used_pre[:, 1])
          and np.array_equal(used_pre[:, 0], tally))
    rep.case("other-branches-unchanged", ok, key=key, input=inp,
             observed={"counts": used[:, 0], "span_column_changed": np.flatnonzero(used[:, 1] != used_pre[:, 1])},
             expected={"counts off candidate branches": tally, "candidate": cand_edges})
    rep.case("unused-weighting-untouched", np.array_equal(unused, unused_pre), key=key, input=inp,
             observed=unused, expected=unused_pre, nontrivial=False)


def run(req, rep):
    tier, seed = req["tier"], int(req["seed"])
    rng = np.random.default_rng(seed)
    import tsdate
    from tsdate.variational import ExpectationPropagation

    thorough = tier == "thorough"
    count, max_ind = (2500, 6) if thorough else (90, 4)
    rep.space = ("msprime simulations of diploid contemporary individuals (sequence length 100, infinite sites), "
                 "optionally one individual without individual record and one collapsed internal node, each run with "
                 "singletons_phased=False under both rescaling targets (segregating sites, path length) and random "
                 "rescale_intervals {1,2,5}, rescale_iterations {1,3}, ep_iterations {1,4,12}, mutation-rate "
                 "factor {1/3,1,3}; every 4th input through tsdate.date(return_fit=True)")
    rep.bound = f"{count} simulations with 2..{max_ind} individuals (4..{2 * max_ind} sample nodes), seed {seed}"
    rep.exhaustive = False

    pool = Pool(rng)
    for i in range(count):
        n_ind = int(rng.integers(2, max_ind + 1))
        ts, mu = pool.draw(n_ind, width=int(rng.choice([1, 40, 100, 250])), muts=float(rng.choice([15, 35, 60])))
        applied = []
        if rng.random() < 0.3:
            ts = strip_individual(ts, rng)
            applied.append("strip_individual")
        if rng.random() < 0.3:
            ts = collapse_node(ts, rng)
            applied.append("collapse_node")
        if ts.num_mutations == 0:
            continue
        mu_used = mu * float(rng.choice([1 / 3, 1.0, 3.0]))
        intervals, iterations = int(rng.choice([1, 2, 5])), int(rng.choice([1, 3]))
        ep_iter = int(rng.choice([1, 4, 12]))
        desc = {"sim": i, "individuals": n_ind, "transforms": applied}
        try:
            reference = unrescaled_reference(ts, mu_used, ep_iter, ExpectationPropagation)
        except Exception as e:  # noqa: BLE001
            # the EP fit BEFORE the rescaling step failed (e.g. `assert penalty > 0` in propagate_prior, a recorded
            # finding of C05/C35): the step C23 speaks about is never reached on this input -- skipped and counted
            rep.skipped_before_rescaling = getattr(rep, "skipped_before_rescaling", 0) + 1
            rep.notes.append(f"input sim{i} skipped: the EP fit before rescaling raised {type(e).__name__} "
                             f"(mutation-rate factor {mu_used / mu:.3g}); C23 is about the rescaling step")
            continue
        for seg in (False, True):
            setting = (seg, intervals, iterations, ep_iter, i % 4 == 3)
            evaluate(rep, f"sim{i}/segsites-{seg}", desc, ts, mu_used, setting, ExpectationPropagation, tsdate.date,
                     reference)
    rep.notes.append(f"largest |credited share - independently integrated branch probability| = "
                     f"{getattr(rep, 'max_phase_gap', 0.0):.4f}")
    rep.notes.append(f"{getattr(rep, 'n_singletons', 0)} unphased singletons evaluated, "
                     f"{getattr(rep, 'n_moved', 0)} of them finally placed on the individual's other node")


if __name__ == "__main__":
    bounded_api.main(run)
