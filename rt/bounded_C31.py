"""
Bounded stand-in (G4) for C31 -- "Site-time estimates follow their documented definition".

The REAL tsdate.util.sites_time_from_ts / nodes_time_unconstrained / add_sampledata_times are called;
the expected values are computed in this module from the property statement, directly on the *tables*
(edge rows, mutation rows, raw node-metadata bytes, SampleData genotype matrix): no tskit.Tree walk, no
tsdate code and no tsinfer helper is used on the oracle side.

Definition evaluated (oracle `spec_sites_time`)
-----------------------------------------------
  age(u)            = node-table time of u                      (unconstrained=False, or u is a sample)
                    = json(node metadata of u)["mn"]             (unconstrained=True and u is not a sample)
  parent(m)         = parent of the edge (left <= pos(site(m)) < right, child = node(m)), NULL if none
  summary(m)        = age(node)                         if node_selection == "child" or parent is NULL
                    = age(parent) | (age(node)+age(parent))/2 | sqrt(age(node)*age(parent))   otherwise
  pure(site)        = max over the site's mutations of summary(m);  NaN if the site has no mutation
  site_time(site)   = max(pure(site), min_time)   (NaN stays NaN)
  add_sampledata_times(sd, est)[j] = max(est[j], max{time(ind(s)) : time(ind(s)) != 0, genotype[j,s] > 0} or 0)

Contract clauses (one obligation each)
--------------------------------------
site-time-is-max-over-mutations-of-node-summary   min_time = -1 (clamp inactive): every site with
                                                  mutations equals pure(site), for all 4 node_selection
mutation-above-root-uses-child-age                the same, restricted to inputs/sites where some mutation
                                                  sits above a root (or on a node absent from the tree),
                                                  for parent / arithmetic / geometric
raised-to-at-least-min-time                       for min_time in {0, 1e-6, 1 (default), 2.5, 1e3}: result ==
                                                  max(pure, min_time) on sites with mutations
sites-without-mutations-are-nan                   NaN exactly on the sites without mutations (all configs)
unconstrained-uses-mn-for-nonsamples-and-node-time-for-samples
                                                  unconstrained=True equals the definition with age() read
                                                  from the raw "mn" metadata for non-samples (sample nodes
                                                  carry a decoy "mn" that must be ignored); default arguments
                                                  (unconstrained=True, child, min_time=1) checked as well;
                                                  nodes_time_unconstrained returns exactly that age vector
add-sampledata-times-is-max-of-estimate-and-oldest-historical-carrier
                                                  returned copy has sites_time == the formula above; the
                                                  input SampleData is unchanged; genotypes/positions/
                                                  individual times of the copy equal the input's
known-unconstrained-without-mn-raises-ValueError  docstring/DESIGN contract "ValueError otherwise" for an
                                                  undated input with unconstrained=True.  FAILS on the unchanged
                                                  code: `e.args += "Try calling ..."` adds a str to a tuple and
                                                  raises TypeError instead.  Not part of the statement proper,
                                                  kept in its own clause.

Input space and bounds
----------------------
quick (~20-30 s with NUMBA_DISABLE_JIT=1; 89 dated inputs x 48 configurations + 60 SampleData sets):
  T  EXHAUSTIVE single trees: all 31 rooted leaf-labelled shapes with 2..4 leaves incl. polytomies
     (rt.inputs.all_tree_shapes); per shape 2 seeded time assignments (one with historical leaves);
     sites = {no mutation} + {one mutation above each node, root included} + {every unordered pair of
     nodes} + 2 triple-mutation sites  -> up to 31 sites per tree (7 nodes).
  M  24 multi-tree inputs: msprime simulations (3..6 samples, 2..20 trees, discrete genome with recurrent
     mutations, so several mutations per site) + added mutation-free sites + added mutations above local
     roots and on nodes absent from the local tree; some with historical samples.
  each input x node_selection (4) x min_time (6) x unconstrained (False; True with forged "mn" metadata that
  does NOT respect the topology).
  R  3 inputs really dated by tsdate.date (2 inside_outside, 1 variational_gamma) x all configurations.
  S  60 seeded SampleData sets (2..6 individuals, ploidy 1/2, 0..3 historical individuals, 1..8 sites,
     bi/tri-allelic genotypes with missing data) x 2 estimate vectors (finite; with NaN where no
     historical carrier).
  U  4 undated inputs for the known- clause.
thorough (~3-5 min): all 267 shapes with 2..5 leaves x 4 time assignments (1068 inputs), 200 simulations,
  600 SampleData sets.

Tolerances: rtol = 1e-12, atol = 0 for site times -- the oracle performs the same IEEE operations
((a+b)/2, sqrt(a*b), max) on the same doubles, so results are expected bit-identical; 1e-12 only absorbs a
possible 1-ulp difference between math.sqrt and np.sqrt.  add_sampledata_times: exact equality.

NOT covered: NaN estimates at sites that DO have a historical carrier (inconsistent input: np.maximum
returns NaN there); negative or NaN node ages; inputs beyond the sizes above; tsinfer's own storage layer.
"""
import itertools
import json
import math
import warnings

import numpy as np
import tskit

from tsdate.util import add_sampledata_times, nodes_time_unconstrained, sites_time_from_ts

from rt import bounded_api, inputs

SELECTIONS = ("child", "parent", "arithmetic", "geometric")
MIN_TIMES = (0.0, 1e-6, 1.0, 2.5, 1e3)
RTOL = 1e-12


# ------------------------------------------------------------------------------ oracle (tables only)
def spec_ages(ts, unconstrained):
    """age(u) per the statement, from the node table and the RAW metadata bytes."""
    ages = [float(t) for t in ts.nodes_time]
    if unconstrained:
        tab = ts.tables.nodes
        off = tab.metadata_offset
        raw = tab.metadata.tobytes()
        for u in range(ts.num_nodes):
            if not (tab.flags[u] & tskit.NODE_IS_SAMPLE):
                ages[u] = float(json.loads(raw[off[u]:off[u + 1]].decode())["mn"])
    return ages


def spec_sites_time(ts, ages, node_selection, min_time):
    """(site_time, pure, touches_root) per site, computed from edge and mutation rows only."""
    edges = list(zip(ts.edges_left.tolist(), ts.edges_right.tolist(), ts.edges_parent.tolist(), ts.edges_child.tolist()))
    by_child = {}
    for l, r, p, c in edges:
        by_child.setdefault(c, []).append((l, r, p))
    pos = ts.sites_position.tolist()
    pure = [math.nan] * ts.num_sites
    rooty = [False] * ts.num_sites
    for site, node in zip(ts.mutations_site.tolist(), ts.mutations_node.tolist()):
        x = pos[site]
        parent = tskit.NULL
        for l, r, p in by_child.get(node, ()):
            if l <= x < r:
                parent = p
        a = ages[node]
        if parent == tskit.NULL:
            rooty[site] = True
            s = a
        elif node_selection == "child":
            s = a
        elif node_selection == "parent":
            s = ages[parent]
        elif node_selection == "arithmetic":
            s = (a + ages[parent]) / 2
        else:
            s = math.sqrt(a * ages[parent])
        if math.isnan(pure[site]) or s > pure[site]:
            pure[site] = s
    final = [p if math.isnan(p) else max(p, min_time) for p in pure]
    return final, pure, rooty


def same(a, b):
    """NaN-aware comparison with the module tolerance."""
    if math.isnan(a) or math.isnan(b):
        return math.isnan(a) and math.isnan(b)
    return abs(a - b) <= RTOL * max(abs(a), abs(b))


def first_diff(obs, exp, idx):
    for j in idx:
        if not same(float(obs[j]), float(exp[j])):
            return {"site": j, "observed": float(obs[j]), "expected": float(exp[j])}
    return None


# ------------------------------------------------------------------------------ input builders
def shape_nodes(shape):
    """Post-order list of (node_id, children ids) for a nested-tuple shape; leaves are 0..n-1."""
    n = len(inputs.leaves_of(shape))
    counter = [n]
    internal = []

    def build(t):
        if isinstance(t, int):
            return t
        kids = [build(c) for c in t]
        u = counter[0]
        counter[0] += 1
        internal.append((u, kids))
        return u

    root = build(shape)
    return n, internal, root


def single_tree_ts(shape, rng, historical):
    """One tree on [0, 100); random node times respecting the topology; the site catalogue of family T."""
    n, internal, root = shape_nodes(shape)
    N = n + len(internal)
    times = np.zeros(N)
    if historical:
        for u in range(n):
            if rng.random() < 0.5:
                times[u] = float(rng.choice([0.25, 3.0, 7.5]))
    for u, kids in internal:
        times[u] = max(times[k] for k in kids) + float(rng.choice([0.125, 1.0, 2.75, 10.0]))
    tables = tskit.TableCollection(100.0)
    for u in range(N):
        tables.nodes.add_row(flags=tskit.NODE_IS_SAMPLE if u < n else 0, time=times[u])
    for u, kids in internal:
        for k in kids:
            tables.edges.add_row(0, 100, u, k)
    combos = [()] + [(u,) for u in range(N)] + list(itertools.combinations(range(N), 2))
    combos += [tuple(sorted(rng.choice(N, size=min(3, N), replace=False).tolist())) for _ in range(2)]
    for k, nodes in enumerate(combos):
        s = tables.sites.add_row(position=(k + 0.5) * 100.0 / len(combos), ancestral_state="0")
        for u in sorted(nodes, key=lambda u: -times[u]):
            tables.mutations.add_row(site=s, node=u, derived_state="1")
    tables.sort()
    tables.build_index()
    tables.compute_mutation_parents()
    return tables.tree_sequence()


def multi_tree_ts(i, seed, rng):
    """Family M: simulation + mutation-free sites + mutations above roots / on absent nodes."""
    import msprime
    n = int(3 + i % 4)
    if i % 3 == 2:
        samples = [msprime.SampleSet(n - 1, time=0, ploidy=1), msprime.SampleSet(2, time=float(5 + i), ploidy=1)]
    else:
        samples = [msprime.SampleSet(n, time=0, ploidy=1 + (i % 2))]
    ts = msprime.sim_ancestry(samples, sequence_length=60, recombination_rate=[0, 2e-3, 5e-3][i % 3],
                              population_size=50, random_seed=seed * 7919 + i + 1)
    ts = msprime.sim_mutations(ts, rate=[2e-3, 8e-3][i % 2], random_seed=seed * 7919 + i + 5)
    tables = ts.dump_tables()
    tables.mutations.time = np.full(tables.mutations.num_rows, tskit.UNKNOWN_TIME)
    used = set(tables.sites.position.tolist())
    free = [x for x in range(60) if float(x) not in used]
    picks = rng.choice(free, size=min(6, len(free)), replace=False).tolist() if free else []
    for j, x in enumerate(picks):
        s = tables.sites.add_row(position=float(x), ancestral_state="A")
        if j % 3 == 0:
            continue                                   # mutation-free site
        tree = ts.at(float(x))
        if j % 3 == 1:                                 # above a local root (+ one below it)
            tables.mutations.add_row(site=s, node=tree.root if tree.num_roots == 1 else tree.roots[0], derived_state="T")
            tables.mutations.add_row(site=s, node=int(rng.integers(0, ts.num_samples)), derived_state="G")
        else:                                          # on a node that may be absent from this tree
            u = int(rng.integers(ts.num_samples, ts.num_nodes))
            tables.mutations.add_row(site=s, node=u, derived_state="T")
    tables.sort()
    tables.build_index()
    tables.compute_mutation_parents()
    return tables.tree_sequence()


def forge_mn(ts, rng):
    """JSON node metadata {"mn":..,"vr":..}: non-samples get arbitrary positive means (topology NOT
    respected), samples get a decoy that must be ignored."""
    tables = ts.dump_tables()
    tables.nodes.metadata_schema = tskit.MetadataSchema.permissive_json()
    md = []
    for u in range(ts.num_nodes):
        if ts.nodes_flags[u] & tskit.NODE_IS_SAMPLE:
            md.append(json.dumps({"mn": 12345.0 + u, "vr": 1.0}).encode())
        else:
            md.append(json.dumps({"mn": float(rng.random() * 20 + 0.01), "vr": float(rng.random())}).encode())
    tables.nodes.packset_metadata(md)
    return tables.tree_sequence()


# ------------------------------------------------------------------------------ contract evaluation
def check_ts(rep, key, desc, ts, has_mn):
    """All sites_time_from_ts clauses for one input; `has_mn`: node metadata carries "mn"."""
    muts = np.bincount(ts.mutations_site, minlength=ts.num_sites) > 0
    with_m = np.flatnonzero(muts).tolist()
    all_idx = list(range(ts.num_sites))

    def case(clause, ok, cfg, observed=None, expected=None, nontrivial=True):
        d = dict(desc, **cfg)
        if not ok:
            d["ts"] = bounded_api.ts_to_json(ts)
            d["node_metadata"] = [repr(ts.tables.nodes[u].metadata) for u in range(ts.num_nodes)] if has_mn else None
        rep.case(clause, bool(ok), key=f"{key}|{sorted(cfg.items())}", input=d, observed=observed, expected=expected,
                 nontrivial=nontrivial)

    class Raised:
        """Stand-in result when the function under test raised: compares unequal to everything."""
        shape = dtype = None

        def __init__(self, e):
            self.msg = f"{type(e).__name__}: {e}"

        def __len__(self):
            return 0

        def __getitem__(self, j):
            return math.inf   # never equal to an expected (finite or NaN) site time

        def tolist(self):
            return self.msg

    def call(fn, *a, **k):
        try:
            return fn(*a, **k)
        except Exception as e:  # noqa: BLE001  -- reported through the failing clause, not as a module error
            return Raised(e)

    for unconstrained in ((False, True) if has_mn else (False,)):
        try:
            ages = spec_ages(ts, unconstrained)
        except Exception as e:  # noqa: BLE001
            raise RuntimeError(f"oracle could not read mn metadata: {e}") from e
        if unconstrained:
            got_ages = call(nodes_time_unconstrained, ts)
            ok = len(got_ages) == len(ages) and all(same(float(a), b) for a, b in zip(got_ages, ages))
            case("unconstrained-uses-mn-for-nonsamples-and-node-time-for-samples", ok, {"fn": "nodes_time_unconstrained"},
                 observed=None if ok else got_ages.tolist(), expected=None if ok else ages)
            obs = call(sites_time_from_ts, ts)                # documented defaults
            exp, _, _ = spec_sites_time(ts, ages, "child", 1)
            d = first_diff(obs, exp, all_idx) if len(obs) == ts.num_sites else {"result": obs.tolist()}
            case("unconstrained-uses-mn-for-nonsamples-and-node-time-for-samples", d is None,
                 {"fn": "sites_time_from_ts", "args": "defaults"}, observed=d, expected="definition with mn ages")
        for sel in SELECTIONS:
            # clamp inactive
            cfg = {"unconstrained": unconstrained, "node_selection": sel, "min_time": -1.0}
            obs = call(sites_time_from_ts, ts, unconstrained=unconstrained, node_selection=sel, min_time=-1.0)
            exp, pure, rooty = spec_sites_time(ts, ages, sel, -1.0)
            shape_ok = isinstance(obs, np.ndarray) and obs.shape == (ts.num_sites,) and obs.dtype == np.float64
            d = first_diff(obs, exp, with_m) if shape_ok else {"result": obs.tolist() if not isinstance(obs, np.ndarray) else [obs.shape, str(obs.dtype)]}
            clause = ("unconstrained-uses-mn-for-nonsamples-and-node-time-for-samples" if unconstrained
                      else "site-time-is-max-over-mutations-of-node-summary")
            case(clause, d is None, cfg, observed=d, expected="pure(site)", nontrivial=bool(with_m))
            root_sites = [j for j in with_m if rooty[j]]
            if root_sites and sel != "child" and not unconstrained:
                d = first_diff(obs, exp, root_sites)
                case("mutation-above-root-uses-child-age", d is None, cfg, observed=d, expected="child's age above a root")
            nan_ok = shape_ok and all(math.isnan(float(obs[j])) == (not muts[j]) for j in all_idx)
            case("sites-without-mutations-are-nan", nan_ok, cfg,
                 observed=None if nan_ok else obs.tolist(), expected=(~muts).tolist() if not nan_ok else None,
                 nontrivial=bool((~muts).any()))
            for mt in MIN_TIMES:
                cfg = {"unconstrained": unconstrained, "node_selection": sel, "min_time": mt}
                obs = call(sites_time_from_ts, ts, unconstrained=unconstrained, node_selection=sel, min_time=mt)
                exp = [p if math.isnan(p) else max(p, mt) for p in pure]
                d = first_diff(obs, exp, with_m) if isinstance(obs, np.ndarray) and obs.shape == (ts.num_sites,) else {"result": str(obs.tolist())[:200]}
                clause = ("unconstrained-uses-mn-for-nonsamples-and-node-time-for-samples" if unconstrained
                          else "raised-to-at-least-min-time")
                active = any((not math.isnan(p)) and p < mt for p in pure)
                case(clause, d is None, cfg, observed=d, expected="max(pure, min_time)", nontrivial=active)
                nan_ok = all(math.isnan(float(obs[j])) == (not muts[j]) for j in all_idx)
                case("sites-without-mutations-are-nan", nan_ok, cfg, observed=None if nan_ok else obs.tolist(),
                     expected=(~muts).tolist() if not nan_ok else None, nontrivial=bool((~muts).any()))


def check_sampledata(rep, key, rng):
    """One seeded SampleData set, two estimate vectors."""
    import tsinfer
    n_ind = int(rng.integers(2, 7))
    ploidy = [int(rng.integers(1, 3)) for _ in range(n_ind)]
    n_hist = int(rng.integers(0, min(4, n_ind)))
    times = [0.0] * n_ind
    for k in rng.choice(n_ind, size=n_hist, replace=False).tolist():
        times[k] = float(rng.choice([0.5, 3.0, 12.0, 40.0]))
    n_sites = int(rng.integers(1, 9))
    n_samples = sum(ploidy)
    geno = rng.choice([0, 0, 1, 1, 2, -1], size=(n_sites, n_samples)).astype(np.int8)
    with warnings.catch_warnings():
        warnings.simplefilter("ignore")
        sd = tsinfer.SampleData(sequence_length=float(n_sites + 1))
        for p, t in zip(ploidy, times):
            sd.add_individual(ploidy=p, time=t)
        for j in range(n_sites):
            sd.add_site(float(j + 1), geno[j], ["A", "C", "G"])
        sd.finalise()
    sample_time = np.repeat(times, ploidy)
    bound = np.zeros(n_sites)
    for j in range(n_sites):
        carriers = [sample_time[s] for s in range(n_samples) if sample_time[s] != 0 and geno[j, s] > 0]
        bound[j] = max(carriers) if carriers else 0.0
    before = np.array(sd.sites_time[:], copy=True)
    for which in ("finite", "nan-where-no-carrier"):
        est = rng.choice([0.0, 0.75, 2.0, 5.0, 20.0, 100.0], size=n_sites).astype(float)
        if which != "finite":
            est[(bound == 0) & (rng.random(n_sites) < 0.6)] = np.nan
        exp = np.where(np.isnan(est), np.nan, np.maximum(est, bound))
        desc = {"family": "S", "ploidy": ploidy, "individual_times": times, "genotypes": geno.tolist(),
                "estimates": [None if np.isnan(x) else float(x) for x in est]}
        try:
            with warnings.catch_warnings():
                warnings.simplefilter("ignore")
                out = add_sampledata_times(sd, est.copy())
            got = np.array(out.sites_time[:])
            ok = (got.shape == exp.shape and bool(np.all((got == exp) | (np.isnan(got) & np.isnan(exp))))
                  and out is not sd
                  and bool(np.all((np.array(sd.sites_time[:]) == before) | (np.isnan(sd.sites_time[:]) & np.isnan(before))))
                  and np.array_equal(out.sites_genotypes[:], sd.sites_genotypes[:])
                  and np.array_equal(out.sites_position[:], sd.sites_position[:])
                  and np.array_equal(out.individuals_time[:], sd.individuals_time[:])
                  and np.array_equal(out.samples_individual[:], sd.samples_individual[:]))
            obs = got.tolist()
        except Exception as e:  # noqa: BLE001
            ok, obs = False, f"{type(e).__name__}: {e}"
        rep.case("add-sampledata-times-is-max-of-estimate-and-oldest-historical-carrier", ok, key=f"{key}-{which}",
                 input=desc, observed=obs, expected=exp.tolist(), nontrivial=bool((bound > 0).any()))
    # wrong length is rejected (documented ValueError)
    try:
        add_sampledata_times(sd, np.zeros(n_sites + 1))
        ok, obs = False, "no exception"
    except ValueError:
        ok, obs = True, None
    except Exception as e:  # noqa: BLE001
        ok, obs = False, f"{type(e).__name__}: {e}"
    rep.case("add-sampledata-times-is-max-of-estimate-and-oldest-historical-carrier", ok, key=f"{key}-badlen",
             input={"family": "S", "wrong_length": n_sites + 1}, observed=obs, expected="ValueError", nontrivial=False)


def check_undated(rep, key, desc, ts):
    try:
        sites_time_from_ts(ts)    # unconstrained=True by default
        ok, obs = False, "no exception"
    except ValueError as e:
        ok, obs = True, None
        del e
    except Exception as e:  # noqa: BLE001
        ok, obs = False, f"{type(e).__name__}: {e}"
    rep.case("known-unconstrained-without-mn-raises-ValueError", ok, key=key,
             input=dict(desc, ts=bounded_api.ts_to_json(ts)) if not ok else desc, observed=obs, expected="ValueError")


# ------------------------------------------------------------------------------ driver
def run(req, rep):
    tier, seed = req["tier"], int(req["seed"])
    thorough = tier == "thorough"
    rng = np.random.default_rng(seed)
    max_leaves, n_assign, n_sim, n_sd = (5, 4, 200, 600) if thorough else (4, 2, 24, 60)
    rep.space = ("sites_time_from_ts on [T] every rooted leaf-labelled tree shape (polytomies incl.) with 2.."
                 f"{max_leaves} leaves x {n_assign} seeded time assignments, sites = none/each node/each node pair; "
                 f"[M] {n_sim} msprime multi-tree inputs with recurrent mutations, mutation-free sites, mutations above "
                 "roots and on absent nodes; [R] 3 inputs dated by tsdate.date; each x node_selection(4) x "
                 "min_time(-1,0,1e-6,1,2.5,1e3) x unconstrained(False, True with forged/real mn metadata); "
                 f"add_sampledata_times on [S] {n_sd} seeded SampleData sets x 2 estimate vectors; [U] undated inputs")
    rep.exhaustive = False

    nT = 0
    for n in range(2, max_leaves + 1):
        for si, shape in enumerate(inputs.all_tree_shapes(n)):
            for a in range(n_assign):
                ts = single_tree_ts(shape, rng, historical=(a % 2 == 1))
                check_ts(rep, f"T{n}.{si}.{a}", {"family": "T", "shape": repr(shape), "assignment": a, "req_seed": seed},
                         forge_mn(ts, rng), has_mn=True)
                nT += 1

    for i in range(n_sim):
        ts = multi_tree_ts(i, seed, rng)
        if ts.num_sites == 0:
            continue
        check_ts(rep, f"M{i}", {"family": "M", "index": i, "req_seed": seed}, forge_mn(ts, rng), has_mn=True)

    # really dated inputs (metadata written by tsdate itself)
    import tsdate
    with warnings.catch_warnings():
        warnings.simplefilter("ignore")
        for i, method in enumerate(("inside_outside", "inside_outside", "variational_gamma")):
            base = inputs.sim(seed * 10 + i, n=4 + i % 2, L=2e3, rec=1e-3, mu=1e-3)
            kw = {"population_size": 100} if method == "inside_outside" else {}
            dated = tsdate.date(base, method=method, mutation_rate=1e-3, progress=False, **kw)
            check_ts(rep, f"R{i}", {"family": "R", "method": method, "index": i, "req_seed": seed}, dated, has_mn=True)
    check_undated(rep, "U-sim", {"family": "U", "what": "undated simulation"}, inputs.sim(seed, n=3, L=100, rec=0, mu=1e-2))

    for i in range(n_sd):
        check_sampledata(rep, f"S{i}", rng)

    # undated inputs: no metadata / JSON without mn / not JSON
    for name, md in (("no-metadata", b""), ("json-without-mn", b'{"x": 1}'), ("not-json", b"abc")):
        ts = single_tree_ts(((0, 1), 2), rng, historical=False)
        tables = ts.dump_tables()
        tables.nodes.packset_metadata([md] * ts.num_nodes)
        check_undated(rep, f"U-{name}", {"family": "U", "node_metadata": repr(md)}, tables.tree_sequence())

    rep.bound = (f"T: {nT} single-tree inputs (<= {max_leaves} leaves, all shapes, 1 + N + N(N-1)/2 + 2 sites for N nodes); M: {n_sim} simulations "
                 f"(<= 7 samples, L=60); R: 3 dated; 48 configurations per input; S: {n_sd} SampleData sets (<= 6 individuals, "
                 "<= 8 sites); U: 4 undated inputs")
    rep.notes.append("family T enumerates all tree shapes and all 0/1/2-mutation sites exhaustively; node times are seeded draws")


if __name__ == "__main__":
    bounded_api.main(run)
