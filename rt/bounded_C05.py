"""
Bounded stand-in (G4) for C05 -- "Variational posteriors are proper, precision-capped gamma distributions".

Level: exploration (bounded), never proof.  The REAL `tsdate.variational_gamma` is run with return_fit=True and
the contract is evaluated on fit.node_posteriors(), fit.mutation_posteriors() and fit.mutation_phase.  This is
the stand-in for the *base case* that the deductive part cannot reach (every non-sample node receives a first
valid message; Laplace approximations return usable moments) and an end-to-end mirror of the proved clauses.

Contract clauses evaluated (one obligation per clause name)
-----------------------------------------------------------
node-posterior-mean-variance-finite-positive
    every non-sample node: mean and variance are finite and > 0.
node-shape-at-most-max-shape
    every non-sample node: mean^2 / variance <= max_shape (1 + 1e-9).
sample-node-posterior-is-point-mass
    every sample node: (mean, variance) == (input time, 0)   [frame: C05 speaks about non-sample nodes only;
    this keeps the "non-sample" partition honest].
mutation-posterior-undefined-or-finite-positive
    every mutation: (mean, variance) are both NaN, or both finite and > 0.
mutation-above-root-is-undefined
    every mutation with no edge above its node at its position (oracle: direct scan of the edge table):
    (mean, variance) are both NaN.
phase-undefined-or-in-half-one
    every mutation: fit.mutation_phase is NaN or lies in [0.5, 1]; evaluated on every mutation, the unphased
    singletons (oracle: mutations carried by exactly one sample genome of a diploid individual, when
    singletons_phased=False) are the non-trivial ones and are counted in the notes.
phased-mutation-phase-is-one-or-undefined
    every mutation that is NOT an unphased singleton has phase exactly 1 or NaN.
ep-run-hits-no-properness-assertion
    the EP run (ExpectationPropagation.infer) does not die on one of its internal assertions; those assertions
    (`0 < shape`, `0 < rate` in _damp/_rescale, valid posteriors entering piecewise_scale_posterior) are the
    properness conditions themselves, so tripping one means an improper intermediate posterior.  The known
    "Use fewer rescaling intervals" assertion (DESIGN 6-F7, time-rescaling stage) is not judged here.
known-extreme-cap-root-regularisation-improper-cavity      (DEFECT found by this module, isolated here)
    the requirement of ep-run-hits-no-properness-assertion, for this condition: max_shape >= 1e6 (default 1000) and
    regularise_roots=True.  ExpectationPropagation.propagate_prior forms the cavity  posterior - prior_message  without
    the damping used for edge messages; when a root's posterior rate has dropped below its current prior message
    the cavity rate is <= 0 and `assert penalty > 0` (or `0 < rate` in _rescale) raises AssertionError.  Seen with
    historical / internal samples and a mutation rate >= 100 x too large.
known-extreme-cap-node-never-receives-message              (DEFECT found by this module, isolated here)
    the base case of node-posterior-mean-variance-finite-positive, for this condition: max_shape >= 1e6 and a node
    whose natural parameters are still exactly (0, 0) at the end (every update that touches it was skipped).  Its mean
    and variance are inf (then tskit.LibraryError when the dated tables are built), or, with regularise_roots=True,
    propagate_prior raises AssertionError on the message-less root.  Seen with historical + internal samples and a
    mutation rate 1e5..1e7 x too large.
  A failure lands in a known- clause only if the cap is extreme AND the mechanism is recognised (diagnose_ep_failure /
  exact-zero natural parameters); every configuration with max_shape < 1e6 -- in particular the whole grid
  {1.5, 5, 1000} -- and every other kind of impropriety stays in the strict generic clauses.

Input space and bound
---------------------
inputs (all <= ~40 nodes; generated with numpy default_rng(seed) / msprime seeds derived from seed):
  haploid msprime simulations (n = 3..8, 1..~8 trees); sparse-mutation and mutation-dense variants; a polytomy;
  a forest of stars; enumerated 5-leaf shapes (polytomies included) with 0..3 mutations per edge (so some edges
  and some whole subtrees carry no mutation); historical samples; internal samples with free and with fixed
  children; diploid individuals (unphased singletons, incl. one input whose two genomes are siblings: the
  single-parent singleton block); inputs with mutations above the root; a sample isolated over part of the
  genome; long/short span contrast (sequence length 1e6 with mutation rate 1e-8, length 1 with rate 10).
configurations: max_iterations {1, 2, 25} x max_shape {1.5, 5, 1000} x rescaling {off, 1 interval, 4 intervals,
  default 1000 intervals} x singletons_phased {True, False (diploid inputs)}; regularise_roots and
  match_segregating_sites alternate deterministically; mutation rate scaled by {1, 1e-3, 1e3} relative to the
  simulated one on a subset (misspecified clock: drives near-degenerate messages).
stress configurations on every input: clock wrong by a factor 1e2..1e7 / 1e-6 with max_shape in {1.5, 5, 1000, 1e5, 1e6,
  1e8}, with and without root regularisation; these
  are the settings under which EP updates really are skipped (NaN edge constants, undefined mutation posteriors and
  phases; counted in the notes), i.e. the "skipped update" alternatives of the statement are driven on purpose.
quick   : ~34 inputs x (6 grid configurations drawn without replacement + 5 stress configurations) (~400 calls).
thorough: ~80 inputs x (the full grid + 12 stress configurations).
Not exhaustive.

Calls that raise: every exception is counted by type in the notes, never silently dropped.  If the exception is
raised outside the EP run (e.g. tskit.LibraryError while the dated tables are rebuilt -- C01/C35 territory) the
same fit is recomputed through ExpectationPropagation(...).infer(...) and judged; the known "Use fewer rescaling
intervals" assertion (DESIGN 6-F7) leaves no posteriors and is skipped; any other failure inside the EP run is a
failure of ep-run-hits-no-properness-assertion.

Tolerances
----------
shape <= max_shape * (1 + 1e-9): the cap multiplies the natural parameters by eta = (max_shape - 1)/alpha, so
alpha*eta + 1 equals max_shape up to a couple of ulps, and shape is re-derived here as mean^2/variance from
(alpha + 1)/beta and mean/beta (two more roundings); the statement's bound is on real numbers.  All other
clauses are exact predicates (finite, > 0, NaN, interval membership).

NOT covered
-----------
Inputs beyond the sizes above; allow_unary=True; JIT-compiled kernels unless the runner enables JIT; the
numerical accuracy of the posteriors (C18-C20); denormal mutation rates.
"""
import itertools
import traceback

import msprime
import numpy as np
import tskit

from rt import bounded_api, inputs

SHAPE_RTOL = 1e-9


# ------------------------------------------------------------------ inputs (own helpers)
def small_sim(seed, n, ploidy=1, L=1e3, rec=1e-5, mu=1e-4):
    return inputs.sim(seed, n=n, L=L, rec=rec, mu=mu, ne=100, ploidy=ploidy)


def small_historical(seed, n0=3, n_hist=2, t_hist=20.0, L=1e3, rec=1e-5, mu=1e-4):
    samples = [msprime.SampleSet(n0, time=0, ploidy=1), msprime.SampleSet(n_hist, time=t_hist, ploidy=1)]
    ts = msprime.sim_ancestry(samples, sequence_length=L, recombination_rate=rec, population_size=100,
                              random_seed=seed + 3)
    return msprime.sim_mutations(ts, rate=mu, random_seed=seed + 11)


def make_internal_sample(ts, which=0):
    is_sample = [ts.node(u).is_sample() for u in range(ts.num_nodes)]
    has_parent = set(int(c) for c in ts.edges_child)
    cands = sorted(set(int(e.parent) for e in ts.edges() if not is_sample[e.child] and not is_sample[e.parent]
                       and int(e.parent) in has_parent))
    if not cands:
        return None
    both = [u for u in cands if any(is_sample[e.child] for e in ts.edges() if e.parent == u)]
    cands = both or cands
    u = cands[which % len(cands)]
    tables = ts.dump_tables()
    flags = tables.nodes.flags.copy()
    flags[u] |= tskit.NODE_IS_SAMPLE
    tables.nodes.flags = flags
    return tables.tree_sequence()


def has_twin(ts):
    for t in ts.trees():
        for ind in ts.individuals():
            if len(ind.nodes) == 2 and t.parent(ind.nodes[0]) != tskit.NULL and t.parent(ind.nodes[0]) == t.parent(ind.nodes[1]):
                return True
    return False


def collapse_internal(ts, which=0):
    t = ts.first()
    cands = [u for u in t.nodes(order="timeasc") if not t.is_sample(u) and t.parent(u) != tskit.NULL]
    if not cands:
        return None
    u = cands[which % len(cands)]
    p = t.parent(u)
    tables = ts.dump_tables()
    tables.edges.clear()
    for e in ts.edges():
        if e.child == u:
            continue
        tables.edges.add_row(e.left, e.right, p if e.parent == u else e.parent, e.child)
    tables.mutations.clear()
    for m in ts.mutations():
        if m.node != u:
            tables.mutations.add_row(site=m.site, node=m.node, derived_state=m.derived_state)
    tables.sort()
    tables.simplify(filter_sites=False)
    tables.build_index()
    tables.compute_mutation_parents()
    return tables.tree_sequence()


def star_forest():
    tables = tskit.TableCollection(10.0)
    for _ in range(5):
        tables.nodes.add_row(flags=tskit.NODE_IS_SAMPLE, time=0)
    a = tables.nodes.add_row(time=1.0)
    b = tables.nodes.add_row(time=1.5)
    c = tables.nodes.add_row(time=2.0)
    for (l, r, p, ch) in [(0, 4, a, 0), (0, 4, a, 1), (0, 10, b, 2), (0, 10, b, 3), (0, 10, b, 4),
                          (4, 10, c, 0), (4, 10, c, 1)]:
        tables.edges.add_row(l, r, p, ch)
    for x, u in zip([0.5, 1.5, 2.5, 3.5, 4.5, 5.5, 6.5, 7.5, 8.5], [0, 1, 2, 2, 0, 3, 4, 1, 1]):
        s = tables.sites.add_row(position=x, ancestral_state="0")
        tables.mutations.add_row(site=s, node=u, derived_state="1")
    tables.sort()
    tables.build_index()
    tables.compute_mutation_parents()
    return tables.tree_sequence()


def add_root_mutations(ts, k=2):
    """Add k mutations on the root node of the first tree (no edge above them) at new site positions."""
    tables = ts.dump_tables()
    t = ts.first()
    root = t.root if t.num_roots == 1 else t.roots[0]
    used = set(ts.sites_position.tolist())
    added = 0
    x = t.interval.left
    step = (t.interval.right - t.interval.left) / (k + 2) / 7.0
    while added < k:
        x += step
        if x in used or x >= t.interval.right:
            continue
        s = tables.sites.add_row(position=x, ancestral_state="0")
        tables.mutations.add_row(site=s, node=root, derived_state="1")
        added += 1
    tables.sort()
    tables.build_index()
    tables.compute_mutation_parents()
    return tables.tree_sequence()


def isolate_sample_partially(ts):
    """Make one sample isolated (missing data) over the first tree's interval, keeping every other node non-unary:
    in the first tree take a sample s whose parent p has exactly one other child w and has a parent g; over that
    interval remove the edges p-s, p-w, g-p and add g-w.  Needs >= 2 trees so that s stays connected elsewhere."""
    if ts.num_trees < 2:
        return None
    t = ts.first()
    left, right = t.interval
    pick = None
    for s in ts.samples():
        p = t.parent(s)
        if p == tskit.NULL or t.num_children(p) != 2 or t.parent(p) == tskit.NULL:
            continue
        if not any(e.child == s and (e.left >= right or e.right <= left) for e in ts.edges()):
            continue   # s would be disconnected everywhere
        w = [c for c in t.children(p) if c != s][0]
        pick = (s, p, w, t.parent(p))
        break
    if pick is None:
        return None
    s, p, w, g = pick
    tables = ts.dump_tables()
    tables.edges.clear()
    for e in ts.edges():
        hit = e.left < right and e.right > left and ((e.parent == p and e.child in (s, w)) or (e.parent == g and e.child == p))
        if not hit:
            tables.edges.add_row(e.left, e.right, e.parent, e.child)
            continue
        if e.left < left:
            tables.edges.add_row(e.left, left, e.parent, e.child)
        if e.right > right:
            tables.edges.add_row(right, e.right, e.parent, e.child)
    tables.edges.add_row(left, right, g, w)
    tables.mutations.clear()
    for m in ts.mutations():
        x = ts.sites_position[m.site]
        if left <= x < right and m.node in (s, p):
            continue   # mutations on the removed branches are dropped
        tables.mutations.add_row(site=m.site, node=m.node, derived_state=m.derived_state)
    tables.sort()
    tables.edges.squash()
    tables.sort()
    tables.build_index()
    tables.compute_mutation_parents()
    out = tables.tree_sequence()
    # the removed parent must still be used elsewhere, otherwise it is a disconnected node (rejected input)
    if not (np.any(out.edges_parent == p) or np.any(out.edges_child == p)):
        return None
    return out


def shape_inputs(rng, n_leaves, k):
    shapes = list(inputs.all_tree_shapes(n_leaves))
    idx = rng.choice(len(shapes), size=min(k, len(shapes)), replace=False)
    out = []
    for i in sorted(int(j) for j in idx):
        probe = inputs.tree_to_ts(shapes[i])
        muts = {int(e.child): int(rng.integers(0, 4)) * int(rng.random() < 0.7) for e in probe.edges()}
        if sum(muts.values()) == 0:
            muts[0] = 1
        out.append((f"shape{n_leaves}_{i}", inputs.tree_to_ts(shapes[i], mutations=muts), 0.05))
    return out


def build_inputs(tier, seed, rng):
    """list of (name, ts, nominal mutation rate)."""
    q = tier == "quick"
    out = []
    for i in range(6 if q else 16):
        n = 3 + i % 6
        out.append((f"sim_n{n}_s{i}", small_sim(seed * 1000 + i, n, rec=(0 if i % 3 == 0 else 1e-5)), 1e-4))
    for i in range(2 if q else 5):
        out.append((f"sparse_{i}", small_sim(seed * 1000 + 20 + i, 4 + i, rec=(0 if i % 2 else 1e-5), mu=1.5e-5), 1.5e-5))
        out.append((f"dense_{i}", small_sim(seed * 1000 + 25 + i, 4 + i, rec=0, mu=6e-4), 6e-4))
    for i in range(1 if q else 3):
        ts = collapse_internal(small_sim(seed * 1000 + 30 + i, 5 + i % 2, rec=0), which=i)
        if ts is not None:
            out.append((f"polytomy_{i}", ts, 1e-4))
    out.append(("star_forest", star_forest(), 0.05))
    for i in range(4 if q else 8):
        ts = small_historical(seed * 1000 + i, n0=3 + i % 2, n_hist=1 + i % 3, rec=(0 if i % 2 == 0 else 1e-5))
        out.append((f"historical_{i}", ts, 1e-4))
        ts2 = make_internal_sample(ts, which=i)
        if ts2 is not None:
            out.append((f"historical_internal_sample_{i}", ts2, 1e-4))
    for i in range(1 if q else 5):
        ts = make_internal_sample(small_sim(seed * 1000 + 50 + i, 5, rec=(0 if i % 2 == 0 else 1e-5)), which=i)
        if ts is not None:
            out.append((f"internal_sample_{i}", ts, 1e-4))
    for i in range(3 if q else 8):
        out.append((f"diploid_{i}", small_sim(seed * 1000 + 100 + i, 2 + i % 2, ploidy=2,
                                              rec=(0 if i % 3 == 0 else 1e-5), mu=2e-4), 2e-4))
    want, j = (1 if q else 3), 0
    while want > 0 and j < (8 if q else 30):
        ts = small_sim(seed * 1000 + 300 + j, 2 + j % 2, ploidy=2, rec=(0 if j % 2 == 0 else 1e-5), mu=4e-4)
        j += 1
        if has_twin(ts):
            out.append((f"diploid_twin_{j - 1}", ts, 4e-4))
            want -= 1
    for i in range(2 if q else 5):
        out.append((f"root_mutations_{i}", add_root_mutations(small_sim(seed * 1000 + 60 + i, 4, rec=(0 if i % 2 == 0 else 1e-5)), 2 + i), 1e-4))
    k, found = 0, 0
    while found < (1 if q else 3) and k < (6 if q else 20):
        ts = isolate_sample_partially(small_sim(seed * 1000 + 400 + k, 5, rec=3e-5))
        k += 1
        if ts is not None and ts.num_mutations > 0:
            out.append((f"partly_isolated_{k - 1}", ts, 1e-4))
            found += 1
    out.append(("long_genome", small_sim(seed * 1000 + 70, 5, L=1e6, rec=1e-8, mu=1e-7), 1e-7))
    out.append(("unit_genome", small_sim(seed * 1000 + 71, 5, L=1.0, rec=0, mu=0.1), 0.1))
    out += shape_inputs(rng, 5, 4 if q else 20)
    return [(n, ts, mu) for n, ts, mu in out if ts.num_mutations > 0 and ts.num_nodes <= 60]


def is_diploid(ts):
    return ts.num_individuals > 0 and all(len(i.nodes) == 2 for i in ts.individuals())


# ------------------------------------------------------------------ oracles (from the statement, no tsdate code)
def mutations_above_root(ts):
    """Boolean per mutation: no edge (.., child = mutation node, [l, r)) with l <= position < r."""
    out = np.zeros(ts.num_mutations, dtype=bool)
    for m in ts.mutations():
        x = ts.sites_position[m.site]
        out[m.id] = not any(e.child == m.node and e.left <= x < e.right for e in ts.edges())
    return out


def unphased_singletons(ts):
    """Boolean per mutation: carried by exactly one sample genome, which belongs to a diploid individual."""
    out = np.zeros(ts.num_mutations, dtype=bool)
    for t in ts.trees():
        for site in t.sites():
            for m in site.mutations:
                carriers = [u for u in t.samples(m.node)]
                if len(carriers) == 1 and ts.node(carriers[0]).individual != tskit.NULL:
                    out[m.id] = len(ts.individual(ts.node(carriers[0]).individual).nodes) == 2
    return out


EXTREME_CAP = 1e6   # the two defects isolated in known- clauses were only ever seen with max_shape >= 1e6 (default 1000)


def diagnose_ep_failure(tsdate, ts, cfg):
    """Recognise, by mechanism, the two defects of the unchanged code that are isolated in known- clauses.  The EP run
    is repeated with the root regularisation applied as a separate step (iterate(regularise=False), then
    propagate_prior and the scale fold: the same computation as iterate(regularise=True) up to one extra,
    meaning-preserving fold of the scales), so that the state ENTERING propagate_prior can be inspected.  Returns
      {"kind": "node-without-message", ...}  some non-sample node still has natural parameters exactly (0, 0) -- no EP
                                             update was ever applied to it -- when the run fails (or when it ends);
      {"kind": "improper-root-cavity", ...}  every unconstrained root has a proper posterior entering propagate_prior
                                             but for some root  posterior - scale * prior_message  has rate <= 0 or
                                             shape <= 0, and propagate_prior then trips `assert penalty > 0` (or the
                                             `0 < rate` assertion of _rescale when the pooled penalty is positive but
                                             smaller than one root's deficit);
      None                                   anything else."""
    EP = tsdate.variational.ExpectationPropagation
    fit = EP(ts, mutation_rate=cfg["mutation_rate"], singletons_phased=cfg["singletons_phased"])
    is_sample = np.zeros(ts.num_nodes, dtype=bool)
    is_sample[ts.samples()] = True

    def unmessaged():
        P = np.array(fit.node_posterior)
        return np.flatnonzero(~is_sample & (P[:, 0] == 0) & (P[:, 1] == 0))

    for it in range(cfg["max_iterations"]):
        try:
            fit.iterate(max_shape=cfg["max_shape"], regularise=False)
        except Exception:
            z = unmessaged()
            return {"kind": "node-without-message", "iteration": it + 1, "nodes": z} if z.size else None
        if not cfg["regularise_roots"]:
            continue
        roots = np.flatnonzero(np.array(fit.unconstrained_roots))
        P = np.array(fit.node_posterior)[roots]
        prior = np.array(fit.factors.node)[roots, 0] * np.array(fit.factors.scale)[roots, None]
        try:
            fit.propagate_prior(fit.unconstrained_roots, fit.node_posterior, fit.factors, float(cfg["max_shape"]), 10, 1e-8)
            tsdate.variational._rescale_factors(fit.factors)
        except AssertionError:
            zero = (P[:, 0] == 0) & (P[:, 1] == 0)
            if np.any(zero):
                return {"kind": "node-without-message", "iteration": it + 1, "nodes": roots[zero]}
            proper = np.all(np.isfinite(P)) and np.all(P[:, 0] > -1) and np.all(P[:, 1] > 0)
            cav = P - prior
            bad = (cav[:, 1] <= 0) | (cav[:, 0] <= -1)
            if proper and np.any(bad):
                return {"kind": "improper-root-cavity", "iteration": it + 1, "roots": roots[bad],
                        "posterior_entering_propagate_prior": P[bad], "prior_message": prior[bad], "cavity": cav[bad]}
            return None
        except Exception:
            return None
    z = unmessaged()
    return {"kind": "node-without-message", "iteration": cfg["max_iterations"], "nodes": z} if z.size else None


KNOWN_CLAUSE = {"improper-root-cavity": "known-extreme-cap-root-regularisation-improper-cavity",
                "node-without-message": "known-extreme-cap-node-never-receives-message"}


# ------------------------------------------------------------------ one evaluation
def evaluate(rep, stats, tsdate, key, name, ts, cfg):
    desc = dict(cfg, input_name=name, ts=bounded_api.ts_to_json(ts))
    kw = dict(mutation_rate=cfg["mutation_rate"], max_iterations=cfg["max_iterations"], max_shape=cfg["max_shape"],
              regularise_roots=cfg["regularise_roots"], singletons_phased=cfg["singletons_phased"],
              match_segregating_sites=cfg["match_segregating_sites"], return_fit=True)
    if cfg["rescaling_intervals"] is not None:
        kw["rescaling_intervals"] = cfg["rescaling_intervals"]
    try:
        _, fit = tsdate.variational_gamma(ts, **kw)
    except Exception as e:
        tag = f"{type(e).__name__}: {str(e)[:60]}"
        stats["exceptions"][tag] = stats["exceptions"].get(tag, 0) + 1
        where = [f.name for f in traceback.extract_tb(e.__traceback__)]
        if "infer" not in where:
            # raised before or after the EP fit (e.g. while the dated tables are rebuilt): the posteriors exist, so
            # obtain the same fit from the class the method wraps and judge it
            try:
                fit = tsdate.variational.ExpectationPropagation(ts, mutation_rate=cfg["mutation_rate"],
                                                                singletons_phased=cfg["singletons_phased"])
                resc = 1000 if cfg["rescaling_intervals"] is None else cfg["rescaling_intervals"]
                fit.infer(ep_iterations=cfg["max_iterations"], max_shape=cfg["max_shape"], rescale_intervals=resc,
                          rescale_iterations=5, regularise=cfg["regularise_roots"],
                          rescale_segsites=cfg["match_segregating_sites"])
            except Exception:
                return
        elif isinstance(e, AssertionError) and "Use fewer rescaling intervals" in str(e):
            return   # known F7 (time rescaling stage; C25/C35), no posteriors to judge
        else:
            # the EP run itself failed: the internal assertions of _damp/_rescale/propagate_prior/
            # piecewise_scale_posterior ARE the properness conditions (shape > 0, rate > 0), so this is an improper
            # intermediate posterior: a failure of the strict generic clause -- unless BOTH the configuration is an
            # extreme cap (max_shape >= 1e6) AND the failure is recognised by mechanism as one of the two defects of the
            # unchanged code, which then go to their own known- clauses.
            clause = "ep-run-hits-no-properness-assertion"
            diag = None
            if cfg["max_shape"] >= EXTREME_CAP and isinstance(e, AssertionError):
                diag = diagnose_ep_failure(tsdate, ts, cfg)
                if diag is not None:
                    clause = KNOWN_CLAUSE[diag["kind"]]
            rep.case(clause, False, key=key, input=desc,
                     observed={"exception": tag, "frames": where[-4:], "diagnosis": diag}, expected="EP run completes")
            return
    rep.case("ep-run-hits-no-properness-assertion", True, key=key, input=desc, nontrivial=False)
    stats["calls"] += 1
    max_shape = cfg["max_shape"]
    post = fit.node_posteriors()
    mpost = fit.mutation_posteriors()
    phase = np.array(fit.mutation_phase, dtype=float)
    is_sample = np.zeros(ts.num_nodes, dtype=bool)
    is_sample[ts.samples()] = True
    free = np.flatnonzero(~is_sample)
    mn, va = post["mean"][free], post["variance"][free]
    good = np.isfinite(mn) & np.isfinite(va) & (mn > 0) & (va > 0)
    # known defect (isolated): with an extreme cap a node may never receive a valid message; its natural parameters
    # are then still exactly (0, 0).  Those nodes -- and only under max_shape >= 1e6 -- are judged in the known- clause;
    # the generic clauses stay strict on every other node and on every configuration with a smaller cap.
    nat = np.array(fit.node_posterior)[free]
    unmessaged = (nat[:, 0] == 0) & (nat[:, 1] == 0) & ~good & (max_shape >= EXTREME_CAP)
    if np.any(unmessaged):
        rep.case(KNOWN_CLAUSE["node-without-message"], False, key=key, input=desc,
                 observed={"nodes": free[unmessaged], "natural_parameters": nat[unmessaged], "mean": mn[unmessaged],
                           "variance": va[unmessaged]}, expected="finite and > 0")
    judged = ~unmessaged
    rep.case("node-posterior-mean-variance-finite-positive", bool(np.all(good[judged])), key=key, input=desc,
             observed={"bad_nodes": free[judged & ~good], "mean": mn[judged & ~good], "variance": va[judged & ~good]},
             expected="finite and > 0")
    with np.errstate(all="ignore"):
        shape = mn * mn / va
    capped_ok = shape <= max_shape * (1 + SHAPE_RTOL)
    rep.case("node-shape-at-most-max-shape", bool(np.all(capped_ok[judged & good])) and bool(np.all(good[judged])), key=key,
             input=desc, observed={"nodes": free[judged & ~capped_ok], "shape": shape[judged & ~capped_ok]},
             expected={"max_shape": max_shape})
    stats["nodes_at_cap"] += int(np.sum(np.abs(shape[good] / max_shape - 1) < 1e-6))
    stats["nodes"] += int(free.size)
    smp = ts.samples()
    rep.case("sample-node-posterior-is-point-mass",
             bool(np.array_equal(post["mean"][smp], ts.nodes_time[smp]) and np.all(post["variance"][smp] == 0)),
             key=key, input=desc, observed=post[smp], expected=ts.nodes_time[smp], nontrivial=False)

    mmn, mva = mpost["mean"], mpost["variance"]
    undefined = np.isnan(mmn) & np.isnan(mva)
    proper = np.isfinite(mmn) & np.isfinite(mva) & (mmn > 0) & (mva > 0)
    okm = undefined | proper
    rep.case("mutation-posterior-undefined-or-finite-positive", bool(np.all(okm)), key=key, input=desc,
             observed={"mutations": np.flatnonzero(~okm)[:10], "mean": mmn[~okm][:10], "variance": mva[~okm][:10]},
             expected="both NaN, or both finite and > 0")
    above = mutations_above_root(ts)
    if np.any(above):
        rep.case("mutation-above-root-is-undefined", bool(np.all(undefined[above])), key=key, input=desc,
                 observed={"mutations": np.flatnonzero(above), "mean": mmn[above], "variance": mva[above]},
                 expected="NaN")
    stats["mutations"] += int(ts.num_mutations)
    stats["mutations_above_root"] += int(np.sum(above))
    stats["mutations_skipped"] += int(np.sum(undefined & ~above))

    okp = np.isnan(phase) | ((phase >= 0.5) & (phase <= 1.0))
    single = unphased_singletons(ts) if not cfg["singletons_phased"] else np.zeros(ts.num_mutations, dtype=bool)
    rep.case("phase-undefined-or-in-half-one", bool(np.all(okp)) and phase.size == ts.num_mutations, key=key, input=desc,
             observed={"mutations": np.flatnonzero(~okp)[:10], "phase": phase[~okp][:10]}, expected="NaN or in [0.5, 1]",
             nontrivial=bool(np.any(single)))
    rest = ~single
    okr = np.isnan(phase[rest]) | (phase[rest] == 1.0)
    rep.case("phased-mutation-phase-is-one-or-undefined", bool(np.all(okr)), key=key, input=desc,
             observed={"mutations": np.flatnonzero(rest)[~okr][:10], "phase": phase[rest][~okr][:10]}, expected="1.0 or NaN",
             nontrivial=False)
    stats["unphased_singletons"] += int(np.sum(single))
    stats["unphased_singletons_interior_phase"] += int(np.sum(single & (phase > 0.5) & (phase < 1.0)))
    stats["phase_undefined"] += int(np.sum(np.isnan(phase)))
    stats["edges_skipped"] += int(np.sum(np.isnan(np.array(fit.edge_logconst)))) + int(np.sum(np.isnan(np.array(fit.block_logconst))))


# ------------------------------------------------------------------ driver
def run(req, rep):
    tier, seed = req["tier"], req["seed"]
    rng = np.random.default_rng(seed)
    import tsdate

    quick = tier != "thorough"
    ins = build_inputs("quick" if quick else "thorough", seed, rng)
    iters = [1, 2, 25]
    shapes = [1.5, 5, 1000]
    rescalings = [0, 1, 4, None]   # None: library default (1000 intervals)
    per_input = 6 if quick else None
    rep.space = ("real tsdate.variational_gamma(return_fit=True) on small simulated / hand-built inputs (haploid, diploid "
                 "unphased, historical and internal samples, polytomies, stars, mutations above roots, partly isolated "
                 "samples, sparse/dense mutations, long/short genomes) x max_iterations x max_shape x rescaling x "
                 "singletons_phased x clock misspecification")
    rep.bound = (f"{len(ins)} inputs (<= 60 nodes) x " + ("6 configurations drawn from" if quick else "all of") +
                 f" max_iterations {iters} x max_shape {shapes} x rescaling_intervals {rescalings} x phasing; seed {seed}")
    rep.exhaustive = False
    stats = {"calls": 0, "exceptions": {}, "nodes": 0, "nodes_at_cap": 0, "mutations": 0, "mutations_above_root": 0,
             "mutations_skipped": 0, "unphased_singletons": 0, "unphased_singletons_interior_phase": 0,
             "phase_undefined": 0, "edges_skipped": 0}
    for name, ts, mu in ins:
        phasings = [True, False] if is_diploid(ts) else [True]
        grid = list(itertools.product(iters, shapes, rescalings, phasings))
        if per_input is not None and len(grid) > per_input:
            grid = [grid[int(j)] for j in sorted(rng.choice(len(grid), size=per_input, replace=False))]
        for g, (it, ms, resc, phased) in enumerate(grid):
            factor = [1.0, 1.0, 1e-3, 1e3][g % 4]
            cfg = {"mutation_rate": mu * factor, "max_iterations": it, "max_shape": ms, "rescaling_intervals": resc,
                   "singletons_phased": phased, "regularise_roots": g % 3 != 2, "match_segregating_sites": g % 5 == 4}
            key = f"{name}/it{it}/ms{ms}/resc{resc}/ph{int(phased)}/mux{factor:g}"
            evaluate(rep, stats, tsdate, key, name, ts, cfg)
        # stress configurations: clock wrong by 1e6 either way and a very loose / default cap -- these are the settings
        # under which EP updates are actually skipped (NaN edge constants, NaN mutation posteriors and phases)
        stress = ([(1e6, 1e8, 10, True), (1e4, 1e8, 25, True), (1e5, 1e8, 10, False), (1e6, 1000, 10, True),
                   (1e-6, 1.5, 2, True)] if quick else
                  [(1e6, 1e8, 10, True), (1e4, 1e8, 25, True), (1e2, 1e6, 25, True), (1e5, 1e8, 10, False),
                   (1e7, 1e8, 10, False), (1e6, 1e5, 10, False), (1e6, 1000, 25, True), (1e6, 1000, 25, False),
                   (1e6, 5, 3, True), (1e-6, 1.5, 2, True), (1e-6, 1000, 25, False), (1e-6, 1e8, 10, True)])
        for (factor, ms, it, reg) in stress:
            for phased in phasings:
                cfg = {"mutation_rate": mu * factor, "max_iterations": it, "max_shape": ms, "rescaling_intervals": 0,
                       "singletons_phased": phased, "regularise_roots": reg, "match_segregating_sites": False}
                evaluate(rep, stats, tsdate, f"{name}/stress/it{it}/ms{ms:g}/reg{int(reg)}/ph{int(phased)}/mux{factor:g}",
                         name, ts, cfg)
    rep.notes.append("coverage: " + ", ".join(f"{k}={v}" for k, v in stats.items() if k != "exceptions"))
    rep.notes.append("calls that raised, by type (see docstring for how each is judged): " +
                     (", ".join(f"{v} x [{k}]" for k, v in sorted(stats["exceptions"].items())) or "none"))


if __name__ == "__main__":
    bounded_api.main(run)
