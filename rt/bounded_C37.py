"""
Bounded stand-in for C37 -- standalone tree-sequence rescaling works.

Statement: "For every simplified input whose samples are all at time zero, rescale_tree_sequence returns a valid tree
sequence with the same topology.  Sample times are unchanged, non-sample times are transformed by a non-decreasing
map, and each mutation sits at the midpoint of its branch, or at its node for mutations above a root."

Contract clauses (REAL tsdate.rescaling.rescale_tree_sequence; the oracles use only tskit's tree API on the
returned tables and share no code with tsdate -- in particular the branch of a mutation is found with
tskit.Tree.parent at the site position, not with tsdate's mutations_edge):
  returns-valid-tree-sequence        the call returns a tskit.TreeSequence (tskit validated the tables on
                                     construction: edge/time ordering, mutation ordering); it is re-validated by
                                     dumping and re-loading the tables, every edge has time[parent] > time[child],
                                     all times are finite.  ANY exception is a failure of this clause, except the two
                                     isolated known conditions below.
  same-topology                      edges (left, right, parent, child), node flags / individual / population,
                                     sites, mutations (per site and node the same sequence of derived states; the row
                                     order between different branches of one site is not topology and may change
                                     because rows are re-sorted by the new times), individuals and populations tables,
                                     sequence_length and the set of local trees are exactly those of the input
  sample-times-unchanged             out.nodes_time[s] == in.nodes_time[s] (== 0) exactly for every sample s
  nonsample-times-nondecreasing-map  for every pair of non-sample nodes u, v:  t_in[u] == t_in[v] => t_out[u] == t_out[v]
                                     (it is a map of the time) and t_in[u] < t_in[v] => t_out[u] <= t_out[v]
  mutation-at-branch-midpoint-or-node  every output mutation m on node c at site position x: with p = parent of c in
                                     the local tree at x, time(m) == (t_out[p] + t_out[c]) / 2, or time(m) == t_out[c]
                                     when c is a root there
  zero-iterations-keeps-times        num_iterations = 0: node times are exactly the input's (the map is the identity)
  known-use-fewer-rescaling-intervals-assert
                                     KNOWN DEFECT (DESIGN 6-F7, unrepaired): when a rescaling interval contains no
                                     mutations (always the case for an input without mutations) the call dies with
                                     the internal `AssertionError: Use fewer rescaling intervals`.  One case per
                                     call that hits exactly this assertion (at most 6 replayable examples are
                                     reported, the total is in the notes); the clause holds iff the call returns.
  known-mutation-free-interval-collapses-node-times
                                     DEFECT FOUND WHILE WRITING THIS CHECK (same root cause as F7, unrepaired): when
                                     the cumulative-sum of a mutation-free interval is not exactly 0 but ~1e-15, the
                                     assert above is passed, parent and child get the same rescaled time and
                                     tables.tree_sequence() raises tskit.LibraryError TSK_ERR_BAD_NODE_TIME_ORDERING.
                                     One case per call that ends in exactly this error AND for which the break
                                     points returned by the real mutational_timescale (observed through a wrapper)
                                     contain an interval of numerically zero rescaled length (<= 1e-12 relative);
                                     a time-ordering error without such an interval is a failure of
                                     returns-valid-tree-sequence.  Holds iff the call returns.

Input space / bound (all inputs simplified, samples at time 0; deterministic in the seed)
  quick   : 14 msprime simulations (3..7 samples, 1..~25 trees, <= ~45 nodes, three mutation densities, two of them
            with times multiplied by 0.01 / 100) + all 4 + 26 leaf-labelled tree shapes on 3 and 4 leaves (polytomies
            included) with seeded random mutation counts 0..3 per node INCLUDING the root (mutations above a root)
            + 2 two-root inputs;   x num_intervals in {1, 2, 5, 100, 1000} x num_iterations in {0, 1, 3, 10}
            x match_segregating_sites in {False, True} for the simulations (40 option sets), 6 option sets for the
            shapes; mutation_rate argument rotates over {5e-4, 1e-3, 1e-5}.
  thorough: 200 simulations (up to 9 samples), additionally all 236 shapes on 5 leaves, 2 mutation patterns per
            shape, the full 40 option sets for every shape with <= 4 leaves.
  exhaustive = False (shapes are exhaustive for <= 4 (5) leaves; everything else is sampled).
Tolerances: sample times, topology and the identity at zero iterations are compared exactly.  The monotone-map
  clause is exact (<=, ==) -- the code applies one piecewise-linear function to every node, so equal inputs must give
  bitwise equal outputs.  Mutation midpoints: the statement's formula evaluated in the same float64 arithmetic is
  algebraically identical to the code's, rtol 1e-9 (atol 1e-12 * max time) is used.
NOT covered: inputs with historical samples (the function rejects them with ValueError; outside the statement),
  unsimplified inputs (unary nodes), inputs with > ~50 nodes, the quality of the rescaling itself (C25).
"""
import warnings

import numpy as np
import tskit

from rt import bounded_api, inputs

RTOL = 1e-9


# ------------------------------------------------------------------ inputs (own helpers)
def two_root_input(seed):
    """Two trees' worth of samples that never coalesce: ((0,1),(2,3)) without the top node -> two roots, with
    mutations above both roots."""
    tables = tskit.TableCollection(100.0)
    for _ in range(4):
        tables.nodes.add_row(flags=tskit.NODE_IS_SAMPLE, time=0)
    a = tables.nodes.add_row(flags=0, time=1.5 + seed)
    b = tables.nodes.add_row(flags=0, time=2.5 + seed)
    for p, c in ((a, 0), (a, 1), (b, 2), (b, 3)):
        tables.edges.add_row(0, 100.0, p, c)
    rng = np.random.default_rng(seed)
    pos = 1.0
    for node in (0, 1, 2, 3, a, a, b, b, b):
        if rng.random() < 0.8:
            s = tables.sites.add_row(position=pos, ancestral_state="0")
            tables.mutations.add_row(site=s, node=node, derived_state="1")
            pos += 7.0
    tables.sort()
    tables.build_index()
    tables.compute_mutation_parents()
    return tables.tree_sequence()


def strip_mutation_times(ts):
    tables = ts.dump_tables()
    tables.mutations.time = np.full(tables.mutations.num_rows, tskit.UNKNOWN_TIME)
    return tables.tree_sequence()


def make_inputs(seed, tier):
    quick = tier == "quick"
    out = []
    nsim = 14 if quick else 200
    for i in range(nsim):
        n = 3 + i % (5 if quick else 7)
        ts = inputs.sim(seed * 1000 + i, n=n, L=300, rec=(0 if i % 3 == 0 else 2e-4), mu=[5e-4, 1e-4, 2e-3][i % 3],
                        ne=100)
        name = f"sim(seed={seed * 1000 + i},n={n},L=300,mu={[5e-4, 1e-4, 2e-3][i % 3]})"
        if i % 7 == 5:
            ts, name = inputs.scale_times(ts, 0.01), name + "*0.01"
        elif i % 7 == 6:
            ts, name = inputs.scale_times(ts, 100.0), name + "*100"
        out.append((name, "sim", ts))
    rng = np.random.default_rng(seed + 17)
    for nl in ((3, 4) if quick else (3, 4, 5)):
        for shape in inputs.all_tree_shapes(nl):
            for rep_ in range(1 if quick else 2):
                n_nodes = nl + str(shape).count("(")
                muts = {u: int(c) for u, c in enumerate(rng.integers(0, 4, size=n_nodes)) if c}
                if rep_ == 0:
                    muts[n_nodes - 1] = muts.get(n_nodes - 1, 0) + 1  # always one mutation above the root
                ts = inputs.tree_to_ts(shape, sequence_length=100.0, mutations=muts)
                out.append((f"shape{shape}/muts={muts}", "shape", ts))
    for j in range(2):
        out.append((f"two-roots({seed + j})", "shape", two_root_input(seed + j)))
    return out


# ------------------------------------------------------------------ oracles
def topology_difference(a, b):
    ta, tb = a.tables, b.tables
    if a.sequence_length != b.sequence_length:
        return "sequence_length"
    if not ta.edges.equals(tb.edges):
        return "edges"
    for col in ("flags", "individual", "population"):
        if not np.array_equal(getattr(ta.nodes, col), getattr(tb.nodes, col)):
            return f"nodes.{col}"
    if ta.nodes.num_rows != tb.nodes.num_rows:
        return "number of nodes"
    if not ta.sites.equals(tb.sites):
        return "sites"
    if ta.mutations.num_rows != tb.mutations.num_rows:
        return "number of mutations"
    # Row order of the mutations of one site is not topology (sorting by the new times may permute rows of
    # different branches); what must be kept is, per site and branch, the sequence of derived states.
    def per_branch(x):
        d = {}
        for m in x.mutations():
            d.setdefault((m.site, m.node), []).append(m.derived_state)
        return d
    if per_branch(a) != per_branch(b):
        return "mutations (site, node, sequence of derived states on the branch)"
    if not ta.individuals.equals(tb.individuals) or not ta.populations.equals(tb.populations):
        return "individuals/populations"
    if a.num_trees != b.num_trees:
        return "number of trees"
    for x, y in zip(a.trees(), b.trees()):
        if x.interval != y.interval or x.parent_dict != y.parent_dict:
            return f"local tree at {x.interval.left}"
    return ""


def check_output(rep, key, desc, ts, out, opts):
    # ---- valid
    why = ""
    if not isinstance(out, tskit.TreeSequence):
        why = f"returned {type(out).__name__}"
    else:
        try:
            out.dump_tables().tree_sequence()
        except Exception as e:  # noqa: BLE001
            why = f"tables do not re-validate: {e}"
        t = out.nodes_time
        if not why and not np.all(np.isfinite(t)):
            why = "non-finite node time"
        if not why and not np.all(t[out.edges_parent] > t[out.edges_child]):
            why = "an edge with time[parent] <= time[child]"
    rep.case("returns-valid-tree-sequence", why == "", key=key, input=desc, observed=why or "valid",
             expected="valid tree sequence")
    if why:
        return
    # ---- topology
    diff = topology_difference(ts, out)
    rep.case("same-topology", diff == "", key=key, input=desc, observed=diff or "identical", expected="identical")
    if diff:
        return
    tin, tout = ts.nodes_time, out.nodes_time
    samples = ts.samples()
    rep.case("sample-times-unchanged", bool(np.all(tout[samples] == tin[samples])), key=key, input=desc,
             observed=tout[samples].tolist(), expected=tin[samples].tolist())
    # ---- non-decreasing map on non-sample nodes
    is_sample = np.zeros(ts.num_nodes, dtype=bool)
    is_sample[samples] = True
    ns = np.flatnonzero(~is_sample)
    a, b = tin[ns], tout[ns]
    order = np.argsort(a, kind="stable")
    a_s, b_s = a[order], b[order]
    bad = None
    for i in range(len(a_s) - 1):
        if a_s[i] == a_s[i + 1] and b_s[i] != b_s[i + 1]:
            bad = ("equal input times, different output", int(ns[order[i]]), int(ns[order[i + 1]]))
            break
    if bad is None:
        # after sorting by input time (ties have equal outputs), outputs must be non-decreasing
        d = np.diff(b_s)
        if np.any(d < 0):
            i = int(np.flatnonzero(d < 0)[0])
            bad = ("order reversed", int(ns[order[i]]), int(ns[order[i + 1]]))
    rep.case("nonsample-times-nondecreasing-map", bad is None, key=key, input=desc, nontrivial=len(ns) > 1,
             observed=None if bad is None else {"why": bad[0], "nodes": bad[1:], "t_in": [float(tin[bad[1]]), float(tin[bad[2]])],
                                                "t_out": [float(tout[bad[1]]), float(tout[bad[2]])]},
             expected="t_in[u] <= t_in[v] => t_out[u] <= t_out[v], equal => equal")
    # ---- mutations at midpoint / node
    atol = 1e-12 * max(1.0, float(np.max(np.abs(tout))))
    worst, n_root = None, 0
    for tree in out.trees():
        for site in tree.sites():
            for m in site.mutations:
                p = tree.parent(m.node)
                if p == tskit.NULL:
                    want = tout[m.node]
                    n_root += 1
                else:
                    want = (tout[p] + tout[m.node]) / 2
                if not (abs(m.time - want) <= atol + RTOL * abs(want)):
                    worst = {"mutation": m.id, "node": m.node, "parent": int(p), "time": float(m.time),
                             "expected": float(want)}
    rep.case("mutation-at-branch-midpoint-or-node", worst is None, key=key, input=desc,
             nontrivial=out.num_mutations > 0, observed=worst or f"{out.num_mutations} mutations ok, {n_root} above a root",
             expected="midpoint of the branch / node time above a root")
    if opts["num_iterations"] == 0:
        rep.case("zero-iterations-keeps-times", bool(np.array_equal(tout, tin)), key=key, input=desc,
                 observed=float(np.max(np.abs(tout - tin))), expected=0.0)


def run(req, rep):
    tier, seed = req["tier"], req["seed"]
    quick = tier == "quick"
    import tsdate  # noqa: F401
    import tsdate.rescaling as R
    from tsdate.rescaling import rescale_tree_sequence

    # Observation hook (not an oracle): record the break points that the real mutational_timescale returns, so
    # that the known "mutation-free interval" condition can be recognised by what it is -- an interval that is
    # mapped to (numerically) zero length -- and not merely by the type of the exception it ends in.
    observed_breaks = []
    real_mts = R.mutational_timescale

    def mts_spy(*a, **kw):
        res = real_mts(*a, **kw)
        observed_breaks.append(np.array(res[1], dtype=float))
        return res

    def degenerate_interval_seen():
        for rb in observed_breaks:
            if rb.size > 1 and np.min(np.diff(rb)) <= 1e-12 * max(1.0, float(np.max(np.abs(rb)))):
                return True
        return False

    R.mutational_timescale = mts_spy
    try:
        _run(req, rep, rescale_tree_sequence, observed_breaks, degenerate_interval_seen)
    finally:
        R.mutational_timescale = real_mts


def _run(req, rep, rescale_tree_sequence, observed_breaks, degenerate_interval_seen):
    tier, seed = req["tier"], req["seed"]
    quick = tier == "quick"
    ins = make_inputs(seed, tier)
    full_opts = [(ni, it, mss) for ni in (1, 2, 5, 100, 1000) for it in (0, 1, 3, 10) for mss in (False, True)]
    few_opts = [(1, 1, False), (2, 3, True), (5, 10, False), (100, 3, True), (1000, 1, False), (3, 0, True)]
    rates = [5e-4, 1e-3, 1e-5]
    n_calls, outcomes = 0, {}
    for ii, (name, kind, ts) in enumerate(ins):
        leaves = ts.num_samples
        opts_list = full_opts if (kind == "sim" or (not quick and leaves <= 4)) else few_opts
        ts_in = strip_mutation_times(ts)
        for oi, (ni, it, mss) in enumerate(opts_list):
            mu = rates[(ii + oi) % 3]
            opts = {"num_intervals": ni, "num_iterations": it, "match_segregating_sites": mss}
            key = f"{name}|mu={mu}|{ni}|{it}|{mss}"
            desc = {"input": name, "mutation_rate": mu, **opts, "seed": seed,
                    "ts": bounded_api.ts_to_json(ts_in) if ts_in.num_nodes <= 12 else f"{ts_in.num_nodes} nodes (regenerate from name)"}
            n_calls += 1
            observed_breaks.clear()
            try:
                with warnings.catch_warnings():
                    warnings.simplefilter("ignore")
                    out = rescale_tree_sequence(ts_in, mu, **opts)
            except Exception as e:  # noqa: BLE001 - the exception is the observation
                msg = f"{type(e).__name__}: {e}"
                if isinstance(e, AssertionError) and "Use fewer rescaling intervals" in str(e):
                    clause = "known-use-fewer-rescaling-intervals-assert"
                elif (isinstance(e, tskit.LibraryError) and "TSK_ERR_BAD_NODE_TIME_ORDERING" in str(e)
                      and degenerate_interval_seen()):
                    clause = "known-mutation-free-interval-collapses-node-times"
                else:
                    clause = "returns-valid-tree-sequence"
                outcomes[clause + " (raised)"] = outcomes.get(clause + " (raised)", 0) + 1
                if clause.startswith("known-") and outcomes[clause + " (raised)"] > 6:
                    continue  # keep a handful of replayable examples per known defect, count the rest in the notes
                rep.case(clause, False, key=key, input=desc, observed=msg[:200], expected="returns a tree sequence")
                continue
            outcomes["returned"] = outcomes.get("returned", 0) + 1
            check_output(rep, key, desc, ts_in, out, opts)
    rep.space = ("simplified inputs with all samples at time 0: small msprime simulations (some with rescaled input "
                 "times), all tree shapes on <= 4 (5) leaves with random mutations incl. above the root, two-root "
                 "inputs  x num_intervals x num_iterations x match_segregating_sites x mutation_rate")
    rep.bound = (f"{len(ins)} inputs (<= {max(t.num_nodes for _, _, t in ins)} nodes, <= "
                 f"{max(t.num_trees for _, _, t in ins)} trees), {n_calls} calls; outcomes {outcomes}")
    rep.exhaustive = False
    rep.notes.append(f"outcomes of the {n_calls} calls: {outcomes} (known- clauses report at most 6 examples each)")


if __name__ == "__main__":
    bounded_api.main(run)
