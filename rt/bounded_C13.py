"""
Bounded stand-in (G4) for C13 -- "maximization picks ordered grid timepoints by the documented rule".

Contract clauses evaluated on the REAL `tsdate.maximization` (public API, `return_fit=True`), observed through
`fit.posterior_mean` (the assignment before the branch-length constraint), `fit.inside` and the returned
`nodes_time`.  Every clause is evaluated once per (input, probability space) and covers all nodes of the input:

  assigned-times-are-prior-timepoints         every non-sample node's assigned time is bit-equal to one of the
                                              prior's timepoints
  no-node-later-than-any-parent               assigned[c] <= assigned[p] for every edge whose child is a non-sample
  parentless-node-takes-argmax-inside         a non-sample node that is never a child sits at a maximiser of its
                                              inside row
  other-node-takes-constrained-argmax         every other non-sample node u sits at an index i <= min_p idx[p] that
                                              maximises  inside[u][i] * prod_{edges e=(p_e,u)} Poisson(m_e ;
                                              (t[idx[p_e]] - t[i] + eps) * mu * span_e)
  returned-time-is-assignment-unless-pushed   returned nodes_time[u] >= assigned[u]; equal to it whenever assigned[u]
                                              exceeds every child's returned time + min_branch_length (1e-8), and
                                              strictly above every child otherwise

The rule is evaluated declaratively per node from the final assignment of its parents (no traversal order), in the
log domain, with an independent Poisson log-pmf (m log(lam) - lam - lgamma(m+1); lam = 0 -> 0 or -inf), an
independent per-edge mutation tally (site position inside [left, right) of an edge whose child is the mutation's
node) and the edge table read directly from tskit.  `inside[u]` is the run's own `fit.inside[u]` (the statement
is relative to "its inside value"); that the inside values themselves are right is C10's subject.
Ties: the chosen index only has to reach the maximum within 1e-9 in the log domain (= 1e-9 relative on the
product); this is the "up to ties" latitude of the statement, and covers the rounding difference between tsdate's
max-normalised products and the oracle's log sums (observed differences are < 1e-12).

Input space / bound
  single trees   rooted leaf-labelled trees incl. polytomies (rt.inputs.all_tree_shapes) x mutation-count patterns
                 (all 1; seeded draws from {0,1,2,3,6}; seeded sparse draws from {0,0,0,1,4}) x rotating
                 (grid, prior kind) from 4 grids x {lognorm, gamma, synthetic-with-zeros}
                 quick: all 31 trees with 2-4 leaves + 20 seeded 5-leaf trees;  thorough: all 267 trees with 2-5 leaves
  ARGs           msprime simulations with recombination 1e-6..5e-6 (nodes with several parents and several edges to
                 the same parent), 3-7 haploid or 3 diploid samples, 20 kb, plus collapsed-polytomy single trees
                 (mutations thinned to 1 in 8);
                 quick: 14 inputs (<= 50 nodes);  thorough: 200 inputs.  Priors: tsdate.build_prior_grid with 4-8
                 quantile timepoints or an explicit grid, lognorm / gamma.
  options        both probability spaces for every input; eps rotating over {1e-8 (default), 1e-3, 1.0, 0}; mutation
                 rate rotating over {nominal, 4 x nominal}.
  `exhaustive` is False (the ARG part is sampled; the single-tree part of the thorough tier is exhaustive in trees).

Inputs whose model is infeasible (no assignment with positive weight: happens only with eps = 0, where an edge
carrying mutations cannot have zero length; decided by an independent smallest-admissible-index pass, see
`model_feasible`) are skipped and counted in the notes - the rule is undefined there (tsdate then produces NaN
inside rows or raises "dangling nodes").  On a feasible model an exception or a NaN inside row is a failure, with
one exception: a LINEAR-space run during which numpy reported floating-point under/overflow (recorded through
np.errstate(under="call", over="call")) and whose inside rows contain NaN has left the double range (the
documented limitation of linear space); "its inside value" is then NaN, the rule is undefined, and the run is
skipped and counted (seen only on single trees carrying several hundred mutations, which are thinned here).

NOT covered: inputs with more than ~50 nodes; grids with more than ~12 points; historical samples (rejected by the
discrete methods); correctness of the inside values (C10/C12); the least-squares part of the constraint (C03/C27).
"""
import copy
import math
import warnings

import numpy as np

from rt import bounded_api, inputs

TIE_TOL = 1e-9
MIN_BRANCH_LENGTH = 1e-8   # tsdate's documented default, not passed explicitly

GRIDS = {
    "A": np.array([0.0, 100.0, 200.0, 300.0, 400.0]),
    "B": np.array([0.0, 1.0, 10.0, 100.0, 1000.0]),
    "C": np.array([0.0, 30.0, 30.5, 120.0, 121.0, 500.0]),
    "Q": 4,
}
PRIOR_KINDS = ("lognorm", "gamma", "synthetic")


# ------------------------------------------------------------------------------- specification side
def log_poisson(m, lam):
    """log Poisson(m; lam), vectorised over lam >= 0; lam = 0 gives 0 (m = 0) or -inf (m > 0)."""
    lam = np.asarray(lam, dtype=float)
    out = np.empty_like(lam)
    pos = lam > 0
    out[pos] = m * np.log(lam[pos]) - lam[pos] - math.lgamma(m + 1)
    out[~pos] = 0.0 if m == 0 else -np.inf
    return out


def edge_records(ts):
    """[(parent, child, span, mutations on that edge)] - tallied from site positions, not from mutation.edge."""
    left, right = ts.edges_left, ts.edges_right
    by_child = {}
    for e in range(ts.num_edges):
        by_child.setdefault(int(ts.edges_child[e]), []).append(e)
    count = np.zeros(ts.num_edges, dtype=int)
    pos = ts.sites_position
    for s, node in zip(ts.mutations_site, ts.mutations_node):
        x = pos[s]
        for e in by_child.get(int(node), []):
            if left[e] <= x < right[e]:
                count[e] += 1
    return [(int(ts.edges_parent[e]), int(ts.edges_child[e]), float(right[e] - left[e]), int(count[e]))
            for e in range(ts.num_edges)]


def model_feasible(ts, t, prior_rows, eps):
    """Does ANY assignment have positive weight?  (prior > 0 at the chosen index, parent index >= child index on
    every edge, and - only when eps == 0 - a strictly older timepoint across an edge that carries mutations.)
    All constraints are lower bounds, so giving every node its smallest admissible index (children first) is
    feasible iff anything is."""
    samples = set(int(s) for s in ts.samples())
    down = {}
    for p, c, _, m in edge_records(ts):
        down.setdefault(p, []).append((c, m))
    lo = {}

    def smallest(u):
        if u in lo:
            return lo[u]
        if u in samples:
            lo[u] = 0
            return 0
        need = 0
        for c, m in down.get(u, []):
            lc = smallest(c)
            if lc is None:
                lo[u] = None
                return None
            need = max(need, lc + 1 if (eps == 0 and m > 0) else lc)
        ok = [i for i in range(need, len(t)) if prior_rows[u][i] > 0]
        lo[u] = ok[0] if ok else None
        return lo[u]

    return all(smallest(u) is not None for u in range(ts.num_nodes))


def evaluate_rule(ts, t, assigned, inside_rows, log_space, mu, eps, returned_time):
    """Return {clause: (ok, detail)} and whether some node had a real choice."""
    samples = set(int(s) for s in ts.samples())
    nonsample = [u for u in range(ts.num_nodes) if u not in samples]
    edges = edge_records(ts)
    up = {}
    for p, c, span, m in edges:
        up.setdefault(c, []).append((p, span, m))
    res = {}
    # --- clause 1: values are prior timepoints
    idx = {}
    bad = []
    for u in nonsample:
        hit = np.nonzero(t == assigned[u])[0]
        if len(hit) == 1:
            idx[u] = int(hit[0])
        else:
            bad.append((u, float(assigned[u])))
    res["assigned-times-are-prior-timepoints"] = (not bad, bad)
    if bad:
        return res, False
    # --- clause 2: order
    bad = [(p, c) for p, c, _, _ in edges if c in idx and p in idx and idx[c] > idx[p]]
    bad += [(p, c) for p, c, _, _ in edges if c in idx and p not in idx]      # a sample as a parent: no rule applies
    res["no-node-later-than-any-parent"] = (not bad, bad)
    # --- clauses 3, 4
    real_choice = False
    bad_root, bad_other = [], []
    for u in nonsample:
        row = np.asarray(inside_rows[u], dtype=float)
        with np.errstate(divide="ignore"):
            lrow = row if log_space else np.log(row)
        if u not in up:
            obj = lrow
        else:
            if any(p not in idx for p, _, _ in up[u]):
                continue
            ymin = min(idx[p] for p, _, _ in up[u])
            obj = lrow[: ymin + 1].copy()
            for p, span, m in up[u]:
                obj = obj + log_poisson(m, (t[idx[p]] - t[: ymin + 1] + eps) * mu * span)
        best = np.max(obj)
        chosen = idx[u]
        if chosen >= len(obj):
            ok = False                                 # later than its youngest parent
        elif best == -np.inf:
            ok = True                                  # nothing to choose between
        else:
            ok = bool(obj[chosen] >= best - TIE_TOL)
            if len(obj) > 1 and np.sum(obj >= best - TIE_TOL) == 1:
                real_choice = True
        if not ok:
            (bad_other if u in up else bad_root).append(
                {"node": u, "chosen": chosen, "objective_log": obj, "argmax": int(np.argmax(obj))})
    res["parentless-node-takes-argmax-inside"] = (not bad_root, bad_root[:3])
    res["other-node-takes-constrained-argmax"] = (not bad_other, bad_other[:3])
    # --- clause 5: returned times
    down = {}
    for p, c, _, _ in edges:
        down.setdefault(p, []).append(c)
    bad = []
    for u in nonsample:
        T, a = returned_time[u], assigned[u]
        kids = down.get(u, [])
        floor = max((returned_time[c] + MIN_BRANCH_LENGTH for c in kids), default=-np.inf)
        if not T >= a:
            bad.append((u, float(T), float(a), "below assignment"))
        elif a > floor and T != a:
            bad.append((u, float(T), float(a), "moved although above all children"))
        elif any(not T > returned_time[c] for c in kids):
            bad.append((u, float(T), float(a), "not above a child"))
    res["returned-time-is-assignment-unless-pushed"] = (not bad, bad[:5])
    return res, real_choice


# ------------------------------------------------------------------------------- inputs
def mutation_pattern(kind, ts_plain, rng):
    root = ts_plain.first().root
    children = [u for u in range(ts_plain.num_nodes) if u != root]
    if kind == "ones":
        return {u: 1 for u in children}
    if kind == "mixed":
        pat = {u: int(rng.choice([0, 1, 2, 3, 6])) for u in children}
        pat[root] = 1
    else:
        pat = {u: int(rng.choice([0, 0, 0, 1, 4])) for u in children}
    return {u: k for u, k in pat.items() if k > 0}


def make_prior(ts, grid, kind, rng, ne=100):
    import tsdate
    from tsdate.node_time_class import NodeTimeValues
    with warnings.catch_warnings():
        warnings.simplefilter("ignore")
        base = tsdate.build_prior_grid(ts, population_size=ne, timepoints=grid,
                                       prior_distribution="gamma" if kind == "gamma" else "lognorm")
    if kind != "synthetic":
        return base
    t = np.array(base.timepoints, dtype=float)
    pr = NodeTimeValues(ts.num_nodes, np.array(base.nonfixed_nodes), t)
    for u in base.nonfixed_nodes:
        row = rng.uniform(0.05, 1.0, size=len(t))
        row[int(rng.integers(0, len(t) - 1))] = 0.0
        pr[u] = row
    return pr


SIM_MU = 1e-5


def arg_inputs(seed, count, rng):
    """Multi-tree inputs: nodes with several parents.  (name, ts, nominal mutation rate)."""
    out = []
    i = 0
    while len(out) < count:
        kind = i % 5
        s = seed * 1000 + i
        if kind == 4:
            ts = inputs.with_polytomy(s).simplify()   # drop the node left without edges
            keep = np.arange(ts.num_sites) % 8 == 0     # thin the mutations (the shared generator uses mu = 2e-4)
            ts = ts.delete_sites(np.nonzero(~keep)[0])
            name = f"polytomy{i}"
        elif kind == 3:
            ts = inputs.sim(s, n=3, ploidy=2, rec=2e-6, mu=SIM_MU)
            name = f"diploid{i}"
        else:
            n = 3 + (i % 5)
            rec = (1e-6, 3e-6, 5e-6)[kind]
            ts = inputs.sim(s, n=n, rec=rec, mu=SIM_MU)
            name = f"sim{i}_n{n}_rec{rec}"
        i += 1
        if ts.num_nodes > 50 or ts.num_mutations == 0:
            continue
        out.append((name, ts, 2.5e-5 if kind == 4 else SIM_MU))
    return out


# ------------------------------------------------------------------------------- driver
def run_input(rep, state, name, ts, pr, mu, eps, desc):
    import tsdate
    t = np.array(pr.timepoints, dtype=float)
    key = name
    rows = {int(u): np.array(pr[u], dtype=float) for u in pr.nonfixed_nodes}
    if not model_feasible(ts, t, rows, eps):
        state["skipped_infeasible"] += 1      # no assignment has positive weight: the rule is undefined
        return
    for space in ("linear", "logarithmic"):
        d = dict(desc, probability_space=space, eps=eps, mutation_rate=mu, timepoints=t)
        underflow = []
        old_call = np.seterrcall(lambda kind, flag: underflow.append(kind))
        try:
            with warnings.catch_warnings(), np.errstate(under="call", over="call"):
                warnings.simplefilter("ignore")
                dated, fit = tsdate.maximization(ts, mutation_rate=mu, priors=copy.deepcopy(pr), eps=eps,
                                                 probability_space=space, return_fit=True)
        except Exception as e:
            rep.case("other-node-takes-constrained-argmax", False, key=key, input=d,
                     observed=f"{type(e).__name__}: {e}", expected="no exception")
            continue
        finally:
            np.seterrcall(old_call)
        inside = {u: np.array(fit.inside[u], dtype=float) for u in rows}
        if space == "linear" and underflow and any(np.any(np.isnan(r)) for r in inside.values()):
            state["skipped_linear_underflow"] += 1    # numpy reported under/overflow and an inside row is 0/0:
            continue                                   # linear space left the double range, "its inside value" is NaN
        res, real = evaluate_rule(ts, t, np.array(fit.posterior_mean, dtype=float), inside,
                                  space == "logarithmic", mu, eps, np.array(dated.nodes_time))
        state["runs"] += 1
        for clause, (ok, detail) in res.items():
            rep.case(clause, ok, key=key, input=d, observed=detail if not ok else None,
                     expected="see clause statement" if not ok else None, nontrivial=real)


def run(req, rep):
    tier, seed = req["tier"], int(req["seed"])
    thorough = tier == "thorough"
    rng = np.random.default_rng(seed)
    state = {"runs": 0, "skipped_infeasible": 0, "skipped_linear_underflow": 0, "multi_parent_nodes": 0,
             "arg_nodes": 0}
    trees = [s for n in (2, 3, 4) for s in inputs.all_tree_shapes(n)]
    five = list(inputs.all_tree_shapes(5))
    trees += five if thorough else [five[i] for i in sorted(rng.choice(len(five), size=20, replace=False))]
    combos = [(g, p) for g in GRIDS for p in PRIOR_KINDS]
    eps_cycle = [1e-8, 1e-3, 1e-8, 1.0, 0.0]
    n_arg = 200 if thorough else 14
    rep.space = ("maximization runs in both probability spaces on (a) single trees: leaf-labelled shapes incl. "
                 "polytomies x mutation patterns x (grid, prior) x eps, (b) simulated multi-tree ARGs with "
                 "multi-parent nodes x priors x eps x mutation rate")
    rep.bound = (f"(a) {len(trees)} trees with <= 5 leaves x 3 mutation patterns x "
                 f"{'4' if thorough else '2'} rotating (grid, prior) combinations, grids of 5-12 points; "
                 f"(b) {n_arg} simulated inputs with <= 50 nodes")
    rep.exhaustive = False
    counter = 0
    for ti, shape in enumerate(trees):
        plain = inputs.tree_to_ts(shape)
        for pi, kind in enumerate(("ones", "mixed", "sparse")):
            muts = mutation_pattern(kind, plain, rng)
            for j in range(4 if thorough else 2):
                g, p = combos[(ti * 5 + pi * 3 + j * 7) % len(combos)]
                counter += 1
                eps = eps_cycle[counter % 5]
                L, mu = ((10.0, 1e-3), (3.5, 4e-3))[counter % 2]
                ts = inputs.tree_to_ts(shape, sequence_length=L, mutations=muts)
                pr = make_prior(ts, GRIDS[g], p, rng)
                name = f"tree{shape}|{kind}:{sorted(muts.items())}|L{L}|mu{mu}|{g}|{p}|eps{eps}"
                desc = {"shape": shape, "mutations": {str(k): v for k, v in muts.items()}, "sequence_length": L,
                        "prior": p, "prior_rows": {str(int(u)): np.array(pr[u]) for u in pr.nonfixed_nodes}}
                run_input(rep, state, name, ts, pr, mu, eps, desc)
    for k, (name, ts, mu0) in enumerate(arg_inputs(seed, n_arg, rng)):
        grid = [4, 6, 8, np.array([0.0, 20.0, 60.0, 150.0, 400.0, 1200.0])][k % 4]
        kind = ("lognorm", "gamma")[(k // 2) % 2]
        eps = eps_cycle[k % 5]
        mu = mu0 * (4 if k % 3 == 2 else 1)
        pr = make_prior(ts, grid, kind, rng)
        parents = {}
        for p_, c_ in zip(ts.edges_parent, ts.edges_child):
            parents.setdefault(int(c_), set()).add(int(p_))
        state["multi_parent_nodes"] += sum(1 for c_, ps in parents.items() if len(ps) > 1 and not ts.node(c_).is_sample())
        state["arg_nodes"] += ts.num_nodes
        full = f"{name}|grid{k % 4}|{kind}|mu{mu}|eps{eps}"
        desc = {"generator": name, "seed": seed, "prior": kind,
                "grid": grid if isinstance(grid, int) else grid.tolist(), "population_size": 100,
                "ts": bounded_api.ts_to_json(ts)}
        run_input(rep, state, full, ts, pr, mu, eps, desc)
    rep.notes.append(f"{state['runs']} (input, space) runs evaluated; {state['skipped_infeasible']} inputs skipped "
                     f"because no assignment has positive weight (infeasible eps = 0 model); "
                     f"{state['skipped_linear_underflow']} linear-space runs skipped because numpy reported "
                     f"under/overflow and an inside row became NaN; the {n_arg} ARG inputs have "
                     f"{state['arg_nodes']} nodes in total, {state['multi_parent_nodes']} non-sample nodes with "
                     f"more than one distinct parent")


if __name__ == "__main__":
    bounded_api.main(run)
