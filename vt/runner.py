"""Check driver: runs the generators planned for one property, decides, writes evidence."""
import fnmatch
import importlib
import json
import os
import subprocess
import sys
import tempfile
import time

from . import REPO, VENV_PY, VERIF, extract

# evidence/ and replays/ are written under /verif; tools/try_seed.sh redirects them so that runs against a seeded
# scratch copy never overwrite the evidence of the real tree
OUT = os.environ.get("VERIF_OUT") or VERIF

EXIT_OK, EXIT_VIOLATION, EXIT_UNDECIDED, EXIT_CRASH = 0, 1, 2, 3


class Ob:
    """Uniform record of one obligation / bounded case, whatever produced it."""

    def __init__(self, name, generator, kind, verdict, backend="", solver_s=0.0, clause="", func="",
                 line=0, model=None, reason="", smt2=None, detail=None):
        self.name = name
        self.generator = generator
        self.kind = kind
        self.verdict = verdict
        self.backend = backend
        self.solver_s = solver_s
        self.clause = clause
        self.func = func
        self.line = line
        self.model = model
        self.reason = reason
        self.smt2 = smt2
        self.detail = detail
        self.replay = None
        self.known = None

    def to_json(self):
        d = {"name": self.name, "generator": self.generator, "kind": self.kind, "verdict": self.verdict,
             "backend": self.backend, "solver_s": round(self.solver_s, 3)}
        if self.clause:
            d["clause"] = self.clause[:400]
        if self.reason:
            d["reason"] = self.reason[:300]
        if self.known:
            d["known_finding"] = self.known
        return d


PROVED = {"proved", "cover-ok", "bounded-pass"}
FAILED = {"refuted", "refuted-candidate", "bounded-fail"}


class Ctx:
    def __init__(self, pid, tier, seed):
        self.pid = pid
        self.tier = tier
        self.seed = seed
        self.obs = []
        self.functions = []
        self.assumptions = []
        self.trusted = []
        self.notes = []
        self.bounded_parts = []
        self.samples = []
        self.timeout_s = float(os.environ.get("VT_TIMEOUT_S") or (150 if tier == "quick" else 400))
        self.repo = os.environ.get("VERIF_REPO", REPO)

    def add_assumption(self, a):
        if a not in self.assumptions:
            self.assumptions.append(a)

    def add_trusted(self, a):
        if a not in self.trusted:
            self.trusted.append(a)


# ---------------------------------------------------------------------------------------- G1
ALL_CONTRACTS = ("contracts.variational", "contracts.util", "contracts.phasing", "contracts.rescaling",
                 "contracts.demography", "contracts.discrete", "contracts.approx")


def run_g1(ctx, names, registry_modules=ALL_CONTRACTS):
    from contracts.base import REGISTRY
    from . import g1, smt
    for m in tuple(registry_modules) + ALL_CONTRACTS:
        importlib.import_module(m)
    all_obs = []
    units = []
    for name in names:
        c = REGISTRY[name]
        try:
            out = g1.generate(c, REGISTRY, props=[ctx.pid], tier=ctx.tier)
        except (g1.Attach, LookupError, FileNotFoundError) as e:
            ctx.obs.append(Ob(f"{name}:attach", "G1", "attach", "does-not-attach", reason=str(e), func=name))
            continue
        ctx.functions.append({**out.fn.describe(), "mode": c.mode, "paths": out.npaths,
                              "loops_with_invariant": sorted(c.loops)})
        for n in out.notes:
            ctx.add_assumption(n)
        if c.notes:
            ctx.add_assumption(f"{name}: {c.notes}")
        if out.error:
            ctx.obs.append(Ob(f"{name}:attach", "G1", "attach", "does-not-attach", reason=out.error, func=name))
        if not out.obligations and not out.error:
            ctx.obs.append(Ob(f"{name}:no-obligations", "G1", "vacuity", "unknown",
                              reason="zero obligations generated", func=name))
        units.append((c, out))
        all_obs.extend(out.obligations)
    if all_obs:
        results = smt.discharge(all_obs, timeout_s=ctx.timeout_s)
        byname = {}
        for (c, out) in units:
            for o in out.obligations:
                byname[o.name] = (c, out)
        for r in results:
            c, out = byname[r.name]
            ob = Ob(r.name, "G1", r.kind, r.verdict, r.backend, r.seconds, r.text, r.func, r.lineno, r.model,
                    r.reason, r.smt2)
            ob.contract = c
            ob.inputs = out.inputs
            ctx.obs.append(ob)
    from .vc_call import NUMPY_ASSUMED
    ctx.add_trusted("A-NUMPY: assumed contracts of numpy primitives used by the extracted code: "
                    + "; ".join(sorted(NUMPY_ASSUMED)))
    ctx.add_trusted("z3 5.1 (python API) and, for obligations it leaves unknown, cvc5 1.0.3 / z3 4.8.12")
    ctx.add_trusted("the AST->SMT encoding of vt/vcgen.py (int32/int64 as mathematical integers; "
                    "mode real: float64 as reals; mode fp64: IEEE binary64 with arithmetic abstracted to "
                    "uninterpreted functions constrained only by bit-precisely proved lemmas)")
    return units


# ---------------------------------------------------------------------------------------- replay
# ---------------------------------------------------------------------------------------- G2
G2_SCALES = {"quick": [2.9e-13, 1e-3, 977.0, 4.1e9], "thorough": [2.9e-13, 7e-7, 1e-3, 1.0 / 3, 977.0, 12345.678, 1e6, 4.1e9]}


def homog_request(ctx, c, n):
    fn = extract.get_function(c.name)
    sig = extract.numba_signature(fn.node) if c.types is None else (None, c.types)
    params = [a.arg for a in fn.node.args.args]
    def inst(spec):  # a polymorphic dimension variable is replayed at T
        if isinstance(spec, str):
            import re
            for p in c.poly:
                spec = re.sub(rf"\b{re.escape(p)}\b", "T", spec)
            return spec
        return [inst(x) if not isinstance(x, int) else x for x in spec]
    return {"function": c.name, "params": params, "types": [list(t) for t in sig[1]],
            "dims": {k: inst(v) for k, v in c.params.items()}, "returns": inst(c.returns), "gen": c.gen, "seed": ctx.seed, "n": n, "scales": G2_SCALES[ctx.tier],
            "axes": list(c.axes), "rtol": 1e-6}


def run_g2(ctx, names=None, homogeneity=True):
    """Dimensional contracts: type-check the real source (proof), then replay homogeneity on the real function."""
    import contracts.dims  # noqa: F401
    from . import dim
    names = names or [n for n, c in dim.DIM_REGISTRY.items() if ctx.pid in c.props]
    pending = []
    for name in names:
        c = dim.DIM_REGISTRY[name]
        try:
            res = dim.check(c)
        except (LookupError, FileNotFoundError) as e:
            ctx.obs.append(Ob(f"{name}:attach", "G2", "attach", "does-not-attach", reason=str(e), func=name))
            continue
        ctx.functions.append({**res.fn.describe(), "mode": "dimension (T, L) type check, real arithmetic",
                              "paths": 1, "loops_with_invariant": []})
        if res.error:
            ctx.obs.append(Ob(f"{name}:attach", "G2", "attach", "does-not-attach", reason=res.error, func=name))
        elif not res.obligations:
            ctx.obs.append(Ob(f"{name}:no-obligations", "G2", "vacuity", "unknown",
                              reason="zero obligations generated", func=name))
        refuted = []
        for o in res.obligations:
            ob = Ob(o["name"], "G2", "dim-" + o["kind"], o["verdict"], backend="z3 linear real arithmetic (incremental)",
                    solver_s=res.solver_s / max(len(res.obligations), 1), clause=o["text"], func=name, line=o["line"],
                    reason="" if o["verdict"] == "proved" else
                    "the dimensions of the operands cannot be made equal: this operation is not invariant under a "
                    "change of units, given the dimensions the contract assigns to the parameters")
            ctx.obs.append(ob)
            if o["verdict"] == "refuted":
                refuted.append(ob)
        for a in res.assumed_callees:
            ctx.add_assumption(f"A-DIM-CALLEE: {a} takes and returns pure numbers (dimensional contract assumed, body not checked)")
        for k, why in c.strong.items():
            ctx.add_assumption(f"A-DIM-FLOW: {name}: local '{k}' is re-typed flow-sensitively -- {why}")
        if c.notes:
            ctx.notes.append(f"{name}: {c.notes}")
        if c.gen and (homogeneity or refuted):
            pending.append((c, refuted))
    if not pending:
        return
    n = 60 if ctx.tier == "quick" else 600
    batch = venv_run("rt.homog", {"batch": [homog_request(ctx, c, n) for c, _ in pending]}, timeout=1800)
    for c, refuted in pending:
        name = c.name
        r = batch.get("batch", {}).get(name) or {"error": batch.get("error", "no result")}
        fails = r.get("failures") or []
        if "error" in r:
            ctx.obs.append(Ob(f"{name}:homogeneity-replay", "G4", "bounded", "unknown", reason=r["error"], func=name))
            continue
        hob = Ob(f"{name}:homogeneity-replay", "G4", "bounded", "bounded-fail" if fails else "bounded-pass",
                 backend="cpython/numpy on the real function", func=name,
                 clause=f"f(c^dim x) == c^dim f(x) on {r['cases']} generated inputs ({r['returned_normally']} "
                        f"returning normally) x scales {r['scales']}")
        if fails:
            hob.replay = {"reproduced": True, "origin": "generator", "case": fails[0]}
            hob.reason = (f"scale {fails[0]['scale']}: {str(fails[0]['scaled'])[:120]} vs unscaled "
                          f"{str(fails[0]['unscaled'])[:120]}")
            for ob in refuted:
                ob.replay = {"reproduced": True, "origin": "generator (homogeneity replay)", "case": fails[0]}
        else:
            for ob in refuted:
                ob.replay = {"reproduced": False, "tried": r["cases"], "scales": r["scales"]}
        ctx.obs.append(hob)
        ctx.bounded_parts.append({"contract": name + " (homogeneity replay)",
                                  "space": f"generator {c.gen} (rt/homog.py, rt/gens.py), seed {ctx.seed}, scales {r['scales']}",
                                  "evaluations": r["cases"] * (len(r["scales"]) + 1), "valid": r["returned_normally"],
                                  "exhaustive": False})


def venv_run(module, request, timeout=600, jit=False):
    with tempfile.NamedTemporaryFile("w", suffix=".json", delete=False) as f:
        json.dump(request, f)
        path = f.name
    env = dict(os.environ)
    env["PYTHONPATH"] = os.environ.get("VERIF_REPO", REPO) + os.pathsep + VERIF
    if not jit:
        env["NUMBA_DISABLE_JIT"] = "1"
    env.setdefault("NUMBA_CACHE_DIR", os.path.join(VERIF, ".cache", "numba"))
    env["PYTHONHASHSEED"] = env.get("PYTHONHASHSEED", "0")
    try:
        p = subprocess.run([VENV_PY, "-m", module, path], capture_output=True, text=True, timeout=timeout,
                           cwd=VERIF, env=env)
        lines = [ln for ln in p.stdout.splitlines() if ln.startswith("{")]
        if not lines:
            return {"error": f"no output (rc={p.returncode}): {p.stderr[-800:]}"}
        return json.loads(lines[-1])
    except subprocess.TimeoutExpired:
        return {"error": "timeout"}
    finally:
        os.unlink(path)


def contract_request(c, cases):
    fn = extract.get_function(c.name)
    return {"function": c.name, "params": c.params, "types": [list(t) for t in c.types],
            "requires": c.requires, "ensures": [[cl.name, cl.expr] for cl in c.ensures_c],
            "spec_src": getattr(c, "spec_src", {}), "consts": {**extract.module_constants(fn.module), **c.consts},
            "raises": list(c.raises), "cases": cases, "mode": c.mode}


def replay_g1(ctx, ob):
    """Try to turn a refuted obligation into a failing input of the real function."""
    c = ob.contract
    cases = []
    if ob.model and ob.kind in ("post", "assert", "bounds", "side", "pre-call") and "_error" not in ob.model:
        cases.append({"args": ob.model, "origin": "solver-model"})
    gen = getattr(c, "gen", None)
    if gen:
        r = venv_run("rt.gens", {"gen": gen, "seed": ctx.seed, "n": 400 if ctx.tier == "quick" else 4000,
                                 "hint": ob.model or {}})
        for a in r.get("cases", []):
            cases.append({"args": a, "origin": "generator"})
    if not cases:
        return None
    res = venv_run("rt.replay", contract_request(c, cases))
    if "error" in res:
        return {"error": res["error"]}
    for case, r in zip(cases, res["results"]):
        if r.get("status") in ("violated",) or (r.get("status") == "exception" and r.get("failed")):
            return {"reproduced": True, "origin": case["origin"], "case": r}
    return {"reproduced": False, "tried": len(cases),
            "valid": sum(1 for r in res["results"] if r.get("status") not in ("invalid",))}


def bounded_contract(ctx, name, n=None):
    """Function-level bounded stand-in / encoder cross-check: the contract evaluated on the real function."""
    from contracts.base import REGISTRY
    c = REGISTRY[name]
    gen = getattr(c, "gen", None)
    if not gen:
        return
    n = n or (300 if ctx.tier == "quick" else 3000)
    r = venv_run("rt.gens", {"gen": gen, "seed": ctx.seed, "n": n, "hint": {}})
    cases = [{"args": a} for a in r.get("cases", [])]
    if not cases:
        ctx.obs.append(Ob(f"{name}:concrete-contract", "G4", "bounded", "unknown", reason=str(r.get("error", "no cases"))))
        return
    res = venv_run("rt.replay", contract_request(c, cases))
    if "error" in res:
        ctx.obs.append(Ob(f"{name}:concrete-contract", "G4", "bounded", "unknown", reason=res["error"]))
        return
    valid = [x for x in res["results"] if x.get("status") != "invalid"]
    bad = [x for x in valid if x.get("status") == "violated" or (x.get("status") == "exception" and x.get("failed"))]
    if not valid:
        ctx.obs.append(Ob(f"{name}:concrete-contract", "G4", "bounded", "unknown",
                          reason="vacuous: no generated input satisfies the precondition: " + str(res["results"][0].get("why"))))
        return
    ob = Ob(f"{name}:concrete-contract", "G4", "bounded", "bounded-fail" if bad else "bounded-pass",
            backend="cpython/numpy on the real function", clause=f"{len(valid)} valid generated inputs of {len(cases)}",
            func=name)
    if bad:
        ob.replay = {"reproduced": True, "origin": "generator", "case": bad[0]}
        ob.reason = "failed clauses: " + ", ".join(bad[0].get("failed", []))[:200]
    ctx.obs.append(ob)
    ctx.bounded_parts.append({"contract": name, "space": f"generator {gen} (rt/gens.py), seed {ctx.seed}",
                              "evaluations": len(cases), "valid": len(valid), "exhaustive": False})
    if valid and len(ctx.samples) < 3:
        ctx.samples.append({"concrete_case_of": name, "args": valid[0]["args"], "status": valid[0]["status"]})


def bounded_if_present(ctx, pid=None, **kw):
    pid = pid or ctx.pid
    if os.path.exists(os.path.join(VERIF, "rt", f"bounded_{pid}.py")):
        return bounded_run(ctx, f"rt.bounded_{pid}", **kw)
    ctx.notes.append(f"no bounded stand-in module for {pid}")
    return None


def bounded_run(ctx, module, params=None, timeout=None, jit=False):
    """Run a bounded stand-in module (rt/bounded_*.py) on the real code; one Ob per contract clause."""
    timeout = timeout or (900 if ctx.tier == "quick" else 3600)
    res = venv_run(module, {"tier": ctx.tier, "seed": ctx.seed, "params": params or {}}, timeout=timeout, jit=jit)
    short = module.split(".")[-1]
    if "error" in res and not res.get("clauses"):
        ctx.obs.append(Ob(f"{short}:run", "G4", "bounded", "unknown", reason=str(res["error"])[:300] + str(res.get("trace", ""))[-300:]))
        return res
    fails = {}
    for f in res.get("failures", []):
        fails.setdefault(f["clause"], f)
    for clause, cnt in res.get("clauses", {}).items():
        bad = cnt.get("fail", 0)
        ob = Ob(f"{short}:{clause}", "G4", "bounded", "bounded-fail" if bad else "bounded-pass",
                backend="real code under /venv/bin/python" + ("" if jit else " (NUMBA_DISABLE_JIT=1)"),
                clause=f"{cnt.get('pass', 0)} passed, {bad} failed", func=module)
        if bad:
            ob.replay = {"reproduced": True, "origin": "bounded-enumeration", "case": fails.get(clause)}
            ob.reason = json.dumps(fails.get(clause), default=str)[:300]
        ctx.obs.append(ob)
    if "error" in res:
        ctx.obs.append(Ob(f"{short}:run", "G4", "bounded", "unknown", reason=str(res["error"])[:300]))
    if not res.get("clauses"):
        ctx.obs.append(Ob(f"{short}:run", "G4", "bounded", "unknown", reason="no cases evaluated"))
    ctx.bounded_parts.append({"contract": module, "space": res.get("space", ""), "bound": res.get("bound", ""),
                              "evaluations": res.get("evaluations", 0),
                              "distinct_nontrivial": res.get("distinct_nontrivial", 0),
                              "exhaustive": bool(res.get("exhaustive")), "wall_s": res.get("wall_s")})
    for smp in res.get("samples", [])[:2]:
        if len(ctx.samples) < 4:
            ctx.samples.append(smp)
    for n in res.get("notes", []):
        # notes of a bounded module are statements about what its run covered or excluded; the evidence schema wants
        # strings, some modules report structured notes
        ctx.add_assumption(n if isinstance(n, str) else f"{module} note: " + json.dumps(n, default=str)[:1500])
    return res


# ---------------------------------------------------------------------------------------- known findings
def load_known():
    path = os.path.join(VERIF, "KNOWN_FINDINGS.txt")
    known = []
    if os.path.exists(path):
        for line in open(path):
            line = line.strip()
            if line.startswith("known:"):
                head, _, text = line[len("known:"):].partition("::")
                kv = dict(tok.split("=", 1) for tok in head.split() if "=" in tok)
                known.append({"property": kv.get("property"), "obligation": kv.get("obligation", "*"),
                              "text": text.strip()})
    return known


def match_known(pid, ob, known):
    for k in known:
        if k["property"] == pid and fnmatch.fnmatch(ob.name, k["obligation"]):
            return k
    return None


# ---------------------------------------------------------------------------------------- decide + evidence
def finish(ctx, plan, t0):
    known = load_known()
    violations, unknowns, known_hits = [], [], []
    os.makedirs(os.path.join(OUT, "replays", ctx.pid), exist_ok=True)
    for ob in ctx.obs:
        if ob.verdict in FAILED:
            k = match_known(ctx.pid, ob, known)
            if k:
                ob.known = k["text"]
                known_hits.append((ob, k))
                continue
            if ob.replay is None and ob.generator == "G1":
                try:
                    ob.replay = replay_g1(ctx, ob)
                except Exception as e:  # replay is best effort
                    ob.replay = {"error": repr(e)}
            violations.append(ob)
        elif ob.verdict not in PROVED:
            unknowns.append(ob)
    lines = []
    for ob, k in known_hits:
        lines.append(f"KNOWN-FINDING: property={ctx.pid} {k['text']} [{ob.name}]")
    for n, ob in enumerate(violations):
        rp = os.path.join(OUT, "replays", ctx.pid, f"violation_{n}.json")
        reproduced = bool(ob.replay and ob.replay.get("reproduced"))
        with open(rp, "w") as f:
            json.dump({"property": ctx.pid, "obligation": ob.name, "generator": ob.generator, "kind": ob.kind,
                       "clause": ob.clause, "function": ob.func, "line": ob.line, "verdict": ob.verdict,
                       "backend": ob.backend, "solver_reason": ob.reason, "counter_model": ob.model,
                       "replay_on_real_code": ob.replay, "detail": ob.detail,
                       "smt2": (ob.smt2[:20000] if ob.smt2 else None)}, f, indent=1, default=str)
        rel = os.path.relpath(rp, OUT)
        lines.append(f"VIOLATION property={ctx.pid} replay={rel}" + ("" if reproduced else " no-failing-input-found"))
    nobs = len([o for o in ctx.obs])
    proved = len([o for o in ctx.obs if o.verdict in PROVED])
    if nobs == 0:
        code = EXIT_CRASH
        lines.append("CHECKER-ERROR: zero obligations generated")
    elif violations:
        code = EXIT_VIOLATION
    elif unknowns:
        code = EXIT_UNDECIDED
        for ob in unknowns[:20]:
            lines.append(f"UNDECIDED: {ob.name} [{ob.verdict}] {ob.reason[:160]}")
    else:
        code = EXIT_OK
    wall = time.time() - t0
    write_evidence(ctx, plan, wall, violations, unknowns, known_hits, proved)
    for ln in lines:
        print(ln)
    gens = sorted({o.generator for o in ctx.obs})
    print(f"{ctx.pid}: {proved}/{nobs} obligations discharged ({'+'.join(gens)}), {len(violations)} violation(s), "
          f"{len(unknowns)} undecided, {len(known_hits)} known finding(s), {wall:.1f}s, tier {ctx.tier}")
    return code


def write_evidence(ctx, plan, wall, violations, unknowns, known_hits, proved):
    level = plan.get("level", "proof")
    formal = [o for o in ctx.obs if o.generator in ("G1", "G2", "G3")]
    bounded = [o for o in ctx.obs if o.generator == "G4"]
    samples = list(ctx.samples)
    for o in formal[:2]:
        if o.smt2:
            samples.append({"obligation": o.name, "verdict": o.verdict, "smt2_head": o.smt2[:1500]})
        else:
            samples.append({"obligation": o.name, "verdict": o.verdict, "clause": o.clause[:300]})
    if not samples and ctx.obs:
        samples.append(ctx.obs[0].to_json())
    by_backend = {}
    for o in ctx.obs:
        by_backend[o.backend or "-"] = by_backend.get(o.backend or "-", 0) + 1
    cov = {
        "obligations": len(formal),
        "discharged": len([o for o in formal if o.verdict in PROVED]),
        "checker_cmd": f"./check {ctx.pid} --tier {ctx.tier}",
        "trusted_base": ctx.trusted,
        "functions_under_contract": ctx.functions,
        # capped at 600 entries: undischarged first, then the bounded clauses, then the discharged formal obligations
        # (among those: G3 / lemma obligations before the numerous G1 ones, so that the cap never hides a whole generator)
        "obligation_list": [o.to_json() for o in sorted(ctx.obs, key=lambda o: (o.verdict in PROVED and o.generator != "G4",
                                                                                 o.verdict in PROVED, o.generator == "G1"))][:600],
        "obligation_list_total": len(ctx.obs),
        "generators": sorted({o.generator for o in ctx.obs}),
        "by_backend": by_backend,
        "solver_s_total": round(sum(o.solver_s for o in ctx.obs), 2),
        "extraction_drops": extract.DROPS,
        "bounded_parts": ctx.bounded_parts,
        "known_findings_matched": [k["text"] for _, k in known_hits],
        "undecided": [o.name for o in unknowns][:50],
        "samples": samples[:6],
        "explanation": plan.get("explanation", ""),
        "evaluations": max(1, sum(p.get("evaluations", 0) for p in ctx.bounded_parts) or len(ctx.obs)),
        "distinct_nontrivial": max(2, sum(p.get("distinct_nontrivial", p.get("valid", 0)) for p in ctx.bounded_parts)
                                   or len({o.name for o in ctx.obs})),
        "rule": plan.get("rule", "formal obligations are distinct by name; bounded cases are counted as distinct "
                                 "inputs that satisfy the contract's precondition"),
        "exhaustive": bool(ctx.bounded_parts) and all(p.get("exhaustive") for p in ctx.bounded_parts),
        "repo": ctx.repo,
    }
    ev = {"property_id": ctx.pid, "tier": ctx.tier, "seed": ctx.seed, "level": level, "coverage": cov,
          "assumptions": [a if isinstance(a, str) else json.dumps(a, default=str)[:1500]
                          for a in ctx.assumptions + plan.get("assumptions", [])], "wall_s": round(wall, 2),
          "violations": len(violations)}
    os.makedirs(os.path.join(OUT, "evidence"), exist_ok=True)
    with open(os.path.join(OUT, "evidence", f"{ctx.pid}.json"), "w") as f:
        json.dump(ev, f, indent=1, default=str)


def main(argv):
    import argparse
    ap = argparse.ArgumentParser()
    ap.add_argument("pid")
    ap.add_argument("--tier", default=os.environ.get("VERIF_TIER", "quick"))
    a = ap.parse_args(argv)
    tier = a.tier if a.tier in ("quick", "thorough") else "quick"
    seed = int(os.environ.get("VERIF_SEED", "0") or 0)
    t0 = time.time()
    try:
        mod = importlib.import_module(f"props.{a.pid}")
    except ModuleNotFoundError:
        print(f"no check for {a.pid}")
        return EXIT_CRASH
    ctx = Ctx(a.pid, tier, seed)
    try:
        plan = mod.run(ctx) or {}
        return finish(ctx, {**getattr(mod, "PLAN", {}), **plan}, t0)
    except Exception:
        import traceback
        traceback.print_exc()
        print(f"CHECKER-ERROR: {a.pid} crashed (exit 3; never a violation)")
        return EXIT_CRASH


if __name__ == "__main__":
    sys.exit(main(sys.argv[1:]))


def run_lemmas(ctx, lemmas, prefix):
    """Discharge stand-alone lemma obligations [(name, assumptions, goal, text)] with the G1 pipeline."""
    from . import smt
    from .vcgen import Obligation
    obs = []
    for name, assumptions, goal, text in lemmas:
        o = Obligation(f"{prefix}:{name}", "lemma", assumptions, goal, 0, prefix, text)
        obs.append(o)
    for r in smt.discharge(obs, timeout_s=ctx.timeout_s):
        ctx.obs.append(Ob(r.name, "G1", r.kind, r.verdict, r.backend, r.seconds, r.text, r.func, 0, r.model, r.reason, r.smt2))
